"""Statement contracts inside validators/elements.py::XsdElement.raw_decode and XsdType.is_blocked (C07)."""
import z3
from pyvc.core import Target
from pyvc.se import *

F = 'xmlschema/validators/elements.py'
XSI_NIL = '{http://www.w3.org/2001/XMLSchema-instance}nil'
XSI_TYPE = '{http://www.w3.org/2001/XMLSchema-instance}type'
SB, SS = z3.ArraySort(S, B), z3.ArraySort(S, S)

t = Target('elements.raw_decode.xsi_nil_block', ['C07'], F, 'XsdElement.raw_decode', anchor='if nm.XSI_NIL in obj.attrib:',
           note="statement contract: nilled <=> xsi:nil present, element nillable, value in {1,true}, no fixed value, no text and no children; "
                "exactly one error <=> present and (not nillable, or not a boolean, or true with a fixed value or non-empty content)")


@t.symbolic
def _(run):
    ex = run.exec(); st = new_state()
    a_dom, a_val = z3.Const('a_dom', SB), z3.Const('a_val', SS)
    c_attr = st.alloc(kind='dict', dom=a_dom, val=a_val, ksort=S, default=None, wrap=lambda t_: VStr(t_))
    st.objf['obj'] = {'attrib': VDict(c_attr), 'text': VOpt(z3.Bool('text_none'), VStr(z3.String('text')))}
    st.objf['self'] = {'nillable': VBool(z3.Bool('nillable')), 'fixed': VOpt(z3.Bool('fixed_none'), VStr(z3.String('fixed')))}
    st.objf['context'] = {}
    st.env.update(obj=VObj('obj'), self=VObj('self'), context=VObj('context'), validation=VStr(z3.String('validation')), nilled=VBool(z3.BoolVal(False)))
    ex.names[('nm', 'XSI_NIL')] = VStr(SV(XSI_NIL))
    nchildren = z3.Int('nchildren'); st.ghost['errs'] = 0

    def validation_error(e, s, recv, args, kw): s.ghost['errs'] += 1; return NONE
    ex.callees['validation_error'] = validation_error
    strip = z3.Function('strip', S, S)
    ex.callees['strip'] = lambda e, s, recv, a, k: VStr(strip(recv.t))
    orig = ex.e_Call

    def e_Call(e, s):
        if isinstance(e.func, ast.Name) and e.func.id == 'len' and ast.unparse(e.args[0]) == 'obj': return VInt(nchildren)
        return orig(e, s)
    ex.e_Call = e_Call
    pre = nchildren >= 0
    v = strip(a_val[SV(XSI_NIL)])
    run.inputs.update(present=a_dom[SV(XSI_NIL)], value=v, nillable=z3.Bool('nillable'), fixed_none=z3.Bool('fixed_none'), text_none=z3.Bool('text_none'), nchildren=nchildren)
    outs = ex.run(st, pre)
    is_true = z3.Or(v == SV('1'), v == SV('true')); is_false = z3.Or(v == SV('0'), v == SV('false'))
    present = a_dom[SV(XSI_NIL)]
    empty = z3.And(z3.Bool('text_none'), nchildren == 0)
    spec_nilled = z3.And(present, z3.Bool('nillable'), is_true, z3.Bool('fixed_none'), empty)
    spec_error = z3.And(present, z3.Or(z3.Not(z3.Bool('nillable')), z3.And(z3.Not(is_true), z3.Not(is_false)),
                                     z3.And(z3.Bool('nillable'), is_true, z3.Or(z3.Not(z3.Bool('fixed_none')), z3.Not(empty)))))
    run.post(ex, outs, pre, {
        'nilled-iff-spec': lambda kind, val, s: (s.env['nilled'].t == spec_nilled) if kind == 'fall' else z3.BoolVal(False),
        'one-error-iff-spec': lambda kind, val, s: z3.And(z3.BoolVal(s.ghost['errs'] <= 1), z3.BoolVal(s.ghost['errs'] == 1) == spec_error) if kind == 'fall' else z3.BoolVal(False)})


def _nil_schema():
    import xmlschema, functools
    return xmlschema.XMLSchema10('''<xs:schema xmlns:xs="http://www.w3.org/2001/XMLSchema">
 <xs:element name="n" nillable="true"><xs:complexType mixed="true"><xs:sequence><xs:element name="c" minOccurs="0" maxOccurs="unbounded"/></xs:sequence></xs:complexType></xs:element>
 <xs:element name="m"><xs:complexType mixed="true"><xs:sequence><xs:element name="c" minOccurs="0" maxOccurs="unbounded"/></xs:sequence></xs:complexType></xs:element>
 <xs:element name="f" nillable="true" fixed="x" type="xs:string"/></xs:schema>''')


_S = {}


@t.concrete
def _(inp):
    if 's' not in _S: _S['s'] = _nil_schema()
    s = _S['s']
    tag = 'n' if inp['nillable'] and inp['fixed_none'] else 'f' if inp['nillable'] else 'm'
    if tag in ('f',) and inp['nchildren']: return dict(ok=True, observed='not constructible', required=None)
    if not inp['nillable'] and not inp['fixed_none']: return dict(ok=True, observed='not constructible', required=None)
    attr = f' xmlns:xsi="http://www.w3.org/2001/XMLSchema-instance" xsi:nil="{inp["value"]}"' if inp['present'] else ''
    if tag == 'f':
        body = '' if inp['text_none'] else 'x'
    else:
        body = ('' if inp['text_none'] else 't') + '<c/>' * inp['nchildren']
    doc = f'<{tag}{attr}>{body}</{tag}>'
    try: errs = list(s.iter_errors(doc))
    except Exception as e: return dict(ok=False, observed=f'raised {type(e).__name__}: {e}', required='errors or none')
    v = inp['value'].strip(' \t\r\n') if inp['present'] else ''
    is_true, is_false = v in ('1', 'true'), v in ('0', 'false')
    empty = inp['text_none'] and inp['nchildren'] == 0
    want_err = inp['present'] and (not inp['nillable'] or (not is_true and not is_false) or (is_true and (not inp['fixed_none'] or not empty)))
    nil_errs = [e for e in errs if 'nil' in (e.reason or '')]
    # for the fixed element with false nil the fixed-value rule itself may add errors: only nil errors are counted
    return dict(ok=bool(nil_errs) == bool(want_err), observed=[e.reason for e in errs][:3], required=f'nil error expected={want_err}', doc=doc)


@t.scope
def _(tier, rng):
    for present in (True, False):
        for value in ('true', '1', 'false', '0', ' true ', 'TRUE', 'yes', ''):
            for nillable in (True, False):
                for fixed_none in (True, False):
                    for text_none in (True, False):
                        for n in (0, 1):
                            yield dict(present=present, value=value, nillable=nillable, fixed_none=fixed_none, text_none=text_none, nchildren=n)


# ------------------------------------------------------------------ xsi:type block
t = Target('elements.raw_decode.xsi_type_block', ['C07'], F, 'XsdElement.raw_decode', anchor='if nm.XSI_TYPE in obj.attrib and',
           note='statement contract: a failed lookup/derivation check (KeyError/TypeError from get_instance_type) is an error and keeps the '
                'declared type; a successful one replaces the type and is an error iff the named type is blocked for this element',
           assumes=['get_instance_type by its own contract (returns a type derived from the base, or raises KeyError/TypeError)',
                    'the identity-widening branch (update_elements) is abstracted: it may add errors only through TypeError'])


@t.symbolic
def _(run):
    ex = run.exec(); st = new_state()
    a_dom, a_val = z3.Const('a_dom', SB), z3.Const('a_val', SS)
    c_attr = st.alloc(kind='dict', dom=a_dom, val=a_val, ksort=S, default=None, wrap=lambda t_: VStr(t_))
    st.objf['obj'] = {'attrib': VDict(c_attr)}
    declared, named = z3.Const('declared_type', Ref), z3.Const('named_type', Ref)
    lookup = z3.Int('lookup')     # 0 ok, 1 KeyError, 2 TypeError
    blocked = z3.Function('is_blocked', Ref, B); in_xsi = z3.Bool('already_recorded'); complex_ = z3.Function('has_complex_content', Ref, B)
    st.objf['schema'] = {'meta_schema': VOpt(z3.Bool('is_meta'), VObj('meta'))}; st.objf['meta'] = {}
    st.objf['maps'] = {}; st.objf['context'] = {'namespaces': OPAQUE, 'identities': OPAQUE}
    st.objf['self'] = {'schema': VObj('schema'), 'maps': VObj('maps'), 'xsi_types': OPAQUE, 'name': OPAQUE}
    st.env.update(obj=VObj('obj'), self=VObj('self'), context=VObj('context'), validation=VStr(z3.String('validation')), xsd_type=VRef(declared))
    ex.names[('nm', 'XSI_TYPE')] = VStr(SV(XSI_TYPE))
    st.ghost['errs'] = 0; st.ghost['ff'] = {}

    def validation_error(e, s, recv, args, kw): s.ghost['errs'] += 1; return NONE
    ex.callees['validation_error'] = validation_error
    ex.callees['strip'] = lambda e, s, recv, a, k: VStr(z3.Function('strip', S, S)(recv.t))

    def get_instance_type(e, s, recv, a, k):
        e.pending_raise.append((lookup == 1, VExc(KeyError))); e.pending_raise.append((lookup == 2, VExc(TypeError)))
        return VRef(named)
    ex.callees['get_instance_type'] = get_instance_type
    ex.callees['is_blocked'] = lambda e, s, recv, a, k: VBool(blocked(recv.t))
    ex.callees['has_complex_content'] = lambda e, s, recv, a, k: VBool(complex_(recv.t))
    ex.callees['add'] = lambda e, s, recv, a, k: NONE
    ex.callees['XPathElement'] = lambda e, s, recv, a, k: OPAQUE
    ex.callees['_'] = lambda *a: OPAQUE
    widen_err = z3.Bool('widening_raises_TypeError')
    orig_cmp = ex.cmp

    def cmp(op, l_, r_, s):
        if isinstance(op, (ast.In, ast.NotIn)) and isinstance(r_, VOpaque):
            return in_xsi if isinstance(op, ast.In) else z3.Not(in_xsi)
        return orig_cmp(op, l_, r_, s)
    ex.cmp = cmp

    def widen_loop(e, node, s):
        # for counter in context.identities.values(): ... update_elements(...) may raise TypeError -> one validation error
        s1 = s.fork(widen_err, mark='+widen-error'); s1.ghost['errs'] += 1
        s2 = s.fork(z3.Not(widen_err), mark='-widen-error')
        return [('fall', None, s1), ('fall', None, s2)]
    ex.s_For = lambda node, s: widen_loop(ex, node, s)
    pre = z3.And(lookup >= 0, lookup <= 2, z3.Implies(widen_err, z3.And(lookup == 0)))
    outs = ex.run(st, pre)
    present = z3.And(a_dom[SV(XSI_TYPE)], z3.Not(z3.Bool('is_meta')))

    def typ(kind, v, s):
        if kind != 'fall': return z3.BoolVal(False)
        x = s.env['xsd_type']
        return z3.If(z3.And(present, lookup == 0), x.t == named, x.t == declared) if isinstance(x, VRef) else z3.BoolVal(False)

    def errs(kind, v, s):
        if kind != 'fall': return z3.BoolVal(False)
        n = s.ghost['errs']
        must = z3.And(present, z3.Or(lookup != 0, blocked(named)))
        return z3.And(z3.Implies(must, z3.BoolVal(n >= 1)), z3.Implies(z3.BoolVal(n >= 1), z3.Or(must, widen_err)))
    run.post(ex, outs, pre, {'governing-type-is-the-named-type-iff-lookup-succeeds': typ, 'error-iff-lookup-fails-or-blocked': errs})


# ------------------------------------------------------------------ XsdType.is_blocked
t = Target('xsdbase.XsdType.is_blocked', ['C07'], 'xmlschema/validators/xsdbase.py', 'XsdType.is_blocked',
           note="result <=> self is not the declared type and some derivation method d in {extension, restriction} listed in the element's "
                "block or the declared type's block has self.is_derived(declared, d)",
           assumes=['is_derived is an uninterpreted relation here (its own recursion over the base-type chain is covered by the bounded C07 check)',
                    "str.split() of the joined block strings yields exactly the whitespace-separated tokens (A-STR); tokens are modelled as a set"])


@t.symbolic
def _(run):
    ex = run.exec(); st = new_state()
    me, declared = z3.Const('self_type', Ref), z3.Const('declared_type', Ref)
    toks = z3.Const('block_tokens', SB)         # tokens of f'{elem.block} {type.block}'
    derived = z3.Function('is_derived', Ref, Ref, S, B)
    st.ghost['ff'] = {'type': lambda r: VRef(declared), 'block': lambda r: OPAQUE}
    st.env.update(self=VRef(me), xsd_element=VRef(z3.Const('elem', Ref)))
    ex.callees['is_derived'] = lambda e, s, recv, a, k: VBool(derived(recv.t, a[0].t, lift(a[1]).t))
    # block = f'...'.strip(); `if not block` <=> no token at all; block.split() -> the token set
    blockv = VStr(z3.String('block_joined'))
    ex.e_JoinedStr = lambda e, s: blockv
    ex.callees['strip'] = lambda e, s, recv, a, k: recv
    ex.callees['split'] = lambda e, s, recv, a, k: VSet(s.alloc(kind='set', arr=toks))
    q = z3.FreshConst(S, 'tk')
    pre = z3.And((z3.Length(blockv.t) > 0) == z3.Exists([q], toks[q]))
    outs = ex.run(st, pre)
    want = z3.And(me != declared, z3.Or(*[z3.And(toks[SV(d)], derived(me, declared, SV(d))) for d in ('extension', 'restriction')]))
    run.post(ex, outs, pre, {'blocked-iff-a-listed-derivation-step-applies': lambda kind, v, s: (v.t == want) if kind == 'return' else z3.BoolVal(False)})


# ------------------------------------------------------------------ effective block / final: an explicit (even empty) attribute overrides the schema default
def mk_effective(tid, file, qual, attr, default_field, has_ref):
    t = Target(tid, ['C07'], file, qual,
               note=f'the effective value is the component\'s own {attr[1:]} attribute whenever it is present - also when it is the empty string - and the schema '
                    f'{default_field} only when it is absent' + ('; a reference takes the value of the referred declaration' if has_ref else ''))

    @t.symbolic
    def _(run):
        ex = run.exec(); st = new_state()
        own = VOpt(z3.Bool('own_none'), VStr(z3.String('own'))); dflt = z3.String('schema_default'); refv = z3.String('ref_value')
        st.objf['schema'] = {default_field: VStr(dflt)}
        st.objf['refobj'] = {attr[1:]: VStr(refv)}
        st.objf['self'] = {attr: own, 'schema': VObj('schema'), 'ref': VOpt(z3.Bool('ref_none'), VObj('refobj'))}
        st.env['self'] = VObj('self')
        run.inputs.update(own=('opt', z3.Bool('own_none'), z3.String('own')), schema_default=dflt, is_ref=z3.Not(z3.Bool('ref_none')))
        pre = z3.BoolVal(True) if has_ref else z3.Bool('ref_none')
        outs = ex.run(st, pre)
        want = z3.If(z3.And(z3.Not(z3.Bool('ref_none')), z3.BoolVal(has_ref)), refv, z3.If(z3.Bool('own_none'), dflt, z3.String('own')))
        def post(kind, v, s):
            v = lift(v)
            if kind != 'return': return z3.BoolVal(False)
            if isinstance(v, VStr): return v.t == want
            if isinstance(v, VOpt) and isinstance(v.val, VStr): return z3.And(z3.Not(v.none), v.val.t == want)
            return z3.BoolVal(False)
        run.post(ex, outs, pre, {'own-attribute-overrides-the-schema-default': post})

    @t.concrete
    def _(inp):
        import xmlschema
        XS = 'xmlns:xs="http://www.w3.org/2001/XMLSchema"'
        if inp.get('is_ref'): return dict(ok=True, observed='reference case not replayed', required=None)
        own, dflt = inp['own'], inp['schema_default']
        words = lambda x: ' '.join(w for w in ('extension', 'restriction') if w in (x or ''))
        # abstract strings of a solver model are mapped onto legal attribute values, keeping emptiness and (in)equality
        own_w = None if own is None else (words(own) or ('' if own == '' else 'extension'))
        d_w = words(dflt) or ('' if dflt == '' else ('restriction' if dflt != own else own_w or 'restriction'))
        kind = 'elem' if 'elements' in file else 'type'
        dattr = 'blockDefault' if 'block' in attr else 'finalDefault'
        a = '' if own_w is None else f' {attr[1:]}="{own_w}"'
        body = f'<xs:element name="e" type="xs:string"{a}/>' if kind == 'elem' else f'<xs:complexType name="T"{a}/><xs:element name="e" type="T"/>'
        s = xmlschema.XMLSchema10(f'<xs:schema {XS} {dattr}="{d_w}">{body}</xs:schema>')
        comp = s.elements['e'] if kind == 'elem' else s.types['T']
        got = getattr(comp, attr[1:]); want = d_w if own_w is None else own_w
        return dict(ok=set(got.split()) == set(want.split()), observed=got, required=want)

    @t.scope
    def _(tier, rng):
        for own in (None, '', 'extension', 'restriction', 'extension restriction'):
            for d in ('', 'extension', 'restriction', 'extension restriction'):
                yield dict(own=own, schema_default=d, is_ref=False)


mk_effective('elements.XsdElement.block', F, 'XsdElement.block', '_block', 'block_default', True)
mk_effective('elements.XsdElement.final', F, 'XsdElement.final', '_final', 'final_default', True)
mk_effective('complex_types.XsdComplexType.block', 'xmlschema/validators/complex_types.py', 'XsdComplexType.block', '_block', 'block_default', False)


# ------------------------------------------------------------------ XsdComplexType.is_derived: a requested derivation method is looked for along the WHOLE chain
t = Target('complex_types.XsdComplexType.is_derived', ['C07', 'C14'], 'xmlschema/validators/complex_types.py', 'XsdComplexType.is_derived',
           note='is_derived(other, d) for a complex type with complex content whose base is neither `other` nor missing: the own derivation step consumes the requested method '
                'when it matches (the answer is then plain derivation of the base from other) and is otherwise irrelevant - the question is passed unchanged to the base type, '
                'it is never answered False because the own step uses the other method (a blocked step may be any step of the chain); base cases: the type itself and its '
                'direct base (derived, by a step of the requested method only if that is the own method), xs:anyType (never by extension only)',
           assumes=['the recursive call on the base type is an uninterpreted function R(base, other, d) (induction over the finite base chain)',
                    'simple content, union targets and element references are outside this contract (exercised by the bounded C07 family)'])


@t.symbolic
def _(run):
    ex = run.exec(); st = new_state()
    d = z3.String('derivation'); dnone = z3.Bool('derivation_none'); own = z3.String('own_derivation'); own_none = z3.Bool('own_derivation_none')
    same = z3.Bool('self_is_other'); base_is_other = z3.Bool('base_is_other'); any_type = z3.Bool('other_is_anyType')
    R = z3.Function('base_is_derived', B, S, B)          # (derivation is None, derivation) -> result of base_type.is_derived(other, derivation)
    st.objf['other'] = {'ref': NONE, 'name': VStr(z3.If(any_type, SV('{http://www.w3.org/2001/XMLSchema}anyType'), SV('{urn:x}T')))}
    st.objf['base'] = {}; st.objf['self'] = {'derivation': VOpt(own_none, VStr(own)), 'ref': NONE, 'base_type': VObj('base')}
    st.env.update(self=VObj('self'), other=VObj('other'), derivation=VOpt(dnone, VStr(d)))
    ex.names[('nm', 'XSD_ANY_TYPE')] = VStr(SV('{http://www.w3.org/2001/XMLSchema}anyType')); ex.names['XsdUnion'] = OPAQUE; ex.names['XsdSimpleType'] = OPAQUE
    ex.callees['isinstance'] = lambda e, s, r, a, k: VBool(z3.BoolVal(False))
    ex.callees['has_simple_content'] = lambda e, s, r, a, k: VBool(z3.BoolVal(False))

    def is_derived(e, s, recv, a, k):
        x = a[1] if len(a) > 1 else k.get('derivation', NONE)
        if isinstance(x, VNone): return VBool(R(z3.BoolVal(True), SV('')))
        if isinstance(x, VOpt): return VBool(R(x.none, z3.If(x.none, SV(''), x.val.t)))
        return VBool(R(z3.BoolVal(False), x.t))
    ex.callees['is_derived'] = is_derived
    orig_cmp = ex.cmp

    def cmp(op, l_, r_, s):
        if isinstance(op, (ast.Is, ast.IsNot)) and isinstance(l_, VObj) and isinstance(r_, VObj):
            pair = {l_.name, r_.name}; pos = isinstance(op, ast.Is)
            if pair == {'self', 'other'}: return same if pos else z3.Not(same)
            if pair == {'base', 'other'}: return base_is_other if pos else z3.Not(base_is_other)
            if pair == {'base', 'self'}: return z3.BoolVal(not pos)
        if isinstance(op, (ast.Is, ast.IsNot)) and {type(l_), type(r_)} == {VNone, VObj}: return z3.BoolVal(isinstance(op, ast.IsNot))
        return orig_cmp(op, l_, r_, s)
    ex.cmp = cmp
    meth = lambda x: z3.Or(x == SV('extension'), x == SV('restriction'))
    pre = z3.And(z3.Implies(z3.Not(dnone), meth(d)), z3.Implies(z3.Not(own_none), meth(own)), z3.Not(z3.And(same, base_is_other)))
    run.inputs.update(derivation=('opt', dnone, d), own_derivation=('opt', own_none, own), self_is_other=same, base_is_other=base_is_other, other_is_anyType=any_type)
    outs = ex.run(st, pre)
    consumed = z3.And(z3.Not(dnone), z3.Not(own_none), d == own)          # the own step is of the requested method
    d_after_none = z3.Or(dnone, consumed)

    def spec(kind, v, s):
        if kind != 'return' or not isinstance(v, VBool): return z3.BoolVal(False)
        up = R(d_after_none, z3.If(d_after_none, SV(''), d))
        return v.t == z3.If(same, z3.BoolVal(True), z3.If(any_type, z3.Or(d_after_none, d != SV('extension')), z3.If(base_is_other, d_after_none, up)))

    def keeps_looking(kind, v, s):
        # the clause the property needs, stated on its own: own step of the OTHER method => exactly the base's answer to the unchanged question
        if kind != 'return' or not isinstance(v, VBool): return z3.BoolVal(False)
        other_method = z3.And(z3.Not(dnone), z3.Not(own_none), d != own, z3.Not(same), z3.Not(any_type), z3.Not(base_is_other))
        return z3.Implies(other_method, v.t == R(z3.BoolVal(False), d))
    run.post(ex, outs, pre, {'result-is-the-chain-reading': spec, 'a-step-of-the-other-method-does-not-end-the-search': keeps_looking})


# ------------------------------------------------------------------ the fixed-value block of XsdElement.raw_decode for simple content (C02, C19, C04)
t = Target('elements.raw_decode.fixed_value_block', ['C19', 'C02', 'C04'], F, 'XsdElement.raw_decode', anchor='if self.fixed is not None:\n    if not text:',
           note='statement contract: an element with a fixed value and simple content takes the fixed value when it has no text; a text is an error exactly when it differs from the fixed '
                'literal AND its decoded value is not strictly equal to the decoded fixed value - whatever the datatype (strings included); exactly one error is reported then',
           assumes=['text_decode and strictly_equal are uninterpreted (value-space equality of the declared type)', 'an absent text (None) is represented by the empty string: the block tests only its truthiness first'])


@t.symbolic
def _(run):
    ex = run.exec(); st = new_state()
    text = z3.String('text'); tnone = z3.Bool('text_none'); fixed = z3.String('fixed')
    dec = z3.Function('text_decode', S, Ref); seq = z3.Function('strictly_equal', Ref, Ref, B)
    st.objf['self'] = {'fixed': VStr(fixed)}; st.objf['xsd_type'] = {}; st.objf['context'] = {}
    st.env.update(self=VObj('self'), text=VStr(text), xsd_type=VObj('xsd_type'), context=VObj('context'), validation=VStr(z3.String('validation')), obj=OPAQUE)
    st.ghost['errs'] = 0
    ex.callees['text_decode'] = lambda e, s, r, a, k: VRef(dec(lift(a[0]).t))
    ex.callees['strictly_equal'] = lambda e, s, r, a, k: VBool(seq(a[0].t, a[1].t))

    def verr(e, s, r, a, k): s.ghost['errs'] += 1; return NONE
    ex.callees['validation_error'] = verr
    ex.callees['_'] = lambda *a: OPAQUE
    orig_binop = ex.e_BinOp
    ex.e_BinOp = lambda e, s: OPAQUE if isinstance(e.op, ast.Mod) else orig_binop(e, s)
    pre = z3.BoolVal(True); run.inputs.update(text=text, fixed=fixed)
    outs = ex.run(st, pre)
    empty = z3.Length(text) == 0
    bad = z3.And(z3.Not(empty), text != fixed, z3.Not(seq(dec(text), dec(fixed))))

    def one_error(kind, v, s): return z3.If(bad, z3.BoolVal(s.ghost['errs'] == 1), z3.BoolVal(s.ghost['errs'] == 0)) if kind == 'fall' else z3.BoolVal(False)

    def takes_fixed(kind, v, s):
        if kind != 'fall': return z3.BoolVal(False)
        t2 = s.env['text']
        val = t2.val.t if isinstance(t2, VOpt) else t2.t; none = t2.none if isinstance(t2, VOpt) else z3.BoolVal(False)
        return z3.If(empty, z3.And(z3.Not(none), val == fixed), z3.And(z3.Not(none), val == text))
    run.post(ex, outs, pre, {'error-iff-text-differs-from-the-fixed-value-in-the-value-space': one_error, 'no-text-takes-the-fixed-value-a-text-is-kept': takes_fixed})


# ------------------------------------------------------------------ XsdElement.get_attributes: the attribute group that goes with the governing type
t = Target('elements.XsdElement.get_attributes', ['C07', 'C03'], F, 'XsdElement.get_attributes',
           note="the attribute group used for an element governed by xsd_type (the declared type, or the one named by xsi:type / selected by an alternative): a complex type's own "
                "attributes; for a simple type the declaration's own group only when the type IS the declared type, otherwise a new empty group - a simple type admits no "
                "attribute, whatever the declared type admits")


@t.symbolic
def _(run):
    ex = run.exec(); st = new_state()
    is_simple, same = z3.Bool('type_is_simple'), z3.Bool('type_is_declared_type')
    st.objf['xsd_type'] = {'attributes': VObj('type_attributes')}
    st.objf['self'] = {'type': VObj('declared_type'), 'attributes': VObj('declaration_attributes'), 'builders': VObj('builders')}
    for n in ('type_attributes', 'declared_type', 'declaration_attributes', 'builders', 'empty_group'): st.objf[n] = {}
    st.env.update(self=VObj('self'), xsd_type=VObj('xsd_type')); st.ghost['made'] = 0
    ex.callees['isinstance'] = lambda e, s, r, a, k: VBool(is_simple)
    ex.names['XsdSimpleType'] = OPAQUE

    def create_empty(e, s, r, a, k): s.ghost['made'] += 1; return VObj('empty_group')
    ex.callees['create_empty_attribute_group'] = create_empty
    orig = ex.cmp

    def cmp(op, l, r, s):
        # identity of the governing type with the declared type is an input of the contract (the two objects are distinct names of the state)
        if isinstance(op, (ast.Is, ast.IsNot)) and {getattr(l, 'name', None), getattr(r, 'name', None)} == {'xsd_type', 'declared_type'}:
            return same if isinstance(op, ast.Is) else z3.Not(same)
        return orig(op, l, r, s)
    ex.cmp = cmp
    # any other test the body applies to the two types is outside the contract: left unsupported, so that such a body is decided by the run-time side
    run.inputs.update(type_is_simple=is_simple, type_is_declared_type=same)
    pre = z3.BoolVal(True); outs = ex.run(st, pre)

    def post(kind, v, s):
        if kind != 'return' or not isinstance(v, VObj): return z3.BoolVal(False)
        want = z3.If(z3.Not(is_simple), z3.BoolVal(v.name == 'type_attributes'), z3.If(same, z3.BoolVal(v.name == 'declaration_attributes'), z3.BoolVal(v.name == 'empty_group' and s.ghost['made'] == 1)))
        return want
    run.post(ex, outs, pre, {'group-of-the-governing-type': post})


@t.concrete
def _(inp):
    import xmlschema
    s = xmlschema.XMLSchema10('''<xs:schema xmlns:xs="http://www.w3.org/2001/XMLSchema">
 <xs:simpleType name="S"><xs:restriction base="xs:int"/></xs:simpleType><xs:complexType name="C"><xs:attribute name="k"/></xs:complexType>
 <xs:element name="open"/><xs:element name="i" type="xs:int"/><xs:element name="c" type="C"/></xs:schema>''')
    e = s.elements[inp['element']]
    ty = e.type if inp['type_is_declared_type'] else s.types['S'] if inp['type_is_simple'] else s.types['C']
    if inp['type_is_declared_type'] and ty.is_simple() != inp['type_is_simple']: return dict(ok=True, observed='n/a', required='n/a')
    got = e.get_attributes(ty)
    if not ty.is_simple(): ok = got is ty.attributes
    elif ty is e.type: ok = got is e.attributes
    else: ok = got is not e.attributes and len(got) == 0 and got.get(None) is None
    return dict(ok=ok, observed=repr(got), required='group of the governing type')


@t.scope
def _(tier, rng):
    for el in ('open', 'i', 'c'):
        for a in (False, True):
            for b in (False, True): yield dict(element=el, type_is_simple=a, type_is_declared_type=b)
