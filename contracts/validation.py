"""Contracts on validators/validation.py, cli.py, limits.py: the error collection policy, the
derived entry points over the ghost sequence of iter_errors, the CLI exit status, the limit setter
(C04, C10, C11, C19)."""
import z3
from pyvc.core import Target
from pyvc.se import *

FV = 'xmlschema/validators/validation.py'


# ------------------------------------------------------------------ raise_or_collect
t = Target('validation.raise_or_collect', ['C04', 'C19', 'C11'], FV, 'ValidationContext.raise_or_collect',
           note="strict: raises the very error passed, errors list unchanged; lax: appends it, returns it; skip: returns it, list "
                "unchanged; error.elem is completed from context.elem only when the error has no node of its own - neither an element nor (lazy "
                "resources keep only it) the path of one; nothing else escapes (lax never raises)")


@t.symbolic
def _(run):
    ex = run.exec(); st = new_state()
    err = z3.Const('error', Ref); ctx_elem = z3.Const('ctx_elem', Ref)
    st.objf['error'] = {'elem': VOpt(z3.Bool('err_elem_none'), VRef(z3.Const('err_elem', Ref))),
                        'path': VOpt(z3.Bool('path_none'), VStr(z3.String('err_path'))),
                        'reason': VOpt(z3.Bool('reason_none'), VStr(z3.String('reason'))), 'obj': OPAQUE,
                        'stack_trace': VOpt(z3.Bool('st_none'), VStr(z3.String('stack')))}
    errors0 = z3.Const('errors0', z3.SeqSort(Ref))
    st.objf['self'] = {'elem': VOpt(z3.Bool('ctx_elem_none'), VRef(ctx_elem)),
                       'attribute': VOpt(z3.Bool('attr_none'), VStr(z3.String('attr'))), 'namespaces': OPAQUE,
                       'errors': VList(st.alloc(kind='list', seq=errors0, esort=Ref))}
    st.env.update(self=VObj('self'), error=VObj('error'), validation=VStr(z3.String('validation')))
    ex.callees.update(get_prefixed_qname=lambda *a: OPAQUE, raw_encode_value=lambda *a: OPAQUE, format_xmlschema_stack=lambda *a: OPAQUE)
    ex.names[('logger', 'level')] = VInt(z3.Int('loglevel')); ex.names[('logging', 'DEBUG')] = VInt(z3.IntVal(10))
    ex.callees[('logger', 'debug')] = lambda *a: NONE
    orig_key = ex.key
    ex.key = lambda v: err if isinstance(v, VObj) and v.name == 'error' else orig_key(v)
    val = st.env['validation'].t
    # an error that holds an element of a loaded resource also has its path (representation invariant of the error class)
    pre = z3.And(z3.Or(val == SV('strict'), val == SV('lax'), val == SV('skip')), z3.Implies(z3.Not(z3.Bool('err_elem_none')), z3.Not(z3.Bool('path_none'))))
    run.inputs.update(validation=val, path_none=z3.Bool('path_none'), err_elem_none=z3.Bool('err_elem_none'), ctx_elem_none=z3.Bool('ctx_elem_none'),
                      attr_none=z3.Bool('attr_none'), reason=('opt', z3.Bool('reason_none'), z3.String('reason')))
    outs = ex.run(st, pre)

    def elem_ok(s):
        e_elem = s.objf['error']['elem']
        return z3.If(z3.And(z3.Bool('err_elem_none'), z3.Bool('path_none')),
                     z3.And(e_elem.none == z3.Bool('ctx_elem_none'), z3.Implies(z3.Not(e_elem.none), e_elem.val.t == ctx_elem)),
                     z3.If(z3.Bool('err_elem_none'), e_elem.none,          # the error of a lazy resource: its own path stays, no element is attached
                     z3.And(z3.Not(e_elem.none), e_elem.val.t == z3.Const('err_elem', Ref))))
    errs = lambda s: s.heap[s.objf['self']['errors'].cell]['seq']
    same_obj = lambda v: z3.BoolVal(isinstance(v, VObj) and v.name == 'error')

    def mode(kind, v, s):
        if kind == 'raise': return z3.And(val == SV('strict'), z3.BoolVal(isinstance(v, VExc) and isinstance(v.obj, VObj) and v.obj.name == 'error'))
        if kind == 'return': return z3.And(val != SV('strict'), same_obj(v))
        return z3.BoolVal(False)

    def collected(kind, v, s):
        if kind == 'raise': return errs(s) == errors0
        return z3.If(val == SV('lax'), errs(s) == z3.Concat(errors0, z3.Unit(err)), errs(s) == errors0)
    run.post(ex, outs, pre, {'strict-raises-the-error-else-returns-it': mode, 'errors-list-appended-only-in-lax': collected,
                             'error-elem-defaults-to-context-elem': lambda kind, v, s: elem_ok(s)})


def _real_ctx():
    import xmlschema
    from xmlschema.validators.validation import ValidationContext
    s = xmlschema.XMLSchema10('<xs:schema xmlns:xs="http://www.w3.org/2001/XMLSchema"><xs:element name="a"/></xs:schema>')
    return s, ValidationContext(source=xmlschema.XMLResource('<a/>'))


@t.concrete
def _(inp):
    from xml.etree.ElementTree import Element
    from xmlschema.validators.exceptions import XMLSchemaValidationError
    s, ctx = _real_ctx()
    e1, e2 = Element('ctx'), Element('err')
    ctx.elem = None if inp['ctx_elem_none'] else e1
    ctx.attribute = None if inp['attr_none'] else 'attr'
    prior = XMLSchemaValidationError(s, 'x', 'prior'); ctx.errors.append(prior)
    err = XMLSchemaValidationError(s, 'obj', inp.get('reason'))
    err.elem = None if inp['err_elem_none'] else e2
    want_elem = (e2 if not inp['err_elem_none'] else ctx.elem); want_path = None
    if inp['err_elem_none'] and not inp.get('path_none', True):
        # the error of a lazy resource: assigning its element stores the path and drops the element
        import io, xmlschema
        lz = xmlschema.XMLResource(io.StringIO('<a><b/><c/></a>'), lazy=True)
        node = next(iter(lz.iter_depth()))
        err = XMLSchemaValidationError(s, 'obj', inp.get('reason'), source=lz); err.elem = node
        want_path = err.path; want_elem = None
        if err.elem is not None or want_path is None: return dict(ok=False, observed='harness: a lazy error did not drop its element', required='lazy errors keep the path only')
    try:
        r = ctx.raise_or_collect(inp['validation'], err); raised = None
    except XMLSchemaValidationError as x:
        r = None; raised = x
    except Exception as x:
        return dict(ok=False, observed=f'raised {type(x).__name__}', required='only the error itself may be raised')
    failed = []
    if inp['validation'] == 'strict':
        if raised is not err: failed.append('strict-raises-the-error-else-returns-it')
        if ctx.errors != [prior]: failed.append('errors-list-appended-only-in-lax')
    else:
        if raised is not None or r is not err: failed.append('strict-raises-the-error-else-returns-it')
        want = [prior, err] if inp['validation'] == 'lax' else [prior]
        if len(ctx.errors) != len(want) or any(a is not b for a, b in zip(ctx.errors, want)): failed.append('errors-list-appended-only-in-lax')
    if err.elem is not want_elem or (want_path is not None and err.path != want_path): failed.append('error-elem-defaults-to-context-elem')
    return dict(ok=not failed, observed=dict(raised=raised is not None, n_errors=len(ctx.errors), path=err.path), required='see clauses', failed=failed)


@t.scope
def _(tier, rng):
    for v in ('strict', 'lax', 'skip'):
        for a in (True, False):
            for b in (True, False):
                for c in (True, False):
                    for reason in (None, 'bad', 'attribute x'):
                        yield dict(validation=v, err_elem_none=a, ctx_elem_none=b, attr_none=c, reason=reason, path_none=a)
                        if a: yield dict(validation=v, err_elem_none=a, ctx_elem_none=b, attr_none=c, reason=reason, path_none=False)


# ------------------------------------------------------------------ ValidationContext.clear : every status slot is reset
t = Target('validation.ValidationContext.clear', ['C10'], FV, 'ValidationContext.clear',
           note='every slot of ValidationContext that is not a configuration parameter of __init__ is reset by clear(); the slot list '
                'is read from the real class, so a status slot added without a reset fails the obligation')


@t.symbolic
def _(run):
    import inspect
    from xmlschema.validators.validation import ValidationContext
    ex = run.exec(); st = new_state()
    params = set(inspect.signature(ValidationContext.__init__).parameters) | {'namespaces', 'validation_only'}
    status = [s for s in ValidationContext.__slots__ if s not in params]
    cells = {}
    f = {}
    for sname in ValidationContext.__slots__:
        if sname in ('errors',): f[sname] = VList(st.alloc(kind='list', seq=z3.Const('errors0', z3.SeqSort(Ref)), esort=Ref))
        elif sname in ('id_map', 'identities', 'inherited'):
            f[sname] = VDict(st.alloc(kind='dict', dom=z3.Const(sname + '_dom', z3.ArraySort(S, B)), val=z3.Const(sname + '_val', z3.ArraySort(S, S)), ksort=S, default=None, wrap=lambda t: VStr(t)))
        elif sname == 'level': f[sname] = VInt(z3.Int('level0'))
        else: f[sname] = VOpt(z3.Bool(sname + '_none'), VStr(z3.String(sname + '_v')))
    st.objf['self'] = f; st.env['self'] = VObj('self')
    pre = z3.BoolVal(True); outs = ex.run(st, pre)

    def reset(kind, v, s):
        if kind not in ('fall', 'return'): return z3.BoolVal(False)
        g = []
        for sname in status + ['errors']:
            x = s.objf['self'][sname]
            if isinstance(x, VList): g.append(z3.Length(s.heap[x.cell]['seq']) == 0)
            elif isinstance(x, VDict): g.append(z3.Not(nonempty_arr(s.heap[x.cell]['dom'])))
            elif isinstance(x, VInt): g.append(x.t == 0)
            elif isinstance(x, VOpt): g.append(x.none)
            elif isinstance(x, VNone): pass
            else: g.append(z3.BoolVal(False))
        return z3.And(*g)
    run.post(ex, outs, pre, {'every-status-slot-reset': reset})


@t.concrete
def _(inp):
    import inspect
    from xmlschema.validators.validation import ValidationContext
    s, ctx = _real_ctx()
    params = set(inspect.signature(ValidationContext.__init__).parameters) | {'namespaces', 'validation_only'}
    ctx.errors.append(1); ctx.id_map['a'] = 1; ctx.identities['k'] = 1; ctx.inherited['x'] = 'y'; ctx.level = 3
    for sname in ValidationContext.__slots__:
        if sname not in params and sname not in ('id_map', 'identities', 'inherited', 'level'): setattr(ctx, sname, 'dirty')
    ctx.clear()
    dirty = [sname for sname in ValidationContext.__slots__ if sname not in params and getattr(ctx, sname) not in (None, 0) and len(getattr(ctx, sname)) > 0]
    return dict(ok=not dirty and ctx.errors == [], observed=dirty, required='all status slots empty/None/0')


t.scope(lambda tier, rng: [{}])


def forwarding_ok(ex, callee_name, wrapper=None, extra_ok=('validation',)):
    """Syntactic delegation check on the real AST: the single call to self.<callee_name>(...) in the wrapper passes each
    wrapper parameter unchanged to the parameter of the same name of the callee defined in the same class."""
    wrapper = wrapper or ex.fn
    calls = [n for n in ast.walk(wrapper) if isinstance(n, ast.Call) and isinstance(n.func, ast.Attribute) and n.func.attr == callee_name]
    if len(calls) != 1: return False
    call = calls[0]
    cls = next((c for c in ast.walk(ex.tree) if isinstance(c, ast.ClassDef) and wrapper in c.body), None)
    callee = find_def(cls, callee_name) if cls is not None else None
    if callee is None: return False
    cparams = [a.arg for a in callee.args.args if a.arg != 'self']
    wparams = [a.arg for a in wrapper.args.args if a.arg != 'self'] + [a.arg for a in wrapper.args.kwonlyargs]
    covered = set()
    for i, a in enumerate(call.args):
        if not (isinstance(a, ast.Name) and i < len(cparams) and cparams[i] == a.id and a.id in wparams): return False
        covered.add(a.id)
    for k in call.keywords:
        if k.arg is None:
            if isinstance(k.value, ast.Name) and wrapper.args.kwarg and k.value.id == wrapper.args.kwarg.arg: continue
            return False
        if isinstance(k.value, ast.Name) and k.value.id == k.arg and k.arg in wparams: covered.add(k.arg)
        elif k.arg in extra_ok and isinstance(k.value, ast.Constant): pass
        else: return False
    return covered == set(wparams)


# ------------------------------------------------------------------ is_valid / validate over the ghost sequence E of iter_errors
def mk_wrapper(fn, file, qual, props, tid):
    t = Target(tid, props, file, qual,
               note='with E the sequence yielded by iter_errors(same arguments): is_valid() <=> E = []; validate() raises E[0] iff E != []')

    @t.symbolic
    def _(run):
        from xmlschema.validators.exceptions import XMLSchemaValidationError
        ex = run.exec(); st = new_state()
        E = z3.Const('E', z3.SeqSort(Ref)); n = z3.Length(E)
        for a in ex.fn.args.args + ex.fn.args.kwonlyargs:
            if a.arg != 'self': st.env[a.arg] = OPAQUE
        st.objf['self'] = {}; st.env['self'] = VObj('self')
        seen = {}

        def iter_errors(e, s, r, a, k):
            seen['args'] = (len(a), sorted(k)); return ('gen', E)
        ex.callees['iter_errors'] = iter_errors
        ex.callees['next'] = lambda e, s, r, a, k: VOpt(n == 0, VRef(E[0]))

        def for_gen(e, node, s):
            outs = []
            e.ev(node.iter, s)
            s1 = s.fork(n > 0, mark='+E'); s1.env[node.target.id] = VExc(XMLSchemaValidationError, obj=VRef(E[0])); outs.extend(e.block(node.body, s1))
            s2 = s.fork(n == 0, mark='-E'); outs.append(('fall', None, s2)); return outs
        ex.s_For = lambda node, s: for_gen(ex, node, s)
        pre = z3.BoolVal(True); outs = ex.run(st, pre)
        if fn == 'is_valid':
            post = lambda kind, v, s: z3.And(z3.BoolVal(kind == 'return' and isinstance(v, VBool)), v.t == (n == 0)) if kind == 'return' else z3.BoolVal(False)
        else:
            post = lambda kind, v, s: (z3.And(n > 0, z3.BoolVal(isinstance(v, VExc) and v.obj is not None), v.obj.t == E[0]) if kind == 'raise' else n == 0)
        run.post(ex, outs, pre, {'verdict-is-that-of-the-first-error': post})
        # delegation: every parameter of the wrapper is forwarded, by position to the same-named parameter of iter_errors
        # or by keyword under its own name (checked on the call expression of the real AST)
        run.vc('all-arguments-forwarded-to-iter_errors', pre, [], z3.BoolVal(forwarding_ok(ex, 'iter_errors')))
    return t


mk_wrapper('is_valid', FV, 'ValidationMixin.is_valid', ['C04'], 'validation.ValidationMixin.is_valid')
mk_wrapper('validate', FV, 'ValidationMixin.validate', ['C04'], 'validation.ValidationMixin.validate')
mk_wrapper('is_valid', 'xmlschema/validators/schemas.py', 'XMLSchemaBase.is_valid', ['C04'], 'schemas.XMLSchemaBase.is_valid')
mk_wrapper('validate', 'xmlschema/validators/schemas.py', 'XMLSchemaBase.validate', ['C04'], 'schemas.XMLSchemaBase.validate')


# ------------------------------------------------------------------ cli.validate: exit status
t = Target('cli.validate.exit_status', ['C04'], 'xmlschema/cli.py', 'validate', anchor='tot_errors = 0', anchor_end='$',
           note='loop invariant tot_errors >= 0 and (tot_errors = 0 <=> every file so far was valid); at sys.exit(a): '
                '(a mod 256 = 0) <=> all files valid  (POSIX keeps the low 8 bits of the status)',
           assumes=['POSIX exit status truncation to 8 bits', 'len(errors) of a non-empty list is >= 1'])


@t.symbolic
def _(run):
    import xmlschema
    from urllib.error import URLError
    ex = run.exec(); st = new_state()
    st.env.update(args=OPAQUE, schema_class=OPAQUE)
    st.ghost['allvalid'] = z3.BoolVal(True)
    exits = []
    nerr = z3.Int('nerr'); raises = z3.Int('raises')     # 0: returns a list; 1: XMLSchemaException; 2: URLError
    ex.exc_lookup['URLError'] = URLError
    pre = z3.And(nerr >= 0, raises >= 0, raises <= 2)
    run.inputs['nerr'] = z3.Int('tot_final')      # replay: one file with that many errors

    def sys_exit(e, s, r, a, k):
        s.ghost['exit'] = lift(a[0]).t; return NONE
    ex.callees[('sys', 'exit')] = sys_exit
    ex.callees[('sys', 'stdout')] = lambda *a: NONE
    ex.names[('sys', 'stdout')] = OPAQUE; ex.names[('sys', 'stderr')] = OPAQUE
    ex.callees['write'] = lambda *a: NONE
    ex.names[('args', 'files')] = OPAQUE; ex.names[('args', 'schema')] = OPAQUE; ex.names[('args', 'locations')] = OPAQUE
    ex.names[('args', 'lazy')] = OPAQUE; ex.names[('args', 'defuse')] = OPAQUE; ex.names[('args', 'verbosity')] = VInt(z3.Int('verbosity'))

    def list_(e, s, r, a, k):
        # errors = list(iter_errors(...)): either raises a library/URL error or gives a list of nerr errors
        e.pending_raise.append((raises == 1, VExc(xmlschema.XMLSchemaException)))
        e.pending_raise.append((raises == 2, VExc(URLError)))
        return ('errlist', nerr)
    ex.callees['list'] = list_
    ex.callees['iter_errors'] = lambda *a: OPAQUE
    orig_truthy = ex.truthy
    ex.truthy = lambda s, v: (v[1] > 0) if isinstance(v, tuple) and v and v[0] == 'errlist' else orig_truthy(s, v)
    orig_call = ex.e_Call

    def e_Call(e, s):
        if isinstance(e.func, ast.Name) and e.func.id == 'len':
            v = ex.ev(e.args[0], s)
            if isinstance(v, tuple) and v[0] == 'errlist': return VInt(v[1])
        return orig_call(e, s)
    ex.e_Call = e_Call
    orig_lift_assign = ex.assign

    def assign(tg, v, s):
        if isinstance(v, tuple) and v and v[0] == 'errlist' and isinstance(tg, ast.Name):
            s.env[tg.id] = v; return [('fall', None, s)]
        return orig_lift_assign(tg, v, s)
    ex.assign = assign

    def inv(s):
        tot = s.env['tot_errors'].t
        return z3.And(tot >= 0, (tot == 0) == s.ghost['allvalid'])

    def loop(e, node, s):
        e.oblige('loop-entry', s, inv(s)); outs = []
        sb = s.fork(); sb.env['tot_errors'] = VInt(z3.Int('tot0')); sb.ghost['allvalid'] = z3.Bool('allvalid0'); sb.pc.append(inv(sb))
        sb.env['filepath'] = OPAQUE
        for kind, val, s2 in e.block(node.body, sb):
            if kind in ('fall', 'continue'):
                # ghost update: this file was valid iff no exception and no errors
                s2.ghost['allvalid'] = z3.And(z3.Bool('allvalid0'), raises == 0, nerr == 0)
                e.oblige('loop-preserve', s2, inv(s2))
            else: outs.append((kind, val, s2))
        se = s.fork(); se.env['tot_errors'] = VInt(z3.Int('tot_final')); se.ghost['allvalid'] = z3.Bool('allvalid_final'); se.pc.append(inv(se))
        outs.append(('fall', None, se)); return outs
    ex.invariants['for filepath in args.files'] = loop
    def inner(e, node, s):
        stored = {n.id for b in node.body for n in ast.walk(b) if isinstance(n, ast.Name) and isinstance(n.ctx, ast.Store)}
        ctl = any(isinstance(n, (ast.Return, ast.Raise, ast.Break)) or (isinstance(n, ast.Call) and 'exit' in ast.unparse(n.func)) for b in node.body for n in ast.walk(b))
        if 'tot_errors' in stored or ctl: raise Unsupported('inner reporting loop touches tot_errors or control flow')
        return [('fall', None, s)]
    ex.invariants['for error in errors'] = inner
    outs = ex.run(st, pre)

    def post(kind, v, s):
        if 'exit' not in s.ghost: return z3.BoolVal(False)
        a = s.ghost['exit']
        return z3.And(a >= 0, ((a % 256) == 0) == s.ghost['allvalid'])
    run.post(ex, outs, pre, {'exit-status-zero-iff-all-valid': post})


@t.concrete
def _(inp):
    # run the real function in-process with iter_errors stubbed to produce n errors
    import sys, io, xmlschema, xmlschema.cli as cli
    n = inp['nerr']; real = cli.iter_errors; argv = sys.argv; out, err = sys.stdout, sys.stderr
    cli.iter_errors = lambda *a, **k: iter([xmlschema.XMLSchemaValidationError(None, 'x', 'r')] * n)
    sys.argv = ['xmlschema-validate', '--schema', 's.xsd', 'f.xml']; sys.stdout = io.StringIO(); sys.stderr = io.StringIO()
    try:
        cli.validate(); code = None
    except SystemExit as e:
        code = e.code
    finally:
        cli.iter_errors = real; sys.argv = argv; sys.stdout, sys.stderr = out, err
    status = (code or 0) % 256 if isinstance(code, int) or code is None else 1
    return dict(ok=(status == 0) == (n == 0) and isinstance(code, int) and code >= 0, observed=f'sys.exit({code!r}) -> status {status}', required=f'status 0 iff {n} == 0')


@t.scope
def _(tier, rng):
    for n in (0, 1, 2, 6, 255, 256, 257, 511, 512, 768, 65536):
        yield dict(nerr=n)


# ------------------------------------------------------------------ LimitsModule.__setattr__
LOW = {'MAX_MODEL_DEPTH': 5, 'MAX_SCHEMA_SOURCES': 10, 'MAX_XML_DEPTH': 1, 'MAX_XML_ELEMENTS': 1}
t = Target('limits.LimitsModule.__setattr__', ['C11'], 'xmlschema/limits.py', 'LimitsModule.__setattr__',
           note='for the four limit names: non-int -> XMLSchemaTypeError, below the documented floor -> XMLSchemaValueError, both leaving '
                '_limits unchanged; otherwise _limits.<name> = value and the other three unchanged; other names never touch _limits')


@t.symbolic
def _(run):
    import xmlschema.exceptions as xe
    ex = run.exec(); st = new_state(); attr = z3.String('attr'); val = z3.Int('value'); is_int = z3.Bool('value_is_int')
    lim = {n: z3.Int('lim0_' + n) for n in LOW}
    st.objf['_limits'] = {n: VInt(t_) for n, t_ in lim.items()}
    st.env.update(self=OPAQUE, attr=VStr(attr), value=VInt(val)); ex.names['_limits'] = VObj('_limits')
    ex.callees['isinstance'] = lambda e, s, r, a, k: VBool(is_int)

    def setattr_(e, s, r, a, k):
        for n in lim: s.objf['_limits'][n] = VInt(z3.If(attr == SV(n), val, s.objf['_limits'][n].t))
        return NONE
    ex.callees['setattr'] = setattr_
    ex.names['int'] = OPAQUE
    ex.callees['super'] = lambda e, s, r, a, k: VObj('super_'); st.objf['super_'] = {}
    ex.callees['__setattr__'] = lambda *a: NONE
    run.inputs.update(attr=attr, value=val, value_is_int=is_int)
    pre = z3.BoolVal(True); outs = ex.run(st, pre)
    named = z3.Or(*[attr == SV(n) for n in lim]); low = z3.Sum([z3.If(attr == SV(n), LOW[n], 0) for n in lim])

    def post(kind, v, s):
        unchanged = z3.And(*[s.objf['_limits'][n].t == lim[n] for n in lim])
        if kind == 'raise':
            if not (isinstance(v, VExc) and v.cls is not None): return z3.BoolVal(False)
            return z3.And(named, unchanged, z3.BoolVal(issubclass(v.cls, xe.XMLSchemaTypeError)) == z3.Not(is_int),
                          z3.Implies(is_int, z3.And(val < low, z3.BoolVal(issubclass(v.cls, xe.XMLSchemaValueError)))))
        return z3.If(named, z3.And(is_int, val >= low, *[s.objf['_limits'][n].t == z3.If(attr == SV(n), val, lim[n]) for n in lim]), unchanged)
    run.post(ex, outs, pre, {'limit-set-or-documented-error': post})


@t.concrete
def _(inp):
    import xmlschema, xmlschema._limits as L, xmlschema.exceptions as xe
    before = {n: getattr(L, n) for n in LOW}; pub = {n: getattr(xmlschema.limits, n) for n in LOW}
    attr, value = inp['attr'], (inp['value'] if inp['value_is_int'] else 'x')
    try:
        try: setattr(xmlschema.limits, attr, value); got = 'set'
        except xe.XMLSchemaTypeError: got = 'TypeError'
        except xe.XMLSchemaValueError: got = 'ValueError'
        after = {n: getattr(L, n) for n in LOW}
    finally:
        for n in LOW: setattr(L, n, before[n]); object.__setattr__(xmlschema.limits, n, pub[n]) if False else None
        for n in LOW:
            try: setattr(xmlschema.limits, n, max(pub[n], LOW[n]))
            except Exception: pass
        if attr not in LOW and hasattr(xmlschema.limits, attr):
            try: delattr(xmlschema.limits, attr)
            except Exception: pass
    if attr in LOW:
        want = 'TypeError' if not inp['value_is_int'] else 'ValueError' if value < LOW[attr] else 'set'
        exp = dict(before, **({attr: value} if want == 'set' else {}))
    else:
        want, exp = 'set', before
    return dict(ok=got == want and after == exp, observed=(got, after), required=(want, exp))


@t.scope
def _(tier, rng):
    for attr in list(LOW) + ['OTHER_NAME']:
        for v in (-1, 0, 1, 4, 5, 9, 10, 11, 1000, 1001, 3000, 2 ** 31, 10 ** 12):
            yield dict(attr=attr, value=v, value_is_int=True)
        yield dict(attr=attr, value=0, value_is_int=False)


# ------------------------------------------------------------------ XMLSchemaBase.decode: shaping of the yielded stream
t = Target('schemas.XMLSchemaBase.decode', ['C04', 'C20'], 'xmlschema/validators/schemas.py', 'XMLSchemaBase.decode',
           note='with Y the sequence yielded by iter_decode(same arguments): strict raises the first error item of Y (and only then), otherwise the result is shaped from '
                'ALL data items of Y in order (none -> None, one -> the item, several -> the list); lax returns (data, all error items of Y in order); the whole of Y is '
                'consumed, so errors yielded after the data (the end-of-document reference checks) count',
           assumes=['iter_decode is the ghost sequence Y; items are classified by an uninterpreted predicate is_error'])


@t.symbolic
def _(run):
    from xmlschema.validators.exceptions import XMLSchemaValidationError
    ex = run.exec(); st = new_state()
    Y = z3.Const('Y', z3.SeqSort(Ref)); n = z3.Length(Y); is_err = z3.Function('is_error', Ref, B)
    fD = z3.RecFunction('data_prefix', I, z3.SeqSort(Ref)); fE = z3.RecFunction('error_prefix', I, z3.SeqSort(Ref)); i_ = z3.Int('i_')
    z3.RecAddDefinition(fD, [i_], z3.If(i_ <= 0, z3.Empty(z3.SeqSort(Ref)), z3.Concat(fD(i_ - 1), z3.If(is_err(Y[i_ - 1]), z3.Empty(z3.SeqSort(Ref)), z3.Unit(Y[i_ - 1])))))
    z3.RecAddDefinition(fE, [i_], z3.If(i_ <= 0, z3.Empty(z3.SeqSort(Ref)), z3.Concat(fE(i_ - 1), z3.If(is_err(Y[i_ - 1]), z3.Unit(Y[i_ - 1]), z3.Empty(z3.SeqSort(Ref))))))
    validation = z3.String('validation')
    for a in ex.fn.args.args + ex.fn.args.kwonlyargs:
        if a.arg != 'self': st.env[a.arg] = OPAQUE
    st.env['args'] = OPAQUE; st.env['kwargs'] = OPAQUE
    st.env['validation'] = VStr(validation); st.objf['self'] = {}; st.env['self'] = VObj('self')
    ex.callees['isinstance'] = lambda e, s, r, a, k: VBool(is_err(a[0].t))
    ex.names['XMLSchemaValidationError'] = OPAQUE
    ex.key = lambda v, o=ex.key: v.t if isinstance(v, VRef) else o(v)
    # `data, errors = ([], [])`: two fresh lists of references
    orig_list = ex.e_List
    ex.e_List = lambda e, s: s.new_list(z3.Empty(z3.SeqSort(Ref)), Ref) if not e.elts else orig_list(e, s)
    k = z3.Int('k')

    def cells(s): return s.heap[s.env['data'].cell]['seq'], s.heap[s.env['errors'].cell]['seq']

    def inv(s, i):
        d, e = cells(s)
        return z3.And(d == fD(i), e == z3.If(validation == SV('lax'), fE(i), z3.Empty(z3.SeqSort(Ref))),
                      z3.Implies(validation == SV('strict'), z3.ForAll([k], z3.Implies(z3.And(k >= 0, k < i), z3.Not(is_err(Y[k]))))))

    def loop(e, node, s):
        if 'iter_decode' not in ast.unparse(node.iter): raise Unsupported('loop header drifted')
        e.oblige('loop-entry', s, inv(s, z3.IntVal(0))); outs = []
        i = z3.FreshConst(I, 'i'); sb = s.fork()
        for nm_ in ('data', 'errors'): sb.heap[sb.env[nm_].cell]['seq'] = z3.FreshConst(z3.SeqSort(Ref), nm_)
        sb.pc += [i >= 0, i < n, inv(sb, i)]; sb.env[node.target.id] = VRef(Y[i]); sb.ghost['i'] = i
        for kind, val, s2 in e.block(node.body, sb):
            if kind in ('fall', 'continue'): e.oblige('loop-preserve', s2, inv(s2, i + 1))
            else: outs.append((kind, val, s2))
        se = s.fork()
        for nm_ in ('data', 'errors'): se.heap[se.env[nm_].cell]['seq'] = z3.FreshConst(z3.SeqSort(Ref), nm_ + '_end')
        se.pc.append(inv(se, n)); se.ghost['i'] = None
        outs.append(('fall', None, se)); return outs
    ex.s_For = lambda node, s: loop(ex, node, s)
    modes = z3.Or(validation == SV('strict'), validation == SV('lax'), validation == SV('skip'))
    outs = ex.run(st, modes)

    def post(kind, v, s):
        i = s.ghost.get('i')
        if kind == 'raise':
            if i is None or not (isinstance(v, VExc) and isinstance(v.obj, VRef)): return z3.BoolVal(False)
            return z3.And(validation == SV('strict'), is_err(Y[i]), v.obj.t == Y[i], z3.ForAll([k], z3.Implies(z3.And(k >= 0, k < i), z3.Not(is_err(Y[k])))))
        if kind != 'return' or i is not None: return z3.BoolVal(False)
        d, e = cells(s); D = fD(n)
        def shaped(x):   # x: the data part of the result
            if isinstance(x, VNone): return z3.Length(D) == 0
            if isinstance(x, VRef): return z3.And(z3.Length(D) == 1, x.t == D[0])
            if isinstance(x, VList): return z3.And(z3.Length(D) >= 2, s.heap[x.cell]['seq'] == D)
            return z3.BoolVal(False)
        if isinstance(v, VTuple) and len(v.items) == 2:
            errs_ok = s.heap[v.items[1].cell]['seq'] == fE(n) if isinstance(v.items[1], VList) else z3.BoolVal(False)
            return z3.And(validation == SV('lax'), shaped(v.items[0]), errs_ok)
        return z3.And(validation != SV('lax'), shaped(v), z3.Implies(validation == SV('strict'), z3.ForAll([k], z3.Implies(z3.And(k >= 0, k < n), z3.Not(is_err(Y[k]))))))
    run.post(ex, outs, modes, {'result-shaped-from-the-whole-stream': post})
    run.vc('all-arguments-forwarded-to-iter_decode', modes, [], z3.BoolVal(any(
        isinstance(c, ast.Call) and ast.unparse(c.func) == 'self.iter_decode' and [ast.unparse(a) for a in c.args] == ['source', 'path', 'schema_path', 'validation', '*args']
        and [ast.unparse(kw.value) for kw in c.keywords if kw.arg is None] == ['kwargs'] for c in ast.walk(ex.fn))))


@t.concrete
def _(inp):
    import xmlschema
    from xmlschema.validators.exceptions import XMLSchemaValidationError
    s = _real_ctx()[0]
    # data items of every shape a decoded element can have: a dictionary, None (an empty element), a list (a list-typed element)
    items = [XMLSchemaValidationError(s, 'x', f'err{i}') if c == 'e' else None if c == 'n' else [i, i] if c == 'l' else {'data': i} for i, c in enumerate(inp['stream'])]
    s.iter_decode = lambda *a, **k: iter(items)            # ghost sequence Y supplied to the REAL decode()
    try:
        try: got = s.decode('<a/>', validation=inp['validation']); raised = None
        except XMLSchemaValidationError as e: got = None; raised = e
    finally:
        del s.iter_decode
    data = [x for x in items if not isinstance(x, XMLSchemaValidationError)]; errs = [x for x in items if isinstance(x, XMLSchemaValidationError)]
    shape = None if not data else data[0] if len(data) == 1 else data
    if inp['validation'] == 'strict' and errs: ok = raised is errs[0]; want = 'raises the first error'
    elif inp['validation'] == 'lax': ok = raised is None and isinstance(got, tuple) and got[0] == shape and len(got[1]) == len(errs) and all(a is b for a, b in zip(got[1], errs)); want = '(shape(data), errors)'
    else: ok = raised is None and got == shape; want = 'shape(data)'
    return dict(ok=ok, observed=f'raised={raised is not None} result={str(got)[:80]}', required=want)


@t.scope
def _(tier, rng):
    import itertools
    for n in range(0, 4):
        for stream in itertools.product('denl', repeat=n):
            for v in ('strict', 'lax', 'skip'): yield dict(stream=''.join(stream), validation=v)


# ------------------------------------------------------------------ ValidationContext.__copy__ : what a sub-run collects belongs to the whole run
t = Target('validation.ValidationContext.__copy__', ['C04', 'C08', 'C19'], FV, 'ValidationContext.__copy__', bounded_only=True,
           note='run-time contract on the real method: a copy of the context (made for an element with inheritable attributes and for a mode changed by the validation '
                'hook) SHARES the errors list, the ID map and the identity counters with the original - an error or an ID found below the copy point is seen by '
                'iter_errors / the end-of-document checks - and has its own `inherited` mapping; every other slot has the same value',
           assumes=['the slot loop over iter_class_slots is not within the executor subset (setattr over a computed name): bounded stand-in over the real class'])


@t.concrete
def _(inp):
    import copy, xmlschema
    from xmlschema.validators.validation import ValidationContext, DecodeContext
    from xmlschema.namespaces import NamespaceMapper
    res = xmlschema.XMLResource('<r xmlns:p="urn:p"/>')
    cls = DecodeContext if inp['decode'] else ValidationContext
    ctx = cls(source=res, converter=NamespaceMapper(None, source=res) if not inp['decode'] else None, level=inp['level'])
    ctx.inherited['lang'] = 'en'
    c = copy.copy(ctx)
    problems = []
    for name in ('errors', 'id_map', 'identities'):
        if getattr(c, name) is not getattr(ctx, name): problems.append(f'{name} is a separate object: what the sub-run records is lost')
    if c.inherited is ctx.inherited: problems.append('inherited is shared: attributes inherited below the copy point leak upwards')
    if c.inherited != ctx.inherited: problems.append('inherited values differ')
    for name in ('source', 'level', 'validation_hook', 'max_depth', 'use_defaults', 'check_identities'):
        if getattr(c, name) != getattr(ctx, name): problems.append(f'{name} differs in the copy')
    return dict(ok=not problems, observed=problems or 'ok', required='shared errors / id_map / identities, own inherited, same configuration')


@t.scope
def _(tier, rng):
    for decode in (False, True):
        for level in (0, 1, 3): yield dict(decode=decode, level=level)


# ------------------------------------------------------------------ error location: element-level decoders always name the node (C19)
t = Target('validators.element_level_errors_name_their_node', ['C19'], 'xmlschema/validators/wildcards.py', 'XsdAnyElement.raw_decode',
           note='raise_or_collect falls back to the context\'s CURRENT element when an error is reported without a node; in the element-level decoders the current element is still the '
                'last element decoded before (a sibling\'s descendant), so every validation_error call of XsdElement / XsdGroup / XsdAnyElement / XsdAttributeGroup / XsdAttribute '
                'raw_decode, collect_key_fields and check_dynamic_context passes the instance node (or the data it is reporting on) explicitly; simple-type decoders run with the '
                'current element already set to their owner and are exempt',
           assumes=['syntactic obligation on the real AST (no solver): a fourth positional argument or obj= / elem= keyword is present'])


@t.symbolic
def _(run):
    import ast, glob, os
    from pyvc.se import REPO
    run.exec(); n = 0
    WHO = {'elements.py': ('XsdElement', 'Xsd11Element'), 'groups.py': ('XsdGroup', 'Xsd11Group'), 'wildcards.py': ('XsdAnyElement', 'Xsd11AnyElement'), 'attributes.py': ('XsdAttributeGroup', 'XsdAttribute', 'Xsd11Attribute')}
    for fname, classes in WHO.items():
        tree = ast.parse(open(os.path.join(REPO, 'xmlschema/validators', fname), encoding='utf-8-sig').read())
        for cls in [c for c in tree.body if isinstance(c, ast.ClassDef) and c.name in classes]:
            for fn in [f for f in cls.body if isinstance(f, ast.FunctionDef) and f.name in ('raw_decode', 'collect_key_fields', 'check_dynamic_context')]:
                calls = [c for c in ast.walk(fn) if isinstance(c, ast.Call) and isinstance(c.func, ast.Attribute) and c.func.attr == 'validation_error']
                short = [ast.unparse(c)[:80] for c in calls if len(c.args) < 4 and not any(k.arg in ('obj', 'elem') for k in c.keywords)]
                n += 1
                run.vc('every-error-names-its-node', z3.BoolVal(True), [], z3.BoolVal(not short), f'{fname}:{cls.name}.{fn.name}' + (' without node: ' + '; '.join(short) if short else ''))
    run.paths = n
    if n < 8: raise Exception('scan found too few element-level decoders')


# ------------------------------------------------------------------ lax never raises: errors raised by the dynamic-context helper are collected (C11)
t = Target('groups.raw_decode.dynamic_context_errors_are_collected', ['C11', 'C07'], 'xmlschema/validators/groups.py', 'XsdGroup.raw_decode',
           note='XsdGroup.check_dynamic_context raises XMLSchemaValidationError (blocked substitution, blocked xsi:type derivation on a substitute, XSD 1.1 dynamic EDC) and lets KeyError / '
                'TypeError of the xsi:type lookup through; its call in the content-model loop sits in a try whose handler catches all three and hands the error to '
                'context.validation_error with the caller\'s validation mode - raise_or_collect then raises only in strict mode (proved separately)',
           assumes=['syntactic obligation on the real AST (no solver)'])


@t.symbolic
def _(run):
    import ast
    ex = run.exec(); fn = ex.fn; n = 0
    parents = {c: p for p in ast.walk(fn) for c in ast.iter_child_nodes(p)}
    calls = [c for c in ast.walk(fn) if isinstance(c, ast.Call) and isinstance(c.func, ast.Attribute) and c.func.attr == 'check_dynamic_context']
    run.vc('the-helper-is-called', z3.BoolVal(True), [], z3.BoolVal(len(calls) >= 1), 'raw_decode')
    for c in calls:
        n += 1; node = c; tr = None
        while node in parents:
            p = parents[node]
            if isinstance(p, ast.Try) and any(node is b or node in ast.walk(b) for b in p.body): tr = p; break
            node = p
        caught = set()
        collected = False
        if tr is not None:
            for h in tr.handlers:
                names = [ast.unparse(x) for x in (h.type.elts if isinstance(h.type, ast.Tuple) else [h.type])] if h.type is not None else ['BaseException']
                body = ' '.join(ast.unparse(s_) for s_ in h.body)
                if 'context.validation_error(validation, ' in body and not any(isinstance(x, ast.Raise) for s_ in h.body for x in ast.walk(s_)): caught.update(names); collected = True
        need = {'XMLSchemaValidationError', 'KeyError', 'TypeError'}
        run.vc('validation-key-and-type-errors-of-the-helper-are-collected', z3.BoolVal(True), [], z3.BoolVal(collected and (need <= caught or 'Exception' in caught)), f'call {n}: caught={sorted(caught)}')
    run.paths = max(1, n)


# ------------------------------------------------------------------ the end-of-document reference checks run for whole documents only (C20, C04, C08)
def _mk_refchecks(fn):
    t = Target(f'schemas.XMLSchemaBase.{fn}.reference_checks_guard', ['C20', 'C04', 'C08'], 'xmlschema/validators/schemas.py', f'XMLSchemaBase.{fn}',
               note='the end-of-document checks (_validate_references: unresolved xs:IDREF values, key references still open) are called at exactly one place, a top-level statement '
                    'of the function, and the condition under which it runs is equivalent to "no depth limit and no path was given": a part of a document (a path-selected '
                    'element, the levels above max_depth) is never judged by references that leave it, and a whole document always is',
               assumes=['the guard is evaluated symbolically on the arguments max_depth (None or an int) and path (None or a string); statements between the top of the function and the '
                        'guard are not executed: the contract pins where the call is and under which condition, not what precedes it'])

    @t.symbolic
    def _(run):
        ex = run.exec(); st = new_state()
        calls = [n for n in ast.walk(ex.fn) if isinstance(n, ast.Call) and isinstance(n.func, ast.Attribute) and n.func.attr == '_validate_references']
        pre = z3.BoolVal(True)
        run.vc('exactly-one-call-of-the-reference-checks', pre, [], z3.BoolVal(len(calls) == 1), 'ast')
        if len(calls) != 1: run.paths = 1; return
        # the statement of the function body that contains the call
        tops = [s_ for s_ in ex.fn.body if any(n is calls[0] for n in ast.walk(s_))]
        top = tops[0]
        plain = isinstance(top, ast.Expr) and isinstance(top.value, ast.YieldFrom) and top.value.value is calls[0]
        guarded = (isinstance(top, ast.If) and not top.orelse and len(top.body) == 1 and isinstance(top.body[0], ast.Expr) and isinstance(top.body[0].value, ast.YieldFrom)
                   and top.body[0].value.value is calls[0])
        run.vc('the-call-is-a-top-level-statement-or-its-only-guard', pre, [], z3.BoolVal(plain or guarded), 'ast')
        if not (plain or guarded): run.paths = 1; return
        md_none, p_none = z3.Bool('max_depth_none'), z3.Bool('path_none'); md, p = z3.Int('max_depth'), z3.String('path')
        st.env.update(max_depth=VOpt(md_none, VInt(md)), path=VOpt(p_none, VStr(p)), self=OPAQUE)
        ex.pending_raise = []; ex.obligations = getattr(ex, 'obligations', [])
        cond = z3.BoolVal(True) if plain else ex.truthy(st, ex.ev(top.test, st))
        whole = z3.And(md_none, z3.Or(p_none, p == SV('')))
        run.inputs.update(max_depth_none=md_none, path_none=p_none, path=p)
        run.vc('runs-exactly-for-whole-documents', pre, [], cond == whole, 'guard')
        run.paths = 1

    @t.concrete
    def _(inp):
        import xmlschema
        s = xmlschema.XMLSchema10('''<xs:schema xmlns:xs="http://www.w3.org/2001/XMLSchema"><xs:element name="m"><xs:complexType><xs:sequence>
 <xs:element name="c" maxOccurs="unbounded"><xs:complexType><xs:sequence><xs:element name="p" minOccurs="0"><xs:complexType><xs:attribute name="id" type="xs:ID"/></xs:complexType></xs:element></xs:sequence>
 <xs:attribute name="id" type="xs:ID"/><xs:attribute name="next" type="xs:IDREF"/></xs:complexType></xs:element></xs:sequence></xs:complexType></xs:element></xs:schema>''')
        doc = '<m><c id="c1" next="c2"><p id="p1"/></c><c id="c2" next="p1"/></m>' if inp['resolved'] else '<m><c id="c1" next="nowhere"/></m>'
        kw = {}
        if inp['path']: kw['path'] = inp['path']
        if inp['max_depth']: kw['max_depth'] = inp['max_depth']
        if fn == 'iter_errors': errs = [e.reason for e in s.iter_errors(doc, **kw)]
        else: errs = [e.reason for e in s.iter_decode(doc, validation='lax', **kw) if isinstance(e, Exception)]
        n = sum('IDREF' in (r or '') for r in errs)
        want = 1 if (not inp['resolved'] and not kw) else 0
        return dict(ok=n == want, observed=errs[:2], required=f'{want} unresolved-reference error(s)')

    @t.scope
    def _(tier, rng):
        for resolved in (True, False):
            for path in (None, '/m/c[1]', '/m/c[2]', '/m/c'):
                for md in (None, 1, 2):
                    if not (path and md): yield dict(resolved=resolved, path=path, max_depth=md)
    return t


for _f in ('iter_errors', 'iter_decode'): _mk_refchecks(_f)
