"""Contracts on utils/etree.py::etree_getpath (C19): the positional step computed for a child selects
exactly that child among its same-tag siblings."""
import itertools
import z3
from pyvc.core import Target
from pyvc.se import *

F = 'xmlschema/utils/etree.py'

t = Target('etree.etree_getpath.position_loop', ['C19'], F, 'etree_getpath', anchor='for c in parent:',
           note='loop contract (indexed, counting function unfolded one step per iteration): afterwards position = 1 + #preceding siblings '
                'with the tag of child, siblings = 1 + #other children with that tag; hence name[position] selects exactly the child and a '
                'predicate is needed iff siblings != 1',
           assumes=['child occurs exactly once among the children of parent (tree, not DAG)'])


@t.symbolic
def _(run):
    ex = run.exec()
    ch = z3.Const('children', z3.SeqSort(Ref)); child = z3.Const('child', Ref); j = z3.Int('j'); n = z3.Length(ch)
    tag = z3.Function('tag', Ref, S)
    cnt = z3.RecFunction('cnt', I, I); i_ = z3.Int('i_')
    same = lambda k: z3.And(ch[k] != child, tag(ch[k]) == tag(child))
    z3.RecAddDefinition(cnt, [i_], z3.If(i_ <= 0, 0, cnt(i_ - 1) + z3.If(same(i_ - 1), 1, 0)))
    st = new_state(); st.ghost['ff'] = {'tag': lambda r: VStr(tag(r))}
    st.env.update(child=VRef(child), position=VInt(z3.IntVal(1)), siblings=VInt(z3.IntVal(1)))
    k = z3.Int('k')
    pre = z3.And(j >= 0, j < n, ch[j] == child, z3.ForAll([k], z3.Implies(z3.And(k >= 0, k < n, k != j), ch[k] != child)))

    def inv(s, i):
        return z3.And(s.env['siblings'].t == 1 + cnt(i), z3.If(j < i, s.env['position'].t == 1 + cnt(j), s.env['position'].t == 1))

    def loop(e, node, s):
        if ast.unparse(node.iter) != 'parent' or not isinstance(node.target, ast.Name): raise Unsupported('loop header drifted')
        e.oblige('loop-entry', s, inv(s, z3.IntVal(0)))
        sb = s.fork(); i = z3.FreshConst(I, 'i'); sb.env['position'] = VInt(z3.FreshConst(I, 'pos')); sb.env['siblings'] = VInt(z3.FreshConst(I, 'sib'))
        sb.pc += [i >= 0, i < n, inv(sb, i)]; sb.env[node.target.id] = VRef(ch[i])
        for kind, val, s2 in e.block(node.body, sb):
            if kind not in ('fall', 'continue'): raise Unsupported('loop body leaves the loop')
            e.oblige('loop-preserve', s2, inv(s2, i + 1))
        se = s.fork(); se.env['position'] = VInt(z3.FreshConst(I, 'pos')); se.env['siblings'] = VInt(z3.FreshConst(I, 'sib')); se.pc.append(inv(se, n))
        return [('fall', None, se)]
    ex.s_For = lambda node, s: loop(ex, node, s)
    outs = ex.run(st, pre)
    run.post(ex, outs, pre, {'position-and-siblings-are-the-counts': lambda kind, v, s: z3.And(s.env['position'].t == 1 + cnt(j), s.env['siblings'].t == 1 + cnt(n))})


@t.concrete
def _(inp):
    from xml.etree.ElementTree import Element, SubElement
    from xmlschema.utils.etree import etree_getpath
    root = Element('root'); mid = SubElement(root, 'mid'); kids = [SubElement(mid, tg) for tg in inp['tags']]
    bad = []
    for i, kid in enumerate(kids):
        p = etree_getpath(kid, root, relative=True, add_position=True)
        sel = root.findall(p)
        if sel != [kid]: bad.append((i, p, len(sel)))
        same = [k for k in kids if k.tag == kid.tag]
        want = f'./mid/{kid.tag}' + (f'[{same.index(kid) + 1}]' if len(same) != 1 else '')
        if p != want: bad.append((i, p, want))
    return dict(ok=not bad, observed=bad[:3], required='path selects exactly the element; predicate iff several same-tag siblings')


@t.scope
def _(tier, rng):
    for n in range(1, 5):
        for tags in itertools.product('ab', repeat=n): yield dict(tags=list(tags))


t = Target('etree.etree_getpath.step', ['C19'], F, 'etree_getpath', anchor='if siblings != 1:',
           note='a positional predicate [position] is emitted iff siblings != 1, otherwise the bare name')


@t.symbolic
def _(run):
    ex = run.exec(); st = new_state(); pos, sib = z3.Ints('position siblings'); name = z3.String('name')
    parts0 = z3.Const('parts0', z3.SeqSort(S))
    st.env.update(position=VInt(pos), siblings=VInt(sib), name=VStr(name), parts=VList(st.alloc(kind='list', seq=parts0, esort=S)))
    itos = z3.IntToStr
    ex.e_JoinedStr_orig = ex.e_JoinedStr

    def joined(e, s):
        parts = []
        for v in e.values:
            if isinstance(v, ast.Constant): parts.append(SV(v.value))
            else:
                x = lift(ex.ev(v.value, s)); parts.append(itos(x.t) if isinstance(x, VInt) else x.t)
        return VStr(z3.Concat(*parts))
    ex.e_JoinedStr = joined
    pre = z3.And(pos >= 1, sib >= 1); outs = ex.run(st, pre)

    def post(kind, v, s):
        seq = s.heap[s.env['parts'].cell]['seq']
        step = z3.If(sib != 1, z3.Concat(name, SV('['), itos(pos), SV(']')), name)
        return seq == z3.Concat(parts0, z3.Unit(step))
    run.post(ex, outs, pre, {'predicate-iff-several-siblings': post})
