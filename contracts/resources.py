"""Contracts on resources/xml_resource.py and utils/urls.py: access control kernel, URL classes,
defuse truth table (C12, C13)."""
import string
import z3
from pyvc.core import Target
from pyvc.se import *

FR = 'xmlschema/resources/xml_resource.py'
is_remote = z3.Function('is_remote_url', S, B); is_local = z3.Function('is_local_url', S, B); norm = z3.Function('normalize_url', S, S)
MODES = ['all', 'remote', 'local', 'sandbox', 'none']

t = Target('resources.access_control', ['C12'], FR, 'XMLResource.access_control', strings=True,
           note="returns normally => allowed(_allow, url, base): all | remote and not local | local and not remote | sandbox and not "
                "remote and (url = b or url starts with b + '/') with b = normalize_url(base) without trailing slashes; 'none' never "
                "returns for a URL; the only exception raised is XMLResourceBlocked; modifies nothing",
           assumes=['is_local_url / is_remote_url by their own contracts (urls.is_local_scheme + urlsplit assumed)',
                    'normalize_url is uninterpreted here: canonicalisation (no .. segments, no percent-encoded separators) is covered by the bounded spelling catalogue',
                    "str.rstrip('/') = the longest prefix not ending in '/' (A-STR)",
                    "INV-SB: _allow = 'sandbox' implies _base_url is not None (established by XMLResource.__init__, checked by resources.init_sandbox_base)"])


@t.symbolic
def _(run):
    from xmlschema.exceptions import XMLResourceBlocked
    ex = run.exec(); st = new_state()
    url = z3.String('url'); allow = z3.String('allow'); base = z3.String('base')
    st.objf['self'] = {'_allow': VStr(allow), '_base_url': VOpt(z3.Bool('base_none'), VStr(base))}
    st.env.update(self=VObj('self'), url=VOpt(z3.Bool('url_none'), VStr(url)))
    un = lambda a: (a.val.t if isinstance(a, VOpt) else lift(a).t)
    rs = z3.Function("rstrip_slash", S, S)          # A-STR: str.rstrip('/') as a function of the receiver
    nb = norm(base); r = rs(nb)
    ex.callees.update(is_local_url=lambda e, s, rc, a, k: VBool(is_local(un(a[0]))), is_remote_url=lambda e, s, rc, a, k: VBool(is_remote(un(a[0]))),
                      normalize_url=lambda e, s, rc, a, k: VStr(norm(un(a[0]))))

    def rstrip(e, s, recv, a, k):
        if not (len(a) == 1 and isinstance(lift(a[0]), VStr) and z3.is_string_value(lift(a[0]).t) and lift(a[0]).t.as_string() == '/'):
            raise Unsupported('rstrip with another argument')
        return VStr(rs(recv.t))
    ex.callees['rstrip'] = rstrip
    pre = z3.And(z3.Or(*[allow == SV(m) for m in MODES]), z3.Implies(allow == SV('sandbox'), z3.Not(z3.Bool('base_none'))),
                 z3.Not(z3.And(is_local(url), is_remote(url))), z3.Not(z3.SuffixOf(SV('/'), r)))
    within = z3.Or(url == r, z3.PrefixOf(z3.Concat(r, SV('/')), url))
    allowed = z3.Or(allow == SV('all'), z3.And(allow == SV('remote'), z3.Not(is_local(url))), z3.And(allow == SV('local'), z3.Not(is_remote(url))),
                    z3.And(allow == SV('sandbox'), z3.Not(is_remote(url)), within))
    run.inputs.update(allow=allow, url=('opt', z3.Bool('url_none'), url), base=r, is_local=is_local(url), is_remote=is_remote(url))
    outs = ex.run(st, pre)

    def post(kind, v, s):
        if kind == 'raise': return z3.BoolVal(isinstance(v, VExc) and v.cls is not None and issubclass(v.cls, XMLResourceBlocked))
        return z3.Implies(z3.Not(z3.Bool('url_none')), allowed)
    run.post(ex, outs, pre, {'returns-normally-only-if-allowed': post,
                             # the converse for the unproblematic classes, so that "block everything" is noticed as well
                             'allowed-local-or-all-is-not-blocked': lambda kind, v, s: z3.Not(z3.Or(allow == SV('all'), z3.Bool('url_none'))) if kind == 'raise' else None})


def spec_allowed(mode, url, base):
    from xmlschema.utils.urls import is_local_url, is_remote_url, normalize_url
    if mode == 'all': return True
    if mode == 'none': return False
    if mode == 'remote': return not is_local_url(url)
    if is_remote_url(url): return False
    if mode == 'local': return True
    b = normalize_url(base)
    while b.endswith('/'): b = b[:-1]
    return url == b or url.startswith(b + '/')


@t.concrete
def _(inp):
    from xmlschema import XMLResource
    from xmlschema.exceptions import XMLResourceBlocked
    r = object.__new__(XMLResource); r._allow = inp['allow']; r._base_url = inp.get('base')
    url = inp['url']
    if url is not None and ('is_local' in inp):
        # solver model: strings are abstract; map onto a real URL of the same class and the same containment relation
        root = 'http://example.test/x' if inp.get('is_remote') else 'file:///x'
        b = root + '/sand' if inp.get('base') is not None else None
        rel = 'eq' if url == inp.get('base') else 'in' if inp.get('base') is not None and url.startswith(inp['base'] + '/') else 'pre' if inp.get('base') and url.startswith(inp['base']) else 'out'
        url = {'eq': root + '/sand', 'in': root + '/sand/a.xsd', 'pre': root + '/sand_evil/a.xsd', 'out': root + '/y/a.xsd'}[rel]
        r._base_url = b
    try: r.access_control(url); got = 'returns'
    except XMLResourceBlocked: got = 'blocked'
    except Exception as e: return dict(ok=False, observed=f'raised {type(e).__name__}: {e}', required='XMLResourceBlocked or return')
    allowed = url is None or spec_allowed(r._allow, url, r._base_url)
    ok = (got != 'returns' or allowed) and not (got == 'blocked' and (r._allow == 'all' or url is None))
    return dict(ok=ok, observed=f'{got} for allow={r._allow} url={url} base={r._base_url}', required=f'allowed={allowed}')


@t.scope
def _(tier, rng):
    base = 'file:///x/sand'
    urls = [None, base, base + '/a.xsd', base + '/sub/b.xsd', base + '_evil/a.xsd', base + 'x', 'file:///x/san', 'file:///x', 'file:///y/a.xsd',
            'http://example.test/a.xsd', 'https://example.test/x/sand/a.xsd', 'ftp://h/x', '/x/sand/a.xsd', 'C:/x/sand/a.xsd']
    for m in MODES:
        for u in urls:
            for b in (base, base + '/', base + '//'):
                yield dict(allow=m, url=u, base=b)
        for u in ('http://example.test/x/sand/a.xsd', 'http://example.test/x/sand', 'http://example.test/x/sand_evil/a.xsd'):
            yield dict(allow=m, url=u, base='http://example.test/x/sand')


# ------------------------------------------------------------------ is_local_scheme
t = Target('urls.is_local_scheme', ['C12', 'C13'], 'xmlschema/utils/urls.py', 'is_local_scheme', strings=True,
           note="result <=> scheme is empty, 'file', or a single ASCII letter (a drive)")


@t.symbolic
def _(run):
    ex = run.exec(); st = new_state(); sch = z3.String('scheme'); st.env['scheme'] = VStr(sch)
    ex.names['ascii_letters'] = VStr(SV(string.ascii_letters)); run.inputs['scheme'] = sch
    pre = z3.BoolVal(True); outs = ex.run(st, pre)
    want = z3.Or(sch == SV(''), sch == SV('file'), z3.And(z3.Length(sch) == 1, z3.InRe(sch, z3.Union(z3.Range('a', 'z'), z3.Range('A', 'Z')))))
    run.post(ex, outs, pre, {'result-iff-local-scheme': lambda kind, v, s: (v.t == want) if kind == 'return' else z3.BoolVal(False)})


@t.concrete
def _(inp):
    from xmlschema.utils.urls import is_local_scheme
    s = inp['scheme']; want = s == '' or s == 'file' or (len(s) == 1 and s in string.ascii_letters)
    got = bool(is_local_scheme(s))
    return dict(ok=got == want, observed=got, required=want)


t.scope(lambda tier, rng: [dict(scheme=s) for s in ['', 'file', 'c', 'C', 'Z', 'http', 'https', 'ftp', 'urn', 'ab', 'fil', 'files', 'FILE', '1', 'é', 'cd', 'jar']])


# ------------------------------------------------------------------ is_local_url / is_remote_url : exactly one holds for URL-like strings
def mk_urlclass(fn, negate):
    t = Target(f'urls.{fn}', ['C12', 'C13'], 'xmlschema/utils/urls.py', fn, strings=True,
               note=f"for a str: {fn}(u) <=> u is URL-like (no newline, not starting with '<' after lstrip) and the scheme of strip(u) is "
                    f"{'not ' if negate else ''}local (urlsplit assumed: returns a scheme or raises ValueError)",
               assumes=['urllib.parse.urlsplit(u).scheme is an uninterpreted function of u that may raise ValueError', 'str.strip/lstrip uninterpreted'])

    @t.symbolic
    def _(run):
        ex = run.exec(); st = new_state(); u = z3.String('obj'); st.env['obj'] = VStr(u)
        strip = z3.Function('strip', S, S); lstrip = z3.Function('lstrip', S, S); scheme_of = z3.Function('scheme_of', S, S)
        split_raises = z3.Bool('urlsplit_raises'); local_scheme = z3.Function('is_local_scheme', S, B)
        ex.callees['isinstance'] = lambda e, s, r, a, k: VBool(z3.BoolVal(ast.unparse(a[1]) == 'str'))
        ex.callees['strip'] = lambda e, s, recv, a, k: VStr(strip(recv.t))
        ex.callees['lstrip'] = lambda e, s, recv, a, k: VStr(lstrip(recv.t))

        def urlsplit(e, s, r, a, k):
            e.pending_raise.append((split_raises, VExc(ValueError)))
            s.objf['split'] = {'scheme': VStr(scheme_of(lift(a[0]).t))}; return VObj('split')
        ex.callees['urlsplit'] = urlsplit
        ex.callees['is_local_scheme'] = lambda e, s, r, a, k: VBool(local_scheme(lift(a[0]).t))
        ex.names['str'] = OPAQUE; ex.names['bytes'] = OPAQUE; ex.names['Path'] = OPAQUE
        pre = z3.BoolVal(True); outs = ex.run(st, pre)
        urlish = z3.And(z3.Not(z3.Contains(u, SV('\n'))), z3.Not(z3.PrefixOf(SV('<'), lstrip(u))))
        loc = local_scheme(scheme_of(strip(u)))
        want = z3.And(urlish, z3.Not(split_raises), z3.Not(loc) if negate else loc)
        run.post(ex, outs, pre, {'class-by-scheme': lambda kind, v, s: (v.t == want) if kind == 'return' else z3.BoolVal(False)})

    @t.concrete
    def _(inp):
        import xmlschema.utils.urls as U
        from urllib.parse import urlsplit
        u = inp['obj']; urlish = '\n' not in u and not u.lstrip().startswith('<')
        try: loc = U.is_local_scheme(urlsplit(u.strip()).scheme); ok_split = True
        except ValueError: loc = False; ok_split = False
        want = urlish and ok_split and (not loc if negate else loc)
        got = getattr(U, fn)(u)
        both = U.is_local_url(u) and U.is_remote_url(u)
        return dict(ok=got == want and not both, observed=got, required=want)

    t.scope(lambda tier, rng: [dict(obj=s) for s in ['a.xsd', '/x/a.xsd', 'file:///x/a', 'http://h/a', ' https://h/a ', 'C:\\x\\a', 'c:/x', '<a/>', ' <a/>', 'a\nb',
                                                   'urn:x', 'ftp://h', '', 'jar:file:/x', 'http://[bad', '//host/share', 'HTTP://H', 'file:a']])


mk_urlclass('is_local_url', False)
mk_urlclass('is_remote_url', True)


# ------------------------------------------------------------------ is_defused truth table (C13)
t = Target('resources.is_defused', ['C13'], FR, 'XMLResource.is_defused',
           note="result <=> defuse = 'always' or (defuse = 'remote' and base URL remote) or (defuse = 'nonlocal' and base URL not local)")


@t.symbolic
def _(run):
    ex = run.exec(); st = new_state()
    d = z3.String('defuse'); remote = z3.Bool('is_remote(base_url)'); local = z3.Bool('is_local(base_url)')
    st.objf['self'] = {'_defuse': VStr(d), 'base_url': OPAQUE}; st.env['self'] = VObj('self')
    ex.callees['is_remote_url'] = lambda *a: VBool(remote); ex.callees['is_local_url'] = lambda *a: VBool(local)
    pre = z3.Or(*[d == SV(m) for m in ('always', 'remote', 'nonlocal', 'never')])
    run.inputs.update(defuse=d, remote=remote, local=local)
    outs = ex.run(st, pre)
    want = z3.Or(d == SV('always'), z3.And(d == SV('remote'), remote), z3.And(d == SV('nonlocal'), z3.Not(local)))
    run.post(ex, outs, pre, {'truth-table': lambda kind, v, s: (v.t == want) if kind == 'return' else z3.BoolVal(False)})


@t.concrete
def _(inp):
    from xmlschema import XMLResource
    r = object.__new__(XMLResource); r._defuse = inp['defuse']
    base = {(False, True): '/x/dir', (True, False): 'http://example.test/dir', (False, False): None}.get((inp['remote'], inp['local']))
    if (inp['remote'], inp['local']) == (True, True): return dict(ok=True, observed='impossible class', required=None)
    r._base_url = base; r.url = None; r._source = '<a/>' if base is None else None
    try: got = r.is_defused()
    except Exception as e: return dict(ok=False, observed=f'raised {type(e).__name__}: {e}', required='bool')
    want = inp['defuse'] == 'always' or (inp['defuse'] == 'remote' and inp['remote']) or (inp['defuse'] == 'nonlocal' and not inp['local'])
    return dict(ok=got == want, observed=got, required=want)


t.scope(lambda tier, rng: [dict(defuse=d, remote=r, local=l) for d in ('always', 'remote', 'nonlocal', 'never') for r in (True, False) for l in (True, False)])


# ------------------------------------------------------------------ XMLResourceManager.__exit__: the loaders' exceptions are never swallowed (C11)
t = Target('resources.XMLResourceManager.__exit__', ['C11', 'C13', 'C12'], 'xmlschema/resources/xml_resource.py', 'XMLResourceManager.__exit__',
           note='the context manager around both loaders returns a false value on every path - XMLResourceExceeded, XMLResourceForbidden, XMLResourceBlocked and parse errors raised inside '
                'the with block always propagate - and closes the stream it opened exactly when the resource has no seekable file object of its own',
           assumes=['fp.seekable() is an uninterpreted Boolean; close() has no result'])


@t.symbolic
def _(run):
    ex = run.exec(); st = new_state()
    fp_none = z3.Bool('resource_fp_none'); seekable = z3.Bool('resource_fp_seekable')
    st.objf['rfp'] = {}; st.objf['mfp'] = {}
    st.objf['resource'] = {'fp': VOpt(fp_none, VObj('rfp'))}
    st.objf['self'] = {'resource': VObj('resource'), 'fp': VObj('mfp')}
    st.env.update(self=VObj('self'), exc_type=OPAQUE, exc_value=OPAQUE, exc_tb=OPAQUE)
    st.ghost['closed'] = 0
    ex.callees['seekable'] = lambda e, s, r, a, k: VBool(seekable)

    def close(e, s, r, a, k):
        if isinstance(r, VObj) and r.name == 'mfp': s.ghost['closed'] += 1
        return NONE
    ex.callees['close'] = close
    pre = z3.BoolVal(True); run.inputs.update(resource_fp_none=fp_none, resource_fp_seekable=seekable)
    outs = ex.run(st, pre)

    def never_swallows(kind, v, s):
        if kind == 'fall': return z3.BoolVal(True)
        if kind != 'return': return z3.BoolVal(False)
        if isinstance(v, VNone): return z3.BoolVal(True)
        if isinstance(v, VBool): return z3.Not(v.t)
        if isinstance(v, VOpt): return v.none
        return z3.BoolVal(False)

    def closes(kind, v, s):
        if kind not in ('fall', 'return'): return z3.BoolVal(False)
        own = z3.And(z3.Not(fp_none), seekable)
        return z3.If(own, z3.BoolVal(s.ghost['closed'] == 0), z3.BoolVal(s.ghost['closed'] == 1))
    run.post(ex, outs, pre, {'returns-a-false-value-exceptions-propagate': never_swallows, 'closes-its-stream-unless-the-resource-owns-a-seekable-file': closes})


# ------------------------------------------------------------------ XMLResource.get_url: every location is canonicalised before it is judged (C12)
t = Target('resources.XMLResource.get_url', ['C12'], 'xmlschema/resources/xml_resource.py', 'XMLResource.get_url',
           note='the URL that access_control judges and open() fetches is normalize_url(mapped location, base_url) on EVERY path: the proof of access_control assumes canonical URLs '
                '(no dot segments, one spelling per file), so a path of get_url that returns a location without normalising it would void that assumption',
           assumes=['normalize_url and the URI mapper are uninterpreted; the location is a str (bytes and Path are converted to a str first: same path afterwards)'])


@t.symbolic
def _(run):
    ex = run.exec(); st = new_state()
    loc = z3.String('location'); base_none = z3.Bool('base_url_none'); base = z3.String('base_url')
    strip = z3.Function('strip', S, S); mapped = z3.Function('uri_mapper', S, S); norm = z3.Function('normalize_url', S, S, B, S); mapper_kind = z3.Int('mapper_kind')   # 0 none, 1 mapping, 2 callable
    in_map = z3.Function('in_mapping', S, B)
    st.objf['self'] = {'_uri_mapper': ('mapper',), '_base_url': VOpt(base_none, VStr(base))}
    st.env.update(self=VObj('self'), location=VStr(loc))
    ex.names.update(MutableMapping=OPAQUE, Path=OPAQUE)
    ex.callees['strip'] = lambda e, s, r, a, k: VStr(strip(r.t))

    def isinstance_(e, s, r, a, k):
        tn = ast.unparse(a[1])
        if isinstance(a[0], VStr): return VBool(z3.BoolVal(tn == 'str'))
        if tn == 'MutableMapping': return VBool(mapper_kind == 1)
        raise Unsupported('isinstance ' + tn)
    ex.callees['isinstance'] = isinstance_
    ex.callees['callable'] = lambda e, s, r, a, k: VBool(mapper_kind == 2)
    ex.callees['_uri_mapper'] = lambda e, s, r, a, k: VStr(mapped(lift(a[0]).t))
    ex.callees['normalize_url'] = lambda e, s, r, a, k: VStr(norm(lift(a[0]).t, z3.If(a[1].none, SV(''), a[1].val.t) if isinstance(a[1], VOpt) else lift(a[1]).t, a[1].none if isinstance(a[1], VOpt) else z3.BoolVal(False)))
    orig_cmp, orig_sub = ex.cmp, ex.e_Subscript

    def cmp(op, l_, r_, s):
        if isinstance(op, (ast.In, ast.NotIn)) and r_ == ('mapper',):
            res = in_map(lift(l_).t); return res if isinstance(op, ast.In) else z3.Not(res)
        return orig_cmp(op, l_, r_, s)
    ex.cmp = cmp

    def e_Subscript(e, s):
        if ast.unparse(e.value) == 'self._uri_mapper': return VStr(mapped(lift(ex.ev(e.slice, s)).t))
        return orig_sub(e, s)
    ex.e_Subscript = e_Subscript
    pre = z3.And(mapper_kind >= 0, mapper_kind <= 2)
    run.inputs.update(location=loc)
    outs = ex.run(st, pre)
    u0 = strip(loc)
    u1 = z3.If(z3.And(mapper_kind == 1, in_map(u0)), mapped(u0), z3.If(mapper_kind == 2, mapped(u0), u0))
    want = norm(u1, z3.If(base_none, SV(''), base), base_none)
    run.post(ex, outs, pre, {'result-is-the-normalised-mapped-location': lambda kind, v, s: (v.t == want) if kind == 'return' and isinstance(v, VStr) else z3.BoolVal(False)})


# ------------------------------------------------------------------ XMLResource.__init__: a sandboxed resource always has a sandbox root (C12)
t = Target('resources.XMLResource.__init__.sandbox_root', ['C12'], FR, 'XMLResource.__init__', anchor="if allow == 'sandbox'",
           note="statement contract on the first block of XMLResource.__init__: whatever the source is (a location string, a parsed tree, a file object, a stream), a resource created with "
                "allow='sandbox' either has a base URL when the block is left - the caller's, or the directory of a LOCAL source location - or the constructor raises XMLSchemaValueError; "
                "access_control() is vacuous for a resource without base URL, so this block is what makes the sandbox mode mean something",
           assumes=['is_local_url, normalize_url and os.path.dirname are uninterpreted (the first is proved in urls.is_local_url, the second is covered by the bounded spelling catalogue)',
                    'a source that is not a string is not a local URL (is_local_url answers False for trees and file objects: run-time clause of the bounded catalogue)'])


@t.symbolic
def _(run):
    ex = run.exec(); st = new_state()
    allow = z3.String('allow'); bnone = z3.Bool('base_url_none'); base = z3.String('base_url'); is_str = z3.Bool('source_is_a_string'); local = z3.Bool('is_local_url_of_source')
    st.env.update(allow=VStr(allow), base_url=VOpt(bnone, VStr(base)), source=OPAQUE)
    ex.callees['is_local_url'] = lambda e, s, r, a, k: VBool(local)
    ex.callees['normalize_url'] = lambda e, s, r, a, k: VStr(z3.String('normalized_source'))
    orig_call = ex.e_Call

    def e_Call(e, s):
        fsrc = ast.unparse(e.func)
        if fsrc.startswith('os.'):          # os.path.dirname, os.fsdecode, ...: functions of the standard library, uninterpreted
            for a in e.args: ex.ev(a, s)
            return VStr(z3.String('source_directory')) if fsrc == 'os.path.dirname' else OPAQUE
        return orig_call(e, s)
    ex.e_Call = e_Call
    ex.callees['fsdecode'] = lambda e, s, r, a, k: OPAQUE

    def isinstance_(e, s, r, a, k):
        tn = ast.unparse(a[1])
        if tn == 'str': return VBool(is_str)
        return VBool(z3.Bool('source_isinstance_' + re.sub(r'\W+', '_', tn)))
    import re
    ex.callees['isinstance'] = isinstance_
    ex.names.update(str=OPAQUE, bytes=OPAQUE, Path=OPAQUE)
    from xmlschema.exceptions import XMLSchemaValueError
    ex.callees['XMLSchemaValueError'] = lambda e, s, r, a, k: VExc(XMLSchemaValueError)
    # only a string can be a local URL
    pre = z3.Implies(local, is_str)
    run.inputs.update(allow=allow, base_url_none=bnone, source_is_a_string=is_str, is_local_url=local)
    outs = ex.run(st, pre)

    def rooted(kind, v, s):
        if kind == 'raise': return z3.BoolVal(isinstance(v, VExc) and v.cls in (XMLSchemaValueError, AssertionError))
        b = s.env['base_url']; none = b.none if isinstance(b, VOpt) else z3.BoolVal(False)
        return z3.Implies(allow == SV('sandbox'), z3.Not(none))

    def refused_only_without_root(kind, v, s):
        if kind != 'raise': return z3.BoolVal(True)
        return z3.And(allow == SV('sandbox'), bnone, z3.Not(local))

    def callers_base_kept(kind, v, s):
        if kind == 'raise': return z3.BoolVal(True)
        b = s.env['base_url']
        return z3.Implies(z3.Not(bnone), z3.And(z3.Not(b.none), b.val.t == base) if isinstance(b, VOpt) else b.t == base)
    run.post(ex, outs, pre, {'a-sandboxed-resource-leaves-the-block-with-a-base-url-or-is-refused': rooted, 'refused-only-for-a-sandbox-without-a-derivable-root': refused_only_without_root,
                             'an-explicit-base-url-is-kept': callers_base_kept})


# ------------------------------------------------------------------ XMLResource.iterfind on a lazy resource: one parser event
t = Target('resources.XMLResource.iterfind.lazy_event_step', ['C06', 'C20'], FR, 'XMLResource.iterfind', anchor="if event == 'start':",
           note='statement contract on the handling of one parser event while a path is searched in a lazy resource (L = the level of the element, counted as the loop does; '
                'P = depth of the path, D = lazy depth, P >= D >= 1): a start event opens a level and is tracked as an ancestor exactly when L < P; the END of an element at level L '
                'yields it exactly when L = P and the selector admits it, pops an ancestor exactly when L < P, and - for EVERY path depth - releases the subtree (XMLResource._clear, '
                'which also resets the XPath nodes) exactly when L = D; an element deeper than the lazy depth is tested against XPath nodes rebuilt from the subtree as it is now',
           assumes=['the selector is an uninterpreted predicate on the node; _clear and the XPath node tree are ghost counters'])


@t.symbolic
def _(run):
    ex = run.exec(); st = new_state()
    ev = z3.String('event'); level, P, D = z3.Int('level'), z3.Int('path_depth'), z3.Int('lazy_depth')
    anc_none, sel_all, selected, xp_none = z3.Bool('ancestors_none'), z3.Bool('select_all'), z3.Bool('selector_admits_node'), z3.Bool('xpath_root_none')
    for n in ('node', 'selector', 'anc', 'xproot', 'children'): st.objf[n] = {}
    st.objf['xproot'] = {'children': VObj('children')}
    st.objf['self'] = {'_xpath_root': VOpt(xp_none, VObj('xproot'))}
    st.env.update(self=VObj('self'), event=VStr(ev), node=VObj('node'), level=VInt(level), path_depth=VInt(P), lazy_depth=VInt(D), select_all=VBool(sel_all),
                  selector=VObj('selector'), ancestors=VOpt(anc_none, VObj('anc')))
    st.ghost.update(appended=0, popped=0, cleared=0, reset=0, reset_before_test=None, yielded=[])

    def append(e, s, r, a, k):
        if not (isinstance(r, VObj) and r.name == 'anc' and isinstance(a[0], VObj) and a[0].name == 'node'): raise Unsupported('append')
        s.ghost['appended'] += 1; return NONE
    def pop(e, s, r, a, k):
        if not (isinstance(r, VObj) and r.name == 'anc' and not a): raise Unsupported('pop')
        s.ghost['popped'] += 1; return NONE
    def clear(e, s, r, a, k):
        if not (isinstance(r, VObj) and r.name == 'children'): raise Unsupported('clear')
        s.ghost['reset'] += 1; return NONE
    def _clear(e, s, r, a, k):
        if not (len(a) == 2 and isinstance(a[0], VObj) and a[0].name == 'node'): raise Unsupported('_clear arguments')
        s.ghost['cleared'] += 1; return NONE
    ex.callees.update(append=append, pop=pop, clear=clear, _clear=_clear)
    ex.callees['iter_select'] = lambda e, s, r, a, k: ('selection',)
    orig_cmp = ex.cmp

    def cmp(op, l, r, s):
        if isinstance(op, ast.In) and r == ('selection',) and isinstance(l, VObj) and l.name == 'node':
            s.ghost['reset_before_test'] = s.ghost['reset']; return selected
        return orig_cmp(op, l, r, s)
    ex.cmp = cmp
    pre = z3.And(z3.Or(ev == SV('start'), ev == SV('end')), D >= 1, P >= D, level >= 0, z3.Implies(ev == SV('end'), level >= 1))
    run.inputs.update(event=ev, level=level, path_depth=P, lazy_depth=D, select_all=sel_all, selector_admits_node=selected)
    outs = ex.run(st, pre)

    def post(kind, v, s):
        if kind not in ('fall', 'continue'): return z3.BoolVal(False)
        g = s.ghost; ny = len(g['yielded']); yielded_node = ny == 1 and isinstance(g['yielded'][0], VObj) and g['yielded'][0].name == 'node'
        L = level - 1        # the level of the element that ends
        start = z3.And(z3.BoolVal(ny == 0 and g['popped'] == 0 and g['cleared'] == 0), s.env['level'].t == level + 1,
                       z3.BoolVal(g['appended'] == 1) == z3.And(z3.Not(anc_none), level < P), z3.BoolVal(g['appended'] <= 1))
        end = z3.And(s.env['level'].t == L, z3.BoolVal(g['appended'] == 0),
                     z3.BoolVal(g['popped'] == 1) == z3.And(z3.Not(anc_none), L < P), z3.BoolVal(g['popped'] <= 1),
                     z3.BoolVal(yielded_node) == z3.And(L == P, z3.Or(sel_all, selected)), z3.BoolVal(ny == 0 or yielded_node),
                     z3.BoolVal(g['cleared'] == 1) == (L == D), z3.BoolVal(g['cleared'] <= 1))
        return z3.If(ev == SV('start'), start, end)

    def fresh_nodes(kind, v, s):
        # when the selector is consulted for an element below the lazy depth and XPath nodes exist, they were reset just before
        if kind not in ('fall', 'continue') or s.ghost['reset_before_test'] is None: return z3.BoolVal(True)
        return z3.Implies(z3.And(ev == SV('end'), level - 1 > D, z3.Not(xp_none)), z3.BoolVal(s.ghost['reset_before_test'] >= 1))
    run.post(ex, outs, pre, {'one-event-tracks-yields-and-releases-by-level': post, 'deeper-elements-are-tested-against-rebuilt-xpath-nodes': fresh_nodes})


@t.concrete
def _(inp):
    import xmlschema
    n = inp['items']; doc = '<root>' + ''.join(f'<item><sub>{i}</sub><sub>{i}</sub></item>' for i in range(n)) + '</root>'
    want = [e.text for e in xmlschema.XMLResource(doc).iterfind(inp['path'])]
    got = [e.text for e in xmlschema.XMLResource(doc, lazy=inp['lazy'], thin_lazy=inp['thin']).iterfind(inp['path'])]
    return dict(ok=got == want, observed=len(got), required=len(want))


@t.scope
def _(tier, rng):
    for n in (3, 520):       # 520 items: the text spans more than one read block of the parser (16 KiB)
        for path in ('/root/item', '/root/item/sub', '/root/item/*', '/root/*/sub'):
            for lazy in (1, 2):
                for thin in (True, False):
                    if path.count('/') - 1 >= lazy: yield dict(items=n, path=path, lazy=lazy, thin=thin)


# ------------------------------------------------------------------ DefusableReader.seek: the logical position and the position of the wrapped stream stay consistent (C13)
t = Target('streams.DefusableReader.seek', ['C13'], 'xmlschema/utils/streams.py', 'DefusableReader.seek',
           note='the reader keeps the first B bytes of a non-seekable stream in a buffer and reads the rest from the stream; its representation invariant is '
                'position(stream) = max(position(reader), B). seek(pos) with whence 0 or 1 on an open reader re-establishes it for the new position: a rewind from beyond the buffer '
                'moves the stream back to B (which fails with OSError on a stream that cannot seek - never silently), a seek beyond the buffer moves the stream there, a seek within '
                'the buffer from within the buffer leaves the stream alone. Then what is parsed after the defusing pass is the byte sequence that was checked',
           assumes=['the wrapped stream is a ghost position; stream.seek(x) sets it to x or raises OSError (uninterpreted choice); the lock is a no-op'])


@t.symbolic
def _(run):
    ex = run.exec(); st = new_state()
    pos, whence, cur, B, fp0 = (z3.Int(n) for n in ('pos', 'whence', 'reader_position', 'buffer_size', 'stream_position'))
    can_seek = z3.Bool('stream_can_seek')
    st.objf['fp'] = {}; st.objf['lock'] = {}
    st.objf['self'] = {'closed': VBool(z3.BoolVal(False)), '_fp': VObj('fp'), '_fp_lock': VObj('lock'), '_pos': VInt(cur), '_buffer_size': VInt(B)}
    st.env.update(self=VObj('self'), pos=VInt(pos), whence=VInt(whence)); st.ghost.update(fp=fp0, fp_seeks=0)
    ex.callees['isinstance'] = lambda e, s, r, a, k: VBool(z3.BoolVal(True))
    ex.names['int'] = OPAQUE

    def seek(e, s, r, a, k):
        if not (isinstance(r, VObj) and r.name == 'fp' and len(a) == 1): raise Unsupported('stream.seek with whence')
        e.pending_raise.append((z3.Not(can_seek), VExc(OSError)))
        s.ghost['fp'] = lift(a[0]).t; s.ghost['fp_seeks'] += 1
        return VInt(lift(a[0]).t)
    ex.callees['seek'] = seek
    ex.callees['max'] = lambda e, s, r, a, k: VInt(z3.If(lift(a[0]).t >= lift(a[1]).t, lift(a[0]).t, lift(a[1]).t))
    mx = lambda x, y: z3.If(x >= y, x, y)
    pre = z3.And(z3.Or(whence == 0, whence == 1), z3.Implies(whence == 0, pos >= 0), cur >= 0, B >= 0, fp0 == mx(cur, B))
    run.inputs.update(pos=pos, whence=whence, reader_position=cur, buffer_size=B, stream_can_seek=can_seek)
    outs = ex.run(st, pre)
    new = z3.If(whence == 0, pos, mx(0, cur + pos))

    def post(kind, v, s):
        if kind == 'raise':     # only the stream's own refusal (a stream that can seek never makes the reader fail)
            return z3.And(z3.BoolVal(isinstance(v, VExc) and v.cls is OSError), z3.Not(can_seek))
        if kind != 'return': return z3.BoolVal(False)
        return z3.And(lift(v).t == new, s.objf['self']['_pos'].t == new, s.ghost['fp'] == mx(new, B), z3.Implies(mx(new, B) == fp0, z3.BoolVal(s.ghost['fp_seeks'] == 0) if s.ghost['fp_seeks'] == 0 else s.ghost['fp'] == fp0))
    run.post(ex, outs, pre, {'stream-position-follows-the-reader-position': post})


@t.concrete
def _(inp):
    import io
    from xmlschema.utils.streams import DefusableReader

    class NonSeek(io.BufferedIOBase):
        def __init__(self, data): self._b = io.BytesIO(data)
        def read(self, n=-1): return self._b.read(n)
        def readable(self): return True
        def seekable(self): return False
        def seek(self, *a): raise OSError('not seekable')
    data = bytes((i * 7 + i // 256) % 251 for i in range(40000)); B = inp['buffer_size']
    raw = io.BytesIO(data) if inp['stream_can_seek'] else NonSeek(data)
    try: r = DefusableReader(io.BufferedReader(raw) if inp['stream_can_seek'] else raw, B)
    except Exception as e: return dict(ok=True, observed=f'not built: {type(e).__name__}', required='n/a')
    # the real buffer is never smaller than io.DEFAULT_BUFFER_SIZE: positions keep their offset from the end of the buffer
    Be = r._buffer_size; mp = lambda x: x + (Be - B) if x > B else x
    cur = mp(inp['reader_position']); new = mp(inp['pos'] if inp['whence'] == 0 else max(0, inp['reader_position'] + inp['pos']))
    r.read(cur)
    try: r.seek(new if inp['whence'] == 0 else new - cur, inp['whence']); refused = False
    except OSError: refused = True
    if refused:
        ok = not inp['stream_can_seek']; return dict(ok=ok, observed='OSError', required='refusal only from a stream that cannot seek')
    new = r.tell(); n = max(8, Be - new + 8); got = r.read(n); want = data[new:new + n]       # (read across the end of the buffer)
    return dict(ok=got == want, observed=f'after seek the reader at {new} reads ...{got[-8:]!r}', required=f'...{want[-8:]!r}: the bytes of the stream from that position on')


@t.scope
def _(tier, rng):
    for B in (16, 64):
        for cur in (0, 8, B, B + 10, B + 100):
            for pos, whence in ((0, 0), (4, 0), (B, 0), (B + 5, 0), (B + 200, 0), (-4, 1), (4, 1), (-(B + 50), 1)):
                for can in (True, False): yield dict(pos=pos, whence=whence, reader_position=cur, buffer_size=B, stream_can_seek=can)
