"""C02 / C14 kernel: the value-checking facets of validators/facets.py.

Each facet validator raises XMLSchemaValidationError exactly when the value is outside the facet's set:
  minInclusive: v < b    minExclusive: v <= b    maxInclusive: v > b    maxExclusive: v >= b
  length: len != n       minLength: len < n      maxLength: len > n
  totalDigits: int + frac digits > n             fractionDigits: frac digits > n
and returns None otherwise.  From these the C14 facet lemma follows (and is stated as obligations of its own): if the derived bound is at
least as tight as the base bound - which is what the restriction check of the builder demands - every value the derived facet accepts
is accepted by the base facet.
Values and bounds are mathematical integers here (the order of decimals, dates and durations is the datatype's `<`, assumed total);
len() of the value and count_digits() are uninterpreted non-negative integers of the value.
"""
import ast
import z3
from pyvc.core import Target
from pyvc.se import *

F = 'xmlschema/validators/facets.py'
BOUNDS = {'XsdMinInclusiveFacet': lambda v, b: v < b, 'XsdMinExclusiveFacet': lambda v, b: v <= b, 'XsdMaxInclusiveFacet': lambda v, b: v > b, 'XsdMaxExclusiveFacet': lambda v, b: v >= b}
LENS = {'XsdLengthFacet': ('length_validator', lambda n, b: n != b), 'XsdMinLengthFacet': ('min_length_validator', lambda n, b: n < b), 'XsdMaxLengthFacet': ('max_length_validator', lambda n, b: n > b)}
PY_BOUNDS = {'XsdMinInclusiveFacet': lambda v, b: v < b, 'XsdMinExclusiveFacet': lambda v, b: v <= b, 'XsdMaxInclusiveFacet': lambda v, b: v > b, 'XsdMaxExclusiveFacet': lambda v, b: v >= b}


def setup(run, value_is_int=True):
    from xmlschema.validators.exceptions import XMLSchemaValidationError
    ex = run.exec(); st = new_state()
    b = z3.Int('facet_value'); v = z3.Int('value')
    st.objf['self'] = {'value': VInt(b)}
    st.env.update(self=VObj('self'), value=VInt(v) if value_is_int else VRef(z3.Const('value_obj', Ref)))
    ex.callees['_'] = lambda *a: OPAQUE; ex.callees['format'] = lambda *a: OPAQUE
    ex.callees['XMLSchemaValidationError'] = lambda e, s, r, a, k: VExc(XMLSchemaValidationError)
    ex.callees['invalid_type_error'] = lambda e, s, r, a, k: NONE
    ex.names['AbstractQName'] = OPAQUE
    return ex, st, b, v, XMLSchemaValidationError


def verdicts(run, ex, st, pre, rejects, XErr):
    outs = ex.run(st, pre)
    run.post(ex, outs, pre, {
        'raises-exactly-outside-the-facet-set': lambda kind, val, s: z3.BoolVal(kind == 'raise' and isinstance(val, VExc) and val.cls is XErr) == rejects if kind in ('raise', 'fall', 'return') else z3.BoolVal(False),
        'only-validation-errors': lambda kind, val, s: z3.BoolVal(kind in ('fall', 'return') or (kind == 'raise' and isinstance(val, VExc) and val.cls is XErr))})


def mk_bound(cls):
    t = Target(f'facets.{cls}.__call__', ['C02', 'C14'], F, f'{cls}.__call__', note=f'{cls}: XMLSchemaValidationError exactly when the value is outside the bound, None otherwise',
               assumes=['value and bound are integers (the total order of the datatype)', 'the TypeError branch (incomparable value) is outside the precondition'])

    @t.symbolic
    def _(run):
        ex, st, b, v, XErr = setup(run)
        run.inputs.update(value=v, facet_value=b)
        verdicts(run, ex, st, z3.BoolVal(True), BOUNDS[cls](v, b), XErr)

    @t.concrete
    def _(inp):
        import xmlschema.validators.facets as Fm
        from xmlschema.validators.exceptions import XMLSchemaValidationError
        f = object.__new__(getattr(Fm, cls)); f.value = inp['facet_value']
        try: getattr(Fm, cls).__call__(f, inp['value']); raised = False
        except XMLSchemaValidationError: raised = True
        want = PY_BOUNDS[cls](inp['value'], inp['facet_value'])
        return dict(ok=raised == want, observed=raised, required=want, failed=[] if raised == want else ['raises-exactly-outside-the-facet-set'])

    @t.scope
    def _(tier, rng):
        for b in (-2, 0, 3):
            for v in range(b - 2, b + 3): yield dict(value=v, facet_value=b)


for _c in BOUNDS: mk_bound(_c)


def mk_len(cls):
    meth, rej = LENS[cls]
    t = Target(f'facets.{cls}.{meth}', ['C02', 'C14'], F, f'{cls}.{meth}', note=f'{cls}: XMLSchemaValidationError exactly when len(value) is outside the facet, None otherwise',
               assumes=['len(value) is an uninterpreted non-negative integer of the value', 'the TypeError branch (value without a length) is outside the precondition'])

    @t.symbolic
    def _(run):
        ex, st, b, v, XErr = setup(run, value_is_int=False)
        n = z3.Int('len_value'); ex.callees['len'] = lambda e, s, r, a, k: VInt(n)
        run.inputs.update(len_value=n, facet_value=b)
        verdicts(run, ex, st, z3.And(n >= 0, b >= 0), rej(n, b), XErr)

    @t.concrete
    def _(inp):
        import xmlschema.validators.facets as Fm
        from xmlschema.validators.exceptions import XMLSchemaValidationError
        f = object.__new__(getattr(Fm, cls)); f.value = inp['facet_value']
        try: getattr(getattr(Fm, cls), meth)(f, 'x' * inp['len_value']); raised = False
        except XMLSchemaValidationError: raised = True
        want = {'XsdLengthFacet': inp['len_value'] != inp['facet_value'], 'XsdMinLengthFacet': inp['len_value'] < inp['facet_value'], 'XsdMaxLengthFacet': inp['len_value'] > inp['facet_value']}[cls]
        return dict(ok=raised == want, observed=raised, required=want, failed=[] if raised == want else ['raises-exactly-outside-the-facet-set'])

    @t.scope
    def _(tier, rng):
        for b in (0, 1, 3):
            for n in range(0, 6): yield dict(len_value=n, facet_value=b)


for _c in LENS: mk_len(_c)


def mk_digits(cls, total):
    t = Target(f'facets.{cls}.__call__', ['C02', 'C14'], F, f'{cls}.__call__',
               note=f'{cls}: returns None exactly when count_digits(value) is within the facet ({"integer + fraction digits" if total else "fraction digits"} <= value); a value whose digits cannot be '
                    'counted (ValueError / ArithmeticError of count_digits) is a validation error, never another exception',
               assumes=['count_digits is under its own bounded contract (C02.count_digits): here an uninterpreted pair of non-negative integers, or an exception'])

    @t.symbolic
    def _(run):
        ex, st, b, v, XErr = setup(run, value_is_int=False)
        a_, f_ = z3.Int('int_digits'), z3.Int('frac_digits'); fails = z3.Bool('count_digits_raises')

        def count_digits(e, s, r, a, k):
            e.pending_raise.append((fails, VExc(ValueError)))
            return VTuple([VInt(a_), VInt(f_)])
        ex.callees['count_digits'] = count_digits
        ex.callees['add'] = lambda e, s, r, a, k: VInt(a[0].t + a[1].t); ex.names['operator'] = OPAQUE
        ex.callees['str'] = lambda e, s, r, a, k: OPAQUE
        run.inputs.update(int_digits=a_, frac_digits=f_, facet_value=b, count_digits_raises=fails)
        pre = z3.And(a_ >= 0, f_ >= 0, b >= 0)
        verdicts(run, ex, st, pre, z3.Or(fails, ((a_ + f_) if total else f_) > b), XErr)


mk_digits('XsdTotalDigitsFacet', True); mk_digits('XsdFractionDigitsFacet', False)


# ---- C14 lemma over the contracts: a tighter (or equal) derived bound accepts a subset of the base facet's values
t = Target('facets.lemma_tighter_bound_is_subset', ['C14'], F, 'XsdMinInclusiveFacet', note='lemma over the facet contracts: for each of the nine facets, derived bound at least as tight as the base bound '
           '=> every value accepted by the derived facet is accepted by the base facet (min*: derived >= base; max*, maxLength, totalDigits, fractionDigits: derived <= base; length: equal; minLength: derived >= base; '
           'mixed inclusive / exclusive pairs with the strictness they need)')


@t.symbolic
def _(run):
    run.exec(); v, b, d = z3.Ints('v base derived'); run.paths = 1
    acc = {k: (lambda f: (lambda x, y: z3.Not(f(x, y))))(f) for k, f in BOUNDS.items()}
    L = [('minInclusive<=minInclusive', d >= b, acc['XsdMinInclusiveFacet'](v, d), acc['XsdMinInclusiveFacet'](v, b)),
         ('minExclusive<=minExclusive', d >= b, acc['XsdMinExclusiveFacet'](v, d), acc['XsdMinExclusiveFacet'](v, b)),
         ('minExclusive<=minInclusive', d >= b, acc['XsdMinExclusiveFacet'](v, d), acc['XsdMinInclusiveFacet'](v, b)),
         ('minInclusive<=minExclusive', d > b, acc['XsdMinInclusiveFacet'](v, d), acc['XsdMinExclusiveFacet'](v, b)),
         ('maxInclusive<=maxInclusive', d <= b, acc['XsdMaxInclusiveFacet'](v, d), acc['XsdMaxInclusiveFacet'](v, b)),
         ('maxExclusive<=maxExclusive', d <= b, acc['XsdMaxExclusiveFacet'](v, d), acc['XsdMaxExclusiveFacet'](v, b)),
         ('maxExclusive<=maxInclusive', d <= b, acc['XsdMaxExclusiveFacet'](v, d), acc['XsdMaxInclusiveFacet'](v, b)),
         ('maxInclusive<=maxExclusive', d < b, acc['XsdMaxInclusiveFacet'](v, d), acc['XsdMaxExclusiveFacet'](v, b)),
         ('length', d == b, v == d, v == b), ('minLength', d >= b, v >= d, v >= b), ('maxLength', d <= b, v <= d, v <= b), ('digits', d <= b, v <= d, v <= b)]
    for name, cond, der, base in L:
        run.vc('tighter-' + name, z3.BoolVal(True), [cond, der], base, name)
