"""Contracts on xmlschema/validators/wildcards.py against the set reading of namespace constraints
(C16; C14 for is_restriction; leaf contracts used by C03/C15)."""
import functools, itertools
from copy import copy
import z3
from pyvc.core import Target
from pyvc.se import *
from specs import wildcard as spec

F = 'xmlschema/validators/wildcards.py'
ANY, OTHER, E = SV('##any'), SV('##other'), SV('')
XSI = SV(spec.XSI)
FRESH = z3.String('FRESH'); FRESHQ = z3.String('FRESHQ')
ns_of = z3.Function('ns_of', S, S)
SB = z3.ArraySort(S, B)
x = z3.String('x'); qn = z3.String('qn')
Q1, Q2, U1, U2 = z3.String('q1'), z3.String('q2'), z3.String('u1'), z3.String('u2')
FIELDS = ('namespace', 'not_namespace', 'not_qname')


def mk(st, name):
    f = {}
    for fld in FIELDS:
        f[fld] = VSet(st.alloc(kind='set', arr=z3.Const(f'{name}_{fld}', SB)))
    f.update(target_namespace=VStr(z3.String(name + '_tns')), process_contents=VStr(z3.String(name + '_pc')),
             xsd_version=VStr(z3.String('ver')))
    st.objf[name] = f
    return VObj(name)


def arr(st, name, fld): return st.heap[st.objf[name][fld].cell]['arr']


def nonempty(a):
    q = z3.FreshConst(S, 'q'); return z3.Exists([q], a[q])


def den(ns, nn, t, xx):
    return z3.If(nonempty(nn), z3.Not(nn[xx]), z3.If(ns[ANY], True, z3.If(ns[OTHER], z3.And(xx != E, xx != t), ns[xx])))


def denN(ns, nn, nq, t, q): return z3.And(den(ns, nn, t, ns_of(q)), z3.Not(nq[q]))


def wfw(ns, nn, nq, t):
    q = z3.FreshConst(S, 'q')
    return z3.And(
        z3.Implies(ns[ANY], z3.ForAll([q], z3.Implies(ns[q], q == ANY))),
        z3.Implies(ns[OTHER], z3.ForAll([q], z3.Implies(ns[q], q == OTHER))),
        z3.Implies(nonempty(nn), z3.Not(nonempty(ns))), z3.Not(nn[ANY]), z3.Not(nn[OTHER]), z3.Not(nn[XSI]), z3.Not(ns[XSI]),
        t != ANY, t != OTHER, t != XSI,
        # A-FRESH: a namespace and a name that occur in no pre-state set
        z3.Not(ns[FRESH]), z3.Not(nn[FRESH]), FRESH != t, FRESH != E, FRESH != ANY, FRESH != OTHER, FRESH != XSI,
        z3.ForAll([q], z3.Implies(nq[q], z3.And(z3.Not(z3.PrefixOf(SV('##'), q)), ns_of(q) != ANY, ns_of(q) != OTHER, ns_of(q) != XSI))),
        z3.Not(nq[FRESHQ]), ns_of(FRESHQ) == FRESH)


univ = z3.And(x != XSI, x != ANY, x != OTHER, ns_of(qn) != XSI, ns_of(qn) != ANY, ns_of(qn) != OTHER,
              z3.Not(z3.PrefixOf(SV('##'), qn)))


def setup(run, ver='1.1', same=True, qual=None):
    ex = run.exec(qual=qual); st = new_state(); w, o = mk(st, 'self'), mk(st, 'other')
    st.env.update(self=w, other=o, check_occurs=VBool(z3.Bool('check_occurs')))
    A0 = {(n, f): arr(st, n, f) for n in ('self', 'other') for f in FIELDS}
    tw, to = st.objf['self']['target_namespace'].t, st.objf['other']['target_namespace'].t
    D = lambda s, n, xx: den(arr(s, n, 'namespace'), arr(s, n, 'not_namespace'), s.objf[n]['target_namespace'].t, xx)
    unopt = lambda a: (a.val if isinstance(a, VOpt) else lift(a)).t
    # callee contracts (each discharged as its own target below)
    ex.callees['is_namespace_allowed'] = lambda e, s, recv, a, k: VBool(D(s, recv.name, unopt(a[0])))
    ex.callees['get_namespace'] = lambda e, s, recv, a, k: VStr(ns_of(unopt(a[0])))
    ex.callees['_has_occurs_restriction'] = lambda e, s, recv, a, k: VBool(z3.Bool('occ_ok'))

    def deny_qnames(e, s, recv, a, k):
        # callee contract exactly as discharged for wildcards.deny_qnames (soundness direction only):
        # True => none of the listed names is admitted by the receiver
        kind, g = a[0]; src = e.ev(g.generators[0].iter, s); q = z3.FreshConst(S, 'dq')
        none_admitted = z3.ForAll([q], z3.Implies(
            z3.And(s.heap[src.cell]['arr'][q], z3.Not(z3.PrefixOf(SV('##'), q))),
            z3.Not(denN(arr(s, recv.name, 'namespace'), arr(s, recv.name, 'not_namespace'), arr(s, recv.name, 'not_qname'),
                        s.objf[recv.name]['target_namespace'].t, q))))
        b = z3.FreshConst(B, 'deny_qnames')
        s.pc.append(z3.Implies(b, none_admitted))
        return VBool(b)
    ex.callees['deny_qnames'] = deny_qnames
    ex.callees['isinstance'] = lambda e, s, r, a, k: VBool(z3.BoolVal(True))
    ex.inline_use('_get_comparable', 'XsdWildcard._get_comparable')
    pre = z3.And(wfw(A0['self', 'namespace'], A0['self', 'not_namespace'], A0['self', 'not_qname'], tw),
                 wfw(A0['other', 'namespace'], A0['other', 'not_namespace'], A0['other', 'not_qname'], to),
                 univ, st.objf['self']['xsd_version'].t == SV(ver))
    if ver == '1.0':   # XSD 1.0 wildcards carry neither notNamespace nor notQName
        for n in ('self', 'other'):
            pre = z3.And(pre, z3.Not(nonempty(A0[n, 'not_namespace'])), z3.Not(nonempty(A0[n, 'not_qname'])))
    pre = z3.And(pre, tw == to) if same else z3.And(pre, tw != to)
    nscands = [E, tw, to, x, ns_of(qn), ns_of(Q1), ns_of(Q2), FRESH, U1, U2, ANY, OTHER]
    qcands = [qn, Q1, Q2, FRESHQ]
    for n in ('self', 'other'):
        run.inputs[f'{n}.namespace'] = ('set', A0[n, 'namespace'], nscands)
        run.inputs[f'{n}.not_namespace'] = ('set', A0[n, 'not_namespace'], nscands)
        run.inputs[f'{n}.not_qname'] = ('set', A0[n, 'not_qname'], qcands)
        run.inputs[f'{n}.pc'] = st.objf[n]['process_contents'].t
    run.inputs.update({'self.tns': tw, 'other.tns': to, 'x': x, 'qn': qn, 'ns_of': ('map', ns_of, qcands), 'ver': SV(ver)})
    return ex, st, pre, A0, tw, to


# ------------------------------------------------------------------ concrete side
@functools.lru_cache(None)
def _template(ver, kind):
    import xmlschema
    cls = xmlschema.XMLSchema11 if ver == '1.1' else xmlschema.XMLSchema10
    s = cls('<xs:schema xmlns:xs="http://www.w3.org/2001/XMLSchema" targetNamespace="urn:tpl"><xs:complexType name="T"><xs:sequence>'
            '<xs:any/></xs:sequence><xs:anyAttribute/></xs:complexType></xs:schema>')
    t = s.types['T']
    return t.attributes[None] if kind == 'attr' else t.content[0]


def real_wc(ver, kind, w, pc='strict'):
    o = copy(_template(ver, kind))
    o.namespace = set(w['namespace']); o.not_namespace = set(w['not_namespace']) if w['not_namespace'] else ()
    o.not_qname = set(w['not_qname']) if w['not_qname'] else ()
    o.target_namespace = w['tns']; o.process_contents = pc
    return o


def rename(inp):
    """abstract names of the model -> real expanded names consistent with ns_of"""
    m = {}
    for i, (q, ns) in enumerate(sorted(inp.get('ns_of', {}).items())):
        m[q] = ('{%s}n%d' % (ns, i)) if ns else 'n%d' % i
    return m


def wpair(inp):
    m = rename(inp)
    def w(n):
        return dict(namespace=set(inp[f'{n}.namespace']), not_namespace=set(inp[f'{n}.not_namespace']),
                    not_qname={m.get(q, q) for q in inp[f'{n}.not_qname']}, tns=inp[f'{n}.tns'])
    return w('self'), w('other'), m


def state_of(o, tns):
    return dict(namespace=set(o.namespace), not_namespace=set(o.not_namespace or ()), not_qname=set(o.not_qname or ()), tns=tns)


def raw(method):
    return getattr(method, '__wrapped__', method)


POOL = ['', 'T', 'urn:a', 'urn:b']


def forms(ver, tns='T'):
    out = [dict(namespace={'##any'}, not_namespace=set()), dict(namespace={'##other'}, not_namespace=set())]
    pool = ['', tns, 'urn:a', 'urn:b']
    for r in range(0, 5):
        for c in itertools.combinations(pool, r): out.append(dict(namespace=set(c), not_namespace=set()))
    if ver == '1.1':
        for r in range(1, 4):
            for c in itertools.combinations(['', tns, 'urn:a'], r): out.append(dict(namespace=set(), not_namespace=set(c)))
    return out


def pair_scope(tier, rng, same=True, names=True):
    for ver in ('1.0', '1.1'):
        t2 = 'T' if same else 'T2'
        nq_opts = [[]] if ver == '1.0' or not names else [[], ['{urn:a}n'], ['{urn:a}n', 'm']]
        for a in forms(ver, 'T'):
            for b in forms(ver, t2):
                for na in nq_opts:
                    for nb in nq_opts:
                        wa = dict(a, not_qname=set(na), tns='T'); wb = dict(b, not_qname=set(nb), tns=t2)
                        # notQName names must lie in namespaces the wildcard admits (enforced by _parse_not_constraints)
                        if not all(spec.denote_ns(wa, spec.ns_of(q)) for q in na): continue
                        if not all(spec.denote_ns(wb, spec.ns_of(q)) for q in nb): continue
                        if tier != 'thorough' and (na or nb) and rng.random() > 0.25: continue
                        yield {'self.namespace': sorted(a['namespace']), 'self.not_namespace': sorted(a['not_namespace']), 'self.not_qname': na,
                               'other.namespace': sorted(b['namespace']), 'other.not_namespace': sorted(b['not_namespace']), 'other.not_qname': nb,
                               'self.tns': 'T', 'other.tns': t2, 'ver': ver, 'self.pc': 'strict', 'other.pc': 'strict', 'ns_of': {}}


# ------------------------------------------------------------------ is_namespace_allowed
t = Target('wildcards.is_namespace_allowed', ['C16', 'C03'], F, 'XsdWildcard.is_namespace_allowed',
           note='result <=> namespace in the denoted set, for every namespace other than XSI (which the code admits unconditionally: outside the universe of C16)')


@t.symbolic
def _(run):
    ex, st, pre, A0, tw, to = setup(run)
    st.env['namespace'] = VStr(x)
    ex.names[('nm', 'XSI_NAMESPACE')] = VStr(XSI)
    outs = ex.run(st, pre)
    run.post(ex, outs, pre, {'result-iff-denoted': lambda kind, v, s: (v.t == den(A0['self', 'namespace'], A0['self', 'not_namespace'], tw, x)) if kind == 'return' else z3.BoolVal(False)})


@t.concrete
def _(inp):
    w, _, m = wpair(inp)
    if not spec.wf(w): return dict(ok=True, observed='outside precondition', required=None)
    o = real_wc(inp['ver'], 'attr', w)
    nss, _ = spec.universe([w], [inp['x']] if inp.get('x') not in (None, spec.XSI, '##any', '##other') else [])
    bad = [ns for ns in nss if o.is_namespace_allowed(ns) != spec.denote_ns(w, ns)]
    return dict(ok=not bad, observed=f'disagrees on {bad}', required='is_namespace_allowed(ns) == denote(ns) on the universe')


@t.scope
def _(tier, rng):
    for ver in ('1.0', '1.1'):
        for a in forms(ver):
            yield {'self.namespace': sorted(a['namespace']), 'self.not_namespace': sorted(a['not_namespace']), 'self.not_qname': [],
                   'other.namespace': [], 'other.not_namespace': [], 'other.not_qname': [], 'self.tns': 'T', 'other.tns': 'T', 'ver': ver, 'x': 'urn:a', 'ns_of': {}}


# ------------------------------------------------------------------ is_matching (name -> namespace dispatch)
t = Target('wildcards.is_matching', ['C16', 'C01', 'C03'], F, 'XsdWildcard.is_matching',
           note='None never matches; an expanded or empty name is judged by its namespace, a local name by the default namespace or the absent one')


@t.symbolic
def _(run):
    ex, st, pre, A0, tw, to = setup(run)
    name = z3.String('name'); dns = z3.String('dns')
    st.env.update(name=VOpt(z3.Bool('name_none'), VStr(name)), default_namespace=VOpt(z3.Bool('dns_none'), VStr(dns)))
    Dself = lambda xx: den(A0['self', 'namespace'], A0['self', 'not_namespace'], tw, xx)
    pre2 = z3.And(pre, ns_of(name) != XSI, dns != XSI, ns_of(name) != ANY, ns_of(name) != OTHER, dns != ANY, dns != OTHER)
    outs = ex.run(st, pre2)
    want = z3.If(z3.Bool('name_none'), False,
                 z3.If(z3.Or(name == E, z3.PrefixOf(SV('{'), name)), Dself(ns_of(name)),
                       z3.If(z3.Or(z3.Bool('dns_none'), dns == E), Dself(E), Dself(dns))))
    run.post(ex, outs, pre2, {'result-iff-spec': lambda kind, v, s: (v.t == want) if kind == 'return' else z3.BoolVal(False)})


@t.concrete
def _(inp):
    w, _, m = wpair(inp)
    if not spec.wf(w): return dict(ok=True, observed='outside precondition', required=None)
    o = real_wc(inp['ver'], 'attr', w); bad = []
    nss, names = spec.universe([w])
    for name in [None, ''] + names + ['loc']:
        for dns in (None, '', 'urn:a', 'T'):
            if name is None: want = False
            elif name == '' or name[0] == '{': want = spec.denote_ns(w, spec.ns_of(name))
            else: want = spec.denote_ns(w, dns or '')
            got = raw(type(o).__mro__[[c.__name__ for c in type(o).__mro__].index('XsdWildcard')].is_matching)(o, name, dns)
            if got != want: bad.append((name, dns, got, want))
    return dict(ok=not bad, observed=bad[:3], required='is_matching == denote on the universe')


t.scope(lambda tier, rng: REG_scope_single())


def REG_scope_single():
    for ver in ('1.0', '1.1'):
        for a in forms(ver):
            yield {'self.namespace': sorted(a['namespace']), 'self.not_namespace': sorted(a['not_namespace']), 'self.not_qname': [],
                   'other.namespace': [], 'other.not_namespace': [], 'other.not_qname': [], 'self.tns': 'T', 'other.tns': 'T', 'ver': ver, 'ns_of': {}}


# ------------------------------------------------------------------ deny_namespaces / deny_qnames
t = Target('wildcards.deny_qnames', ['C16', 'C14'], F, 'XsdWildcard.deny_qnames',
           note='True => no listed name is admitted (namespace constraint and notQName together): the contract is_restriction relies on; the converse holds except for no-namespace names under ##other')


@t.symbolic
def _(run):
    ex, st, pre, A0, tw, to = setup(run)
    names = z3.Const('names', SB)
    st.env['names'] = VSet(st.alloc(kind='set', arr=names))
    q = z3.FreshConst(S, 'nq')
    pre2 = z3.And(pre, z3.ForAll([q], z3.Implies(names[q], z3.And(ns_of(q) != XSI, ns_of(q) != ANY, ns_of(q) != OTHER))))
    outs = ex.run(st, pre2)
    want = z3.ForAll([q], z3.Implies(names[q], z3.Not(denN(A0['self', 'namespace'], A0['self', 'not_namespace'], A0['self', 'not_qname'], tw, q))))
    no_absent = z3.ForAll([q], z3.Implies(names[q], ns_of(q) != E))
    run.post(ex, outs, pre2, {
        'true-implies-none-admitted': lambda kind, v, s: z3.Implies(v.t, want) if kind == 'return' else z3.BoolVal(False),
        # completeness except for names in no namespace under ##other (the code does not treat them as denied: conservative)
        'none-admitted-implies-true': lambda kind, v, s: z3.Implies(z3.And(want, no_absent), v.t) if kind == 'return' else z3.BoolVal(False)})


# ------------------------------------------------------------------ is_restriction
PC_RANK = {'strict': 2, 'lax': 1, 'skip': 0}


def mk_restriction(same):
    tid = 'wildcards.is_restriction' + ('' if same else '.cross_tns')
    t = Target(tid, ['C16', 'C14'], F, 'XsdWildcard.is_restriction',
               note=('True => denote(self) subset of denote(other) at namespace and name level, processContents not weakened; '
                     + ('both wildcards in one target namespace (the universe of C16)' if same else
                        'wildcards of two different target namespaces (reachable through imports)')))

    @t.symbolic
    def _(run):
        ex, st, pre, A0, tw, to = setup(run, same=same)
        spc, opc = st.objf['self']['process_contents'].t, st.objf['other']['process_contents'].t
        valid_pc = lambda p: z3.Or(p == SV('strict'), p == SV('lax'), p == SV('skip'))
        rank = lambda p: z3.If(p == SV('strict'), 2, z3.If(p == SV('lax'), 1, 0))
        pre = z3.And(pre, valid_pc(spc), valid_pc(opc))
        outs = ex.run(st, pre)
        Dn = lambda n, xx: den(A0[n, 'namespace'], A0[n, 'not_namespace'], tw if n == 'self' else to, xx)
        DN = lambda n, q: denN(A0[n, 'namespace'], A0[n, 'not_namespace'], A0[n, 'not_qname'], tw if n == 'self' else to, q)
        ret = lambda f: (lambda kind, v, s: f(v) if kind == 'return' else z3.BoolVal(False))
        run.post(ex, outs, pre, {
            'true-implies-namespace-subset': ret(lambda v: z3.Implies(v.t, z3.Implies(Dn('self', x), Dn('other', x)))),
            'true-implies-name-subset': ret(lambda v: z3.Implies(v.t, z3.Implies(DN('self', qn), DN('other', qn)))),
            'true-implies-process-contents-not-weaker': ret(lambda v: z3.Implies(v.t, rank(spc) >= rank(opc))),
            'true-implies-occurs-checked': ret(lambda v: z3.Implies(z3.And(v.t, z3.Bool('check_occurs')), z3.Bool('occ_ok'))),
        })

    @t.concrete
    def _(inp):
        a, b, m = wpair(inp)
        if not (spec.wf(a) and spec.wf(b)): return dict(ok=True, observed='outside precondition', required=None)
        A, Bw = real_wc(inp['ver'], 'attr', a, inp.get('self.pc', 'strict')), real_wc(inp['ver'], 'attr', b, inp.get('other.pc', 'strict'))
        got = raw(type(A).is_restriction)(A, Bw)
        nss, names = spec.universe([a, b], [m.get(inp['x'], inp['x'])] if inp.get('x') else [])
        failed = []
        if got:
            if [ns for ns in nss if ns != spec.XSI and spec.denote_ns(a, ns) and not spec.denote_ns(b, ns)]: failed.append('true-implies-namespace-subset')
            if [q for q in names if spec.denote_name(a, q) and not spec.denote_name(b, q)]: failed.append('true-implies-name-subset')
            if PC_RANK[A.process_contents] < PC_RANK[Bw.process_contents]: failed.append('true-implies-process-contents-not-weaker')
        return dict(ok=not failed, observed=f'is_restriction={got}', required='True only if the denoted sets are included', failed=failed)

    @t.scope
    def _(tier, rng):
        for inp in pair_scope(tier, rng, same=same):
            for spc, opc in (('strict', 'strict'), ('lax', 'strict'), ('skip', 'lax')):
                if (spc, opc) != ('strict', 'strict') and rng.random() > 0.1: continue
                yield dict(inp, **{'self.pc': spc, 'other.pc': opc})
    return t


mk_restriction(True)
mk_restriction(False)


# ------------------------------------------------------------------ union / intersection
def mk_combine(fn, ver, same):
    comb = z3.Or if fn == 'union' else z3.And
    tid = f'wildcards.{fn}.v{ver.replace(".", "")}' + ('' if same else '.cross_tns')
    t = Target(tid, ['C16'], F, f'XsdWildcard.{fn}',
               note=f'XSD {ver}: denote(final(self)) = denote(old(self)) {"u" if fn == "union" else "n"} denote(other) at namespace and name level; '
                    'final(self) well-formed; other unchanged' + ('' if same else ' -- different target namespaces'))

    @t.symbolic
    def _(run):
        ex, st, pre, A0, tw, to = setup(run, ver=ver, same=same)
        ex.callees['copy'] = None
        del ex.callees['copy']
        outs = ex.run(st, pre)
        Dn = lambda n, xx: den(A0[n, 'namespace'], A0[n, 'not_namespace'], tw if n == 'self' else to, xx)
        DN = lambda n, q: denN(A0[n, 'namespace'], A0[n, 'not_namespace'], A0[n, 'not_qname'], tw if n == 'self' else to, q)

        def c_ns(kind, v, s):
            if kind == 'raise': return None
            Fz = lambda f: arr(s, 'self', f)
            return den(Fz('namespace'), Fz('not_namespace'), tw, x) == comb(Dn('self', x), Dn('other', x))

        def c_nm(kind, v, s):
            if kind == 'raise': return None
            Fz = lambda f: arr(s, 'self', f)
            return denN(Fz('namespace'), Fz('not_namespace'), Fz('not_qname'), tw, qn) == comb(DN('self', qn), DN('other', qn))

        def c_wf(kind, v, s):
            if kind == 'raise': return None
            ns, nn = arr(s, 'self', 'namespace'), arr(s, 'self', 'not_namespace'); q = z3.FreshConst(S, 'q')
            return z3.And(z3.Implies(ns[ANY], z3.ForAll([q], z3.Implies(ns[q], q == ANY))),
                          z3.Implies(ns[OTHER], z3.ForAll([q], z3.Implies(ns[q], q == OTHER))),
                          z3.Implies(nonempty(nn), z3.Not(nonempty(ns))), z3.Not(nn[ANY]), z3.Not(nn[OTHER]))

        def c_frame(kind, v, s):
            if kind == 'raise': return None
            q = z3.FreshConst(S, 'fq')       # pointwise: array equality of lambda terms leaves the solvers undecided
            return z3.And(*[z3.ForAll([q], arr(s, 'other', f)[q] == A0['other', f][q]) for f in FIELDS])

        def c_raise(kind, v, s):
            if kind != 'raise': return None
            if fn != 'union' or ver != '1.0': return z3.BoolVal(False)
            import xmlschema.exceptions as xe
            if not (isinstance(v, VExc) and v.cls is not None and issubclass(v.cls, xe.XMLSchemaValueError)): return z3.BoolVal(False)
            # Structures 1.0 3.10.6 case 5.3: one side is ##other (negation of its target namespace), the other a set
            # that contains the absent namespace but not that target namespace: not expressible
            o_self = A0['self', 'namespace'][OTHER]; o_oth = A0['other', 'namespace'][OTHER]
            c53 = lambda tn, setarr: z3.And(setarr[E], z3.Not(setarr[tn]))
            return z3.Or(z3.And(o_self, z3.Not(o_oth), c53(tw, A0['other', 'namespace'])),
                         z3.And(o_oth, z3.Not(o_self), c53(to, A0['self', 'namespace'])))
        run.post(ex, outs, pre, {'namespace-level-set-equation': c_ns, 'name-level-set-equation': c_nm,
                                 'result-well-formed': c_wf, 'frame-other-unchanged': c_frame, 'raises-only-when-not-expressible': c_raise})

    @t.concrete
    def _(inp):
        a, b, m = wpair(inp)
        if not (spec.wf(a) and spec.wf(b)): return dict(ok=True, observed='outside precondition', required=None)
        if inp['ver'] == '1.0' and (a['not_namespace'] or b['not_namespace'] or a['not_qname'] or b['not_qname']):
            return dict(ok=True, observed='outside precondition (1.0)', required=None)
        A, Bw = real_wc(inp['ver'], 'attr', a), real_wc(inp['ver'], 'attr', b)
        op = (lambda p, q: p or q) if fn == 'union' else (lambda p, q: p and q)
        try:
            getattr(A, fn)(Bw)
        except Exception as e:
            import xmlschema.exceptions as xe
            c53 = ('##other' in a['namespace'] and '##other' not in b['namespace'] and '' in b['namespace'] and a['tns'] not in b['namespace']) or \
                  ('##other' in b['namespace'] and '##other' not in a['namespace'] and '' in a['namespace'] and b['tns'] not in a['namespace'])
            ok = isinstance(e, xe.XMLSchemaValueError) and fn == 'union' and inp['ver'] == '1.0' and c53
            return dict(ok=ok, observed=f'raised {type(e).__name__}: {e}', required='raises only for the not-expressible case 5.3 of XSD 1.0',
                        failed=['raises-only-when-not-expressible'])
        r = state_of(A, a['tns']); failed = []
        nss, names = spec.universe([a, b, r])
        bad_ns = [ns for ns in nss if ns != spec.XSI and spec.denote_ns(r, ns) != op(spec.denote_ns(a, ns), spec.denote_ns(b, ns))]
        bad_nm = [q for q in names if spec.ns_of(q) != spec.XSI and spec.denote_name(r, q) != op(spec.denote_name(a, q), spec.denote_name(b, q))]
        if bad_ns: failed.append('namespace-level-set-equation')
        if bad_nm: failed.append('name-level-set-equation')
        if state_of(Bw, b['tns']) != b: failed.append('frame-other-unchanged')
        if not spec.wf(dict(r, not_qname=set())): failed.append('result-well-formed')
        return dict(ok=not failed, observed=dict(result={k: sorted(v) if isinstance(v, set) else v for k, v in r.items()}, bad_ns=bad_ns, bad_names=bad_nm),
                    required=f'denote(result) = denote(self) {fn} denote(other) on {nss}', failed=failed)

    @t.scope
    def _(tier, rng):
        for inp in pair_scope(tier, rng, same=same):
            if inp['ver'] == ver: yield inp
    return t


for _fn in ('union', 'intersection'):
    for _ver in ('1.0', '1.1'):
        for _same in (True, False):
            mk_combine(_fn, _ver, _same)


# ------------------------------------------------------------------ XsdAnyElement.is_overlap
def mk_overlap(same):
    t = Target('wildcards.is_overlap' + ('' if same else '.cross_tns'), ['C16', 'C15'], F, 'XsdAnyElement.is_overlap',
               note='for two element wildcards: result <=> the denoted namespace sets intersect (A-FRESH supplies the witness for two co-finite sets)')

    @t.symbolic
    def _(run):
        ex, st, pre, A0, tw, to = setup(run, same=same)
        ex.callees['isinstance'] = lambda e, s, r, a, k: VBool(z3.BoolVal(ast.unparse(a[1]) == 'XsdAnyElement'))
        ex.names['XsdAnyElement'] = VStr(SV('XsdAnyElement')); ex.names['elements'] = OPAQUE
        outs = ex.run(st, pre)
        y = z3.String('y')
        both = lambda yy: z3.And(yy != XSI, yy != ANY, yy != OTHER, den(A0['self', 'namespace'], A0['self', 'not_namespace'], tw, yy),
                                 den(A0['other', 'namespace'], A0['other', 'not_namespace'], to, yy))
        run.post(ex, outs, pre, {
            'true-implies-sets-intersect': lambda kind, v, s: z3.Implies(v.t, z3.Exists([y], both(y))) if kind == 'return' else z3.BoolVal(False),
            'sets-intersect-implies-true': lambda kind, v, s: z3.Implies(both(x), v.t) if kind == 'return' else z3.BoolVal(False)})

    @t.concrete
    def _(inp):
        a, b, m = wpair(inp)
        if not (spec.wf(a) and spec.wf(b)): return dict(ok=True, observed='outside precondition', required=None)
        A, Bw = real_wc(inp['ver'], 'elem', a), real_wc(inp['ver'], 'elem', b)
        got = raw(type(A).is_overlap)(A, Bw)
        nss, _ = spec.universe([a, b])
        want = any(spec.denote_ns(a, ns) and spec.denote_ns(b, ns) for ns in nss if ns != spec.XSI)
        return dict(ok=got == want, observed=got, required=want, failed=['true-implies-sets-intersect' if got else 'sets-intersect-implies-true'])

    t.scope(lambda tier, rng: pair_scope(tier, rng, same=same, names=False))
    return t


mk_overlap(True)
mk_overlap(False)


# ------------------------------------------------------------------ XsdWildcard.__copy__: the copy owns its sets (every in-place operation above relies on it)
t = Target('wildcards.XsdWildcard.__copy__', ['C16', 'C03', 'C14', 'C09'], F, 'XsdWildcard.__copy__', bounded_only=True,
           note='run-time contract on the real method: a copied wildcard has equal but DISTINCT namespace / notNamespace / notQName sets and errors list, the same processContents and the same '
                'schema objects; union() and intersection() work in place on a copy (attribute groups, extensions), so a shared set would change the wildcard of the referenced group',
           assumes=['the slot loop over _mro_slots() (setattr by computed name) is outside the executor subset: bounded stand-in over element and attribute wildcards of both classes'])


@t.concrete
def _(inp):
    w = real_wc(inp['ver'], inp['kind'], dict(namespace=inp['namespace'], not_namespace=inp['not_namespace'], not_qname=inp['not_qname'], tns='urn:tpl'), inp['pc'])
    c = copy(w); problems = []
    for fld in ('namespace', 'not_namespace', 'not_qname', 'errors'):
        a, b = getattr(w, fld), getattr(c, fld)
        if a != b and not (not a and not b): problems.append(f'{fld} differs in the copy')
        if isinstance(a, (set, list)) and a is b: problems.append(f'{fld} is shared with the original')
    if c.process_contents != w.process_contents or c.schema is not w.schema or c.target_namespace != w.target_namespace: problems.append('a configuration attribute differs')
    before = state_of(w, 'urn:tpl')
    c.namespace.add('urn:zz'); c.namespace.discard('##any')
    if isinstance(c.not_namespace, set): c.not_namespace.add('urn:zz')
    if state_of(w, 'urn:tpl') != before: problems.append('changing the sets of the copy changes the original')
    return dict(ok=not problems, observed=problems or 'ok', required='equal and distinct sets')


@t.scope
def _(tier, rng):
    for ver in ('1.0', '1.1'):
        for kind in ('elem', 'attr'):
            for ns, nn, nq in ((['##any'], [], []), (['##other'], [], []), (['urn:a', ''], [], []), ([], ['urn:a'], []), (['##any'], [], ['{urn:a}x']), ([], [], [])):
                if ver == '1.0' and (nn or nq): continue
                for pc in ('strict', 'lax'): yield dict(ver=ver, kind=kind, namespace=ns, not_namespace=nn, not_qname=nq, pc=pc)


# ------------------------------------------------------------------ Xsd11AnyElement.is_matching: the XSD 1.1 element wildcard's own name test (C16, C01)
t = Target('wildcards.Xsd11AnyElement.is_matching', ['C16', 'C01'], F, 'Xsd11AnyElement.is_matching',
           note='the override used by XSD 1.1 content models: whatever precedences, ##defined / ##definedSibling exclusions and notQName say, a name is matched ONLY IF its namespace - the '
                'namespace of an expanded or empty name, the default namespace of a local name, else the absent namespace - is admitted by the constraint; and when none of the exclusions applies '
                '(no precedence registered for the group, no ##defined keyword, no group given, the name not listed) it is matched EXACTLY then',
           assumes=['is_namespace_allowed as proved (callee contract); the precedence table, the global element map and the group are uninterpreted'])


@t.symbolic
def _(run):
    ex, st, pre, A0, tw, to = setup(run, qual='Xsd11AnyElement.is_matching')
    name = z3.String('name'); dns = z3.String('dns')
    has_prec, group_none, is_global = z3.Bool('group_has_precedences'), z3.Bool('group_is_None'), z3.Bool('name_is_a_global_element')
    prec_hit, sib_hit = z3.Bool('a_preceding_element_takes_the_name'), z3.Bool('a_sibling_declares_the_name')
    st.env.update(name=VStr(name), default_namespace=VOpt(z3.Bool('dns_none'), VStr(dns)), group=VOpt(group_none, VObj('group')), occurs=VOpt(z3.Bool('occurs_none'), VObj('occurs')))       # name is not None (None: False at once)
    st.objf['group'] = {}; st.objf['occurs'] = {}
    orig_compare, orig_call = ex.e_Compare, ex.e_Call

    def e_Compare(e, s):
        src = ast.unparse(e)
        if src == 'group in self.precedences': return VBool(z3.And(z3.Not(group_none), has_prec))
        if src == 'name in self.maps.elements': return VBool(is_global)
        return orig_compare(e, s)
    ex.e_Compare = e_Compare

    def e_Call(e, s):
        if isinstance(e.func, ast.Name) and e.func.id == 'any' and e.args and isinstance(e.args[0], ast.GeneratorExp):
            it = ast.unparse(e.args[0].generators[0].iter)
            if it == 'self.precedences[group]': return VBool(prec_hit)
            if it == 'group.iter_elements()': return VBool(sib_hit)
            raise Unsupported('generator over ' + it)
        return orig_call(e, s)
    ex.e_Call = e_Call
    Dself = lambda xx: den(A0['self', 'namespace'], A0['self', 'not_namespace'], tw, xx)
    pre2 = z3.And(pre, ns_of(name) != XSI, dns != XSI, ns_of(name) != ANY, ns_of(name) != OTHER, dns != ANY, dns != OTHER, z3.Not(z3.PrefixOf(SV('##'), name)),
                  z3.Implies(z3.And(z3.Not(z3.Bool('dns_none')), dns != E, name != E, z3.Not(z3.PrefixOf(SV('{'), name))), ns_of(z3.Concat(SV('{'), dns, SV('}'), name)) == dns))
    outs = ex.run(st, pre2)
    ns_ok = z3.If(z3.Or(name == E, z3.PrefixOf(SV('{'), name)), Dself(ns_of(name)), z3.If(z3.Or(z3.Bool('dns_none'), dns == E), Dself(E), Dself(dns)))
    full = z3.If(z3.Or(name == E, z3.PrefixOf(SV('{'), name), z3.Bool('dns_none'), dns == E), name, z3.Concat(SV('{'), dns, SV('}'), name))
    no_exclusion = z3.And(z3.Or(group_none, z3.Not(has_prec)), z3.Not(A0['self', 'not_qname'][SV('##defined')]), group_none, z3.Not(A0['self', 'not_qname'][full]))

    def sound(kind, v, s): return z3.Implies(v.t, ns_ok) if kind == 'return' else z3.BoolVal(False)
    def exact(kind, v, s): return z3.Implies(no_exclusion, v.t == ns_ok) if kind == 'return' else z3.BoolVal(False)
    run.post(ex, outs, pre2, {'matched-only-if-the-namespace-is-admitted': sound, 'without-exclusions-matched-exactly-then': exact})


# ------------------------------------------------------------------ Xsd11AnyAttribute.is_matching: the XSD 1.1 attribute wildcard's own name test (C16, C03)
t = Target('wildcards.Xsd11AnyAttribute.is_matching', ['C16', 'C03'], F, 'Xsd11AnyAttribute.is_matching',
           note='whatever the ##defined exclusion says, an attribute name is matched ONLY IF it is not listed in notQName and its namespace - that of an expanded or empty name, the default '
                'namespace of a local name, else the absent namespace - is admitted by the constraint; when the ##defined exclusion does not apply (keyword absent, or no global attribute of '
                'that name) it is matched EXACTLY then',
           assumes=['is_namespace_allowed as proved (callee contract); the global attribute map and the schema identity of a declaration are uninterpreted'])


@t.symbolic
def _(run):
    ex, st, pre, A0, tw, to = setup(run, qual='Xsd11AnyAttribute.is_matching')
    name = z3.String('name'); dns = z3.String('dns')
    is_global, is_tuple, same_schema = z3.Bool('name_is_a_global_attribute'), z3.Bool('declaration_is_still_staged'), z3.Bool('declared_in_the_same_schema_document')
    has_defined = z3.Bool('notQName_has_the_defined_keyword')
    st.env.update(name=VStr(name), default_namespace=VOpt(z3.Bool('dns_none'), VStr(dns)))       # name is not None (None: False at once)
    orig_compare, orig_cmp, orig_sub = ex.e_Compare, ex.cmp, ex.e_Subscript

    def e_Compare(e, s):
        src = ast.unparse(e)
        if src == 'name in self.maps.attributes': return VBool(is_global)
        if src == "'##defined' in self.not_qname": return VBool(has_defined)      # (the well-formedness predicate keeps keywords out of the modelled name set: the keyword is its own input)
        if src in ('xsd_attribute[1] is self.schema', 'xsd_attribute.schema is self.schema'): return VBool(same_schema)
        if src in ('xsd_attribute[1] is not self.schema', 'xsd_attribute.schema is not self.schema'): return VBool(z3.Not(same_schema))
        return orig_compare(e, s)
    ex.e_Compare = e_Compare

    def e_Subscript(e, s):
        if ast.unparse(e) == 'self.maps.attributes[name]': return VObj('xsd_attribute')
        return orig_sub(e, s)
    ex.e_Subscript = e_Subscript
    st.objf['xsd_attribute'] = {}
    ex.callees['isinstance'] = lambda e, s, r, a, k: VBool(is_tuple)
    ex.names['tuple'] = OPAQUE
    Dself = lambda xx: den(A0['self', 'namespace'], A0['self', 'not_namespace'], tw, xx)
    pre2 = z3.And(pre, ns_of(name) != XSI, dns != XSI, ns_of(name) != ANY, ns_of(name) != OTHER, dns != ANY, dns != OTHER, z3.Not(z3.PrefixOf(SV('##'), name)),
                  z3.Implies(z3.And(z3.Not(z3.Bool('dns_none')), dns != E, name != E, z3.Not(z3.PrefixOf(SV('{'), name))), ns_of(z3.Concat(SV('{'), dns, SV('}'), name)) == dns))
    outs = ex.run(st, pre2)
    ns_ok = z3.If(z3.Or(name == E, z3.PrefixOf(SV('{'), name)), Dself(ns_of(name)), z3.If(z3.Or(z3.Bool('dns_none'), dns == E), Dself(E), Dself(dns)))
    full = z3.If(z3.Or(name == E, z3.PrefixOf(SV('{'), name), z3.Bool('dns_none'), dns == E), name, z3.Concat(SV('{'), dns, SV('}'), name))
    listed = A0['self', 'not_qname'][full]
    no_exclusion = z3.Or(z3.Not(has_defined), z3.Not(is_global))

    def sound(kind, v, s): return z3.Implies(v.t, z3.And(ns_ok, z3.Not(listed))) if kind == 'return' else z3.BoolVal(False)
    def exact(kind, v, s): return z3.Implies(no_exclusion, v.t == z3.And(ns_ok, z3.Not(listed))) if kind == 'return' else z3.BoolVal(False)
    run.post(ex, outs, pre2, {'matched-only-if-admitted-and-not-listed': sound, 'without-the-defined-exclusion-matched-exactly-then': exact})
