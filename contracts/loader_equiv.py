"""C06 kernel: loop-body equivalence of the eager and the lazy loader (resources/xml_loader.py).

Both `_parse` and `_lazy_iterparse` consume the same iterparse event stream.  For every event kind and every symbolic pre-state the two
loop bodies are executed by a small abstract interpreter in which the container operations (pop, append, copy, update, item assignment)
are *uninterpreted* functions on state terms; the obligation is that both bodies leave equal terms in nsmap_stack, start_ns, end_ns,
_nsmaps, _xmlns and remaining_levels.  By induction over the common event stream the two loaders attach the same in-scope namespaces
and declarations to every node.  No model of lists or dicts is needed, and an edit that changes one loader but not the other breaks it.

What the extraction drops: statements that touch none of the tracked cells (root / _xpath_root bookkeeping, remaining_elements, yields,
message construction); they are checked syntactically not to assign a tracked name.
"""
import ast
import z3
from pyvc.core import Target
from pyvc.se import Unsupported

F = 'xmlschema/resources/xml_loader.py'
Stk, Map, Lst, Node = z3.DeclareSort('Stk'), z3.DeclareSort('NsMap'), z3.DeclareSort('DeclList'), z3.DeclareSort('Node')
pop = z3.Function('pop', Stk, Stk); push = z3.Function('push', Stk, Map, Stk); top = z3.Function('top', Stk, Map); settop = z3.Function('settop', Stk, Map, Stk)
mcopy = z3.Function('copy', Map, Map); mupdate = z3.Function('update', Map, Lst, Map)
lappend = z3.Function('lappend', Lst, Node, Lst); nonempty = z3.Function('nonempty', Lst, z3.BoolSort()); EMPTY = z3.Const('empty_list', Lst)
NM = z3.ArraySort(Node, Map); XM = z3.ArraySort(Node, Lst)
TRACKED = ('nsmap_stack', 'start_ns', 'end_ns', 'nsmaps', 'xmlns', 'remaining_levels')
ALIAS = {'self._nsmaps': 'nsmaps', 'self._xmlns': 'xmlns', 'nsmaps': 'nsmaps', 'xmlns': 'xmlns'}


class Abs:
    """abstract interpreter of one loop body for one event kind"""
    def __init__(self, event, node):
        self.event, self.node = event, node
        self.paths = []          # (path condition list, state dict)

    def run(self, body, st):
        self.block(body, st, [])
        return self.paths

    def block(self, stmts, st, pc, k=None):
        if not stmts:
            if k: k(st, pc)
            else: self.paths.append((pc, st))
            return
        s, rest = stmts[0], stmts[1:]
        cont = lambda st2, pc2: self.block(rest, st2, pc2, k)
        self.stmt(s, st, pc, cont)

    def cond(self, e, st):
        src = ast.unparse(e)
        if isinstance(e, ast.Compare) and src.startswith('event == '): return z3.BoolVal(ast.literal_eval(e.comparators[0]) == self.event)
        if src == 'end_ns': return st['end_ns']
        if src == 'start_ns': return nonempty(st['start_ns'])
        if src == 'not root_started': return z3.Not(st['root_started'])
        if src in ('remaining_levels < 0', 'not remaining_levels'): return st['remaining_levels'] < 0 if src.endswith('< 0') else st['remaining_levels'] == 0
        if 'remaining_elements' in src: return None          # untracked: both outcomes are possible and none touches a tracked cell except by raising
        names = {n.id for n in ast.walk(e) if isinstance(n, ast.Name)}
        if names & (set(TRACKED) | {k[1:] for k in st if k.startswith('$')}):
            # a test this interpreter has no reading for: an uninterpreted predicate of the cells it mentions, named by its text (the same
            # text in both loaders is the same predicate; a test present in one loader only splits that loader's paths)
            args = [st[n] if n in st else st['$' + n] for n in sorted(names) if n in st or '$' + n in st]
            return z3.Function('test!' + src, *[a.sort() for a in args], z3.BoolSort())(*args)
        raise Unsupported('condition ' + src)

    def mapexpr(self, e, st):
        src = ast.unparse(e)
        if src == 'nsmap_stack[-1]': return top(st['nsmap_stack'])
        if isinstance(e, ast.Name) and '$' + e.id in st: return st['$' + e.id]
        if isinstance(e, ast.Call) and isinstance(e.func, ast.Attribute) and e.func.attr == 'copy' and not e.args: return mcopy(self.mapexpr(e.func.value, st))
        raise Unsupported('map expression ' + src)

    def stmt(self, s, st, pc, cont):
        src = ast.unparse(s)
        if isinstance(s, ast.If):
            c = self.cond(s.test, st)
            if c is None:
                if any(isinstance(n, ast.Name) and isinstance(n.ctx, ast.Store) and n.id in TRACKED for n in ast.walk(s)): raise Unsupported('untracked test guards a tracked cell')
                return cont(st, pc)       # the raising branch ends the run in both loaders alike (limit contracts are separate)
            c = z3.simplify(c)
            for cc, body in ((c, s.body), (z3.Not(c), s.orelse)):
                if z3.is_false(z3.simplify(cc)): continue
                self.block(body, dict(st), pc + [cc], cont)
            return
        if isinstance(s, ast.Raise): return      # XMLResourceExceeded: handled by the limit contracts (C11)
        if isinstance(s, ast.Expr) and isinstance(s.value, (ast.Yield, ast.YieldFrom)): return cont(st, pc)
        st = dict(st)
        if src == 'nsmap_stack.pop()': st['nsmap_stack'] = pop(st['nsmap_stack'])
        elif isinstance(s, ast.Expr) and isinstance(s.value, ast.Call) and ast.unparse(s.value.func) == 'nsmap_stack.append' and len(s.value.args) == 1:
            st['nsmap_stack'] = push(st['nsmap_stack'], self.mapexpr(s.value.args[0], st))
        elif isinstance(s, ast.Assign) and isinstance(s.targets[0], ast.Name) and s.targets[0].id not in TRACKED and s.targets[0].id not in ('root_started',) \
                and any(isinstance(n, ast.Name) and n.id == 'nsmap_stack' for n in ast.walk(s.value)):
            st['$' + s.targets[0].id] = self.mapexpr(s.value, st)      # a local alias of a map of the stack
        elif src == 'nsmap_stack[-1].update(start_ns)': st['nsmap_stack'] = settop(st['nsmap_stack'], mupdate(top(st['nsmap_stack']), st['start_ns']))
        elif src == 'start_ns.append(node)': st['start_ns'] = lappend(st['start_ns'], self.node)
        elif src == 'start_ns = []': st['start_ns'] = EMPTY
        elif src in ('end_ns = False', 'end_ns = True'): st['end_ns'] = z3.BoolVal(src.endswith('True'))
        elif src in ('root_started = True',): st['root_started'] = z3.BoolVal(True)
        elif src in ('remaining_levels -= 1', 'remaining_levels += 1'): st['remaining_levels'] = st['remaining_levels'] + (1 if '+=' in src else -1)
        elif isinstance(s, ast.Assign) and isinstance(s.targets[0], ast.Subscript) and ast.unparse(s.targets[0].value) in ALIAS and ast.unparse(s.targets[0].slice) == 'node':
            cell = ALIAS[ast.unparse(s.targets[0].value)]; rhs = ast.unparse(s.value)
            if cell == 'xmlns' and rhs == 'start_ns': st['xmlns'] = z3.Store(st['xmlns'], self.node, st['start_ns'])
            elif cell == 'nsmaps' and rhs == 'nsmap_stack[-1]': st['nsmaps'] = z3.Store(st['nsmaps'], self.node, top(st['nsmap_stack']))
            else: raise Unsupported('assignment ' + src)
        else:
            stored = {n.id for n in ast.walk(s) if isinstance(n, ast.Name) and isinstance(n.ctx, ast.Store)}
            touched = stored & set(TRACKED) or any(ast.unparse(n) in ('self._nsmaps', 'self._xmlns') and isinstance(getattr(n, 'ctx', None), ast.Store) for n in ast.walk(s))
            calls_tracked = any(isinstance(n, ast.Call) and isinstance(n.func, ast.Attribute) and ast.unparse(n.func.value).split('[')[0] in ('nsmap_stack', 'start_ns', 'nsmaps', 'xmlns', 'self._nsmaps', 'self._xmlns')
                                and n.func.attr not in ('get',) for n in ast.walk(s))
            if touched or calls_tracked: raise Unsupported('unmodelled statement on a tracked cell: ' + src[:80])
            # dropped: touches no tracked cell (root / _xpath_root bookkeeping, remaining_elements, messages)
        cont(st, pc)


def loop_body(fn):
    loops = [n for n in ast.walk(fn) if isinstance(n, ast.For) and ast.unparse(n.iter).startswith('self._iterparse(')]
    if len(loops) != 1: raise Unsupported('event loop not found')
    return loops[0].body


t = Target('loader.loop_body_equivalence', ['C06', 'C17'], F, 'XMLResourceLoader._parse',
           note='for every event kind (start, end, start-ns, end-ns) and every pre-state, the loop bodies of _parse and _lazy_iterparse leave equal '
                'nsmap_stack, start_ns, end_ns, _nsmaps, _xmlns and remaining_levels (container operations uninterpreted); hence both loaders attach the '
                'same in-scope namespaces and declarations to every node of the same event stream',
           assumes=['container operations are functions of their arguments (no aliasing between the tracked cells other than through the modelled operations)',
                    'dropped statements (root bookkeeping, yields, remaining_elements) do not touch a tracked cell: checked syntactically',
                    'both loaders start from the same initial state: checked as a separate clause on the statements before the loop'])


@t.symbolic
def _(run):
    ex = run.exec()
    from pyvc.se import find_def
    cls = find_def(ex.tree, 'XMLResourceLoader')
    eager, lazy = find_def(cls, '_parse'), find_def(cls, '_lazy_iterparse')
    if eager is None or lazy is None: raise Unsupported('loader functions not found')
    node = z3.Const('node', Node)
    pre_state = dict(nsmap_stack=z3.Const('stk0', Stk), start_ns=z3.Const('start_ns0', Lst), end_ns=z3.Bool('end_ns0'), nsmaps=z3.Const('nsmaps0', NM),
                     xmlns=z3.Const('xmlns0', XM), remaining_levels=z3.Int('levels0'), root_started=z3.Bool('root_started0'))
    pre = z3.BoolVal(True)
    for event in ('start', 'end', 'start-ns', 'end-ns'):
        pe = Abs(event, node).run(loop_body(eager), dict(pre_state))
        pl = Abs(event, node).run(loop_body(lazy), dict(pre_state))
        if not pe or not pl: raise Unsupported(f'no path for event {event}')
        run.paths += len(pe) * len(pl)
        for i, (pc1, s1) in enumerate(pe):
            for j, (pc2, s2) in enumerate(pl):
                for cell in TRACKED:
                    run.vc(f'same-{cell}-after-{event}', pre, pc1 + pc2, s1[cell] == s2[cell], f'{event}/eager{i}/lazy{j}')
    # initial states: the assignments before the loop give the tracked locals the same initial values
    def init(fn):
        out = {}
        for s in fn.body:
            if isinstance(s, (ast.Assign, ast.AnnAssign)):
                tg = s.targets[0] if isinstance(s, ast.Assign) else s.target
                if isinstance(tg, ast.Name) and tg.id in ('nsmap_stack', 'start_ns', 'end_ns', 'remaining_levels') and s.value is not None: out[tg.id] = ast.unparse(s.value)
        return out
    run.vc('same-initial-state', pre, [], z3.BoolVal(init(eager) == init(lazy) and set(init(eager)) == {'nsmap_stack', 'start_ns', 'end_ns', 'remaining_levels'}), 'init')
    lazy_clears = any(ast.unparse(s) == 'self._nsmaps.clear()' for s in lazy.body) and any(ast.unparse(s) == 'self._xmlns.clear()' for s in lazy.body)
    run.vc('lazy-run-starts-from-empty-maps', pre, [], z3.BoolVal(lazy_clears), 'init')
