"""Frame obligations for C10: what a validation / decoding / encoding method may write on the schema component it belongs to.

For every method of xmlschema/validators/*.py that lies on the validation path, the set of writes to `self` (attribute or item stores,
deletes, calls of mutating container methods, setattr, stores through the class or `type(self)`, global / nonlocal declarations) is
computed from the real AST and must be included in the frame the contract states.  The frame on the unchanged tree is tiny: the
recorded xsi:type uses of an element, the per-validation identity counters, and the reset of the schema's scratch context.  Anything
else - a cache on the component, a counter, a memo - is residue that can influence later calls and fails the obligation.  A second clause
follows local names that hold components (xsd_*, schema): a store or a mutator call through such a name is allowed only on an object
that was created (copied / built) in the same statement list - the copy-before-_set_type discipline of collect_key_fields.
Decided syntactically on the real source (back end `ast`).
"""
import ast, glob, os
import z3
from pyvc.core import Target
from pyvc.se import REPO

MUT = {'add', 'append', 'update', 'clear', 'pop', 'remove', 'extend', 'insert', 'setdefault', 'discard', 'popitem', 'appendleft', 'sort', 'reverse',
       'intersection_update', 'difference_update', 'symmetric_difference_update', '__setitem__', '__delitem__'}
NAMES = {'raw_decode', 'raw_encode', 'iter_decode', 'iter_encode', 'iter_errors', 'decode', 'encode', 'validate', 'is_valid', 'text_decode', 'text_is_valid', '__call__',
         'match', 'is_matching', 'collect_key_fields', 'get_value', 'get_counter', 'increase', 'get_alternative_type', 'check_dynamic_context', 'get_instance_type',
         'is_blocked', 'is_derived', 'normalize', 'to_objects', 'to_dict', 'to_json', '_validate_references', 'raw_decoder', 'get_element', 'get_attributes', 'match_child',
         'match_element', 'get_expected', 'is_restriction', 'is_overlap', 'is_consistent', 'is_namespace_allowed', 'element_decode', 'element_encode'}
FRAME = {
    ('elements.py', 'XsdElement.raw_decode'): {'call self.xsi_types.add'},                       # recorded xsi:type uses (idempotent set insertion)
    ('identities.py', 'IdentityCounter.increase'): {'store self.counter[fields]'},                # per-validation object, created in the context
    ('identities.py', 'KeyrefCounter.increase'): {'store self.counter[fields]'},
    ('simple_types.py', 'XsdSimpleType.text_decode'): {'call self.schema.validation_context.clear'},   # the scratch context is reset before use
    ('simple_types.py', 'XsdSimpleType.text_is_valid'): {'call self.schema.validation_context.clear'},
}


def writes(fn):
    w = set()
    roots = ('self.', 'cls.', 'type(self).', 'self.__class__.')
    def owned(src): return src.startswith(roots) or (src[:1].isupper() and '.' in src)
    for n in ast.walk(fn):
        if isinstance(n, (ast.Assign, ast.AugAssign, ast.AnnAssign)):
            tgts = n.targets if isinstance(n, ast.Assign) else [n.target]
            for tg in tgts:
                for x in ast.walk(tg):
                    if isinstance(x, (ast.Attribute, ast.Subscript)) and isinstance(getattr(x, 'ctx', None), ast.Store) and owned(ast.unparse(x)): w.add('store ' + ast.unparse(x))
        elif isinstance(n, ast.Delete):
            for tg in n.targets:
                if owned(ast.unparse(tg)): w.add('del ' + ast.unparse(tg))
        elif isinstance(n, (ast.Global, ast.Nonlocal)):
            w.add(type(n).__name__.lower() + ' ' + ','.join(n.names))
        elif isinstance(n, ast.Call):
            if isinstance(n.func, ast.Attribute) and n.func.attr in MUT and owned(ast.unparse(n.func.value) + '.'): w.add('call ' + ast.unparse(n.func))
            if isinstance(n.func, ast.Name) and n.func.id in ('setattr', 'delattr') and n.args and ast.unparse(n.args[0]) in ('self', 'cls', 'type(self)', 'self.__class__'):
                w.add('call ' + n.func.id + '(' + ast.unparse(n.args[0]) + ', ...)')
            if isinstance(n.func, ast.Attribute) and n.func.attr == '__setattr__' and n.args and ast.unparse(n.args[0]) == 'self': w.add('call object.__setattr__(self, ...)')
    return w


FRESH_CALLS = ('_copy', 'copy', 'deepcopy')
COMPONENT_MUT = ('_set_', '_parse', 'parse', 'build', 'clear', 'set_')
ALIAS_FRAME = {
    # dynamic schema loading from xsi:schemaLocation hints: the documented, intended extension of the maps (under protect_status)
    ('elements.py', 'XsdElement.check_dynamic_context'): {'call schema.clear', 'call schema.build'},
    ('elements.py', 'Xsd11Element.check_dynamic_context'): {'call schema.clear', 'call schema.build'},
}


def is_fresh(e):
    """the expression evaluates to an object created by this evaluation (a copy or a newly built component)"""
    if isinstance(e, ast.Call):
        f = e.func
        if isinstance(f, ast.Name) and (f.id in FRESH_CALLS or f.id[:1].isupper()): return f.id != 'cast' or is_fresh(e.args[1])
        if isinstance(f, ast.Name) and f.id == 'cast': return len(e.args) == 2 and is_fresh(e.args[1])
        if isinstance(f, ast.Attribute) and (f.attr.startswith('create_') or f.attr.endswith('_class') or f.attr == 'copy'): return True
    return False


def alias_writes(fn):
    """writes on schema components reached through a local name (xsd_*, schema): stores of attributes / items and calls of component
    mutators.  A write is allowed when the nearest preceding assignment of the name in the same statement list binds a fresh object."""
    bad = set()

    def root(e):
        while isinstance(e, (ast.Attribute, ast.Subscript)): e = e.value
        return e.id if isinstance(e, ast.Name) else None

    def watched(name): return name is not None and (name.startswith('xsd_') or name == 'schema')

    def scan(stmts, fresh):
        fresh = set(fresh)
        for s in stmts:
            # writes in this statement (not descending into nested statement lists, which are scanned with the current fresh set)
            heads = [s] if not hasattr(s, 'body') else [getattr(s, 'test', None), getattr(s, 'iter', None)] + [i.context_expr for i in getattr(s, 'items', [])]
            for h in [h for h in heads if h is not None]:
                for n in ast.walk(h):
                    if isinstance(n, (ast.Attribute, ast.Subscript)) and isinstance(getattr(n, 'ctx', None), (ast.Store, ast.Del)):
                        r = root(n)
                        if watched(r) and r not in fresh: bad.add('store ' + ast.unparse(n))
                    if isinstance(n, ast.Call) and isinstance(n.func, ast.Attribute):
                        r = root(n.func.value)
                        if watched(r) and r not in fresh and (n.func.attr.startswith(COMPONENT_MUT) or n.func.attr in MUT): bad.add('call ' + ast.unparse(n.func))
                    if isinstance(n, ast.Call) and isinstance(n.func, ast.Name) and n.func.id in ('setattr', 'delattr') and n.args and watched(root(n.args[0])) and root(n.args[0]) not in fresh:
                        bad.add('call ' + n.func.id + '(' + ast.unparse(n.args[0]) + ', ...)')
            if isinstance(s, (ast.Assign, ast.AnnAssign)) and s.value is not None:
                for tg in (s.targets if isinstance(s, ast.Assign) else [s.target]):
                    if isinstance(tg, ast.Name):
                        (fresh.add if is_fresh(s.value) else fresh.discard)(tg.id)
                    else:
                        for x in ast.walk(tg):
                            if isinstance(x, ast.Name) and isinstance(x.ctx, ast.Store): fresh.discard(x.id)
            for sub in ('body', 'orelse', 'finalbody'):
                if hasattr(s, sub) and isinstance(getattr(s, sub), list): scan(getattr(s, sub), fresh)
            for h in getattr(s, 'handlers', []): scan(h.body, fresh)
            if hasattr(s, 'body') and not isinstance(s, (ast.FunctionDef, ast.ClassDef)):
                # names (re)bound inside a nested block are no longer known to be fresh after it
                for n in ast.walk(s):
                    if isinstance(n, ast.Name) and isinstance(n.ctx, ast.Store): fresh.discard(n.id)
    scan(fn.body, set())
    return bad


ACCUMULATORS = {'errors', 'id_map', 'id_list', 'identities', 'counter'}      # the per-run collections a validation call is meant to fill


def shared_container_writes(fn):
    """in-place mutation (mutator call, item store / delete) through a local name whose nearest preceding binding in the same statement list is an attribute or
    item of another object (context.inherited, self.namespaces, ...): the local is an alias of state that outlives the statement, so the mutation is visible to
    everything else that holds the object.  Allowed only for the accumulators of the run; anything else has to be copied first."""
    bad = set()

    def root(e):
        while isinstance(e, (ast.Attribute, ast.Subscript)): e = e.value
        return e.id if isinstance(e, ast.Name) else None

    def field(e):
        while isinstance(e, ast.Subscript): e = e.value
        return e.attr if isinstance(e, ast.Attribute) else None

    def scan(stmts, alias):
        alias = dict(alias)
        for s in stmts:
            heads = [s] if not hasattr(s, 'body') else [getattr(s, 'test', None), getattr(s, 'iter', None)] + [i.context_expr for i in getattr(s, 'items', [])]
            for h in [h for h in heads if h is not None]:
                for n in ast.walk(h):
                    if isinstance(n, ast.Subscript) and isinstance(getattr(n, 'ctx', None), (ast.Store, ast.Del)) and isinstance(n.value, ast.Name) and n.value.id in alias:
                        bad.add(f'store {ast.unparse(n)} (alias of {alias[n.value.id]})')
                    if isinstance(n, ast.Call) and isinstance(n.func, ast.Attribute) and n.func.attr in MUT and isinstance(n.func.value, ast.Name) and n.func.value.id in alias:
                        bad.add(f'call {ast.unparse(n.func)} (alias of {alias[n.func.value.id]})')
            if isinstance(s, (ast.Assign, ast.AnnAssign)) and s.value is not None:
                for tg in (s.targets if isinstance(s, ast.Assign) else [s.target]):
                    if isinstance(tg, ast.Name):
                        v = s.value
                        if isinstance(v, (ast.Attribute, ast.Subscript)) and root(v) is not None and field(v) not in ACCUMULATORS and field(v) is not None: alias[tg.id] = ast.unparse(v)
                        else: alias.pop(tg.id, None)
                    else:
                        for x in ast.walk(tg):
                            if isinstance(x, ast.Name) and isinstance(x.ctx, ast.Store): alias.pop(x.id, None)
            for sub in ('body', 'orelse', 'finalbody'):
                if hasattr(s, sub) and isinstance(getattr(s, sub), list): scan(getattr(s, sub), alias)
            for h in getattr(s, 'handlers', []): scan(h.body, alias)
            if hasattr(s, 'body') and not isinstance(s, (ast.FunctionDef, ast.ClassDef)):
                # a name rebound inside a nested block: after the block it may hold either object; it stays an alias if ANY binding in the block is one and none is fresh-unconditional
                for n in ast.walk(s):
                    if isinstance(n, (ast.Assign, ast.AnnAssign)) and n.value is not None:
                        for tg in (n.targets if isinstance(n, ast.Assign) else [n.target]):
                            if isinstance(tg, ast.Name) and tg.id in alias and not isinstance(n.value, (ast.Attribute, ast.Subscript)): pass     # conservatively still an alias on the other branch
    scan(fn.body, {})
    return bad


def methods():
    for f in sorted(glob.glob(os.path.join(REPO, 'xmlschema/validators/*.py'))) + [os.path.join(REPO, 'xmlschema/converters/base.py')]:
        tree = ast.parse(open(f, encoding='utf-8-sig').read())
        for cls in [n for n in tree.body if isinstance(n, ast.ClassDef)]:
            if cls.name in ('ModelVisitor', 'InterleavedModelVisitor', 'SuffixedModelVisitor', 'ValidationContext', 'DecodeContext', 'EncodeContext', 'OccursCalculator') \
                    or cls.name.endswith('Converter'):
                continue        # per-call objects (visitor, context, converter copy): not schema-owned state
            for fn in [n for n in cls.body if isinstance(n, ast.FunctionDef) and n.name in NAMES]:
                yield os.path.basename(f), f'{cls.name}.{fn.name}', fn


t = Target('frame.validation_methods_write_only_their_frame', ['C10', 'C07'], 'xmlschema/validators/elements.py', 'XsdElement.raw_decode',
           note='every validation-path method of validators/*.py writes, on the schema component it belongs to, at most what its stated frame allows '
                '(xsi:type uses, per-validation identity counters, the reset of the scratch context); no other attribute / item / class-level store, '
                'setattr, global or mutating call on self',
           assumes=['syntactic obligation on the real AST (no solver)', 'writes through local names are seen for names that follow the code base convention for components (xsd_*, schema): such a write needs a fresh object (copy / newly created component) bound in the same statement list; other aliases and writes through callees outside the listed method names are not seen'])


@t.symbolic
def _(run):
    run.exec()
    pre = z3.BoolVal(True); n = 0
    for fname, qual, fn in methods():
        n += 1
        extra = writes(fn) - FRAME.get((fname, qual), set())
        run.vc('writes-within-frame', pre, [], z3.BoolVal(not extra), f'{fname}:{qual}' + (' extra=' + ';'.join(sorted(extra)) if extra else ''))
        extra = alias_writes(fn) - ALIAS_FRAME.get((fname, qual), set())
        run.vc('component-writes-only-on-fresh-objects', pre, [], z3.BoolVal(not extra), f'{fname}:{qual}' + (' extra=' + ';'.join(sorted(extra)) if extra else ''))
        extra = shared_container_writes(fn)
        run.vc('shared-containers-mutated-only-on-fresh-copies', pre, [], z3.BoolVal(not extra), f'{fname}:{qual}' + (' extra=' + ';'.join(sorted(extra)) if extra else ''))
    run.paths = n
    if n < 40: raise Exception(f'only {n} validation-path methods found: the scan is broken')


# ------------------------------------------------------------------ every reported error carries the mode of the CALL (C04, C11, C19)
ERR_CALLS = ('validation_error', 'decode_error', 'encode_error', 'raise_or_collect', 'missing_element_error')
t = Target('frame.errors_are_reported_with_the_mode_of_the_call', ['C04', 'C11', 'C19'], 'xmlschema/validators/validation.py', 'ValidationContext.raise_or_collect',
           note='whether an error is raised, collected or dropped is decided by the validation mode of the current call: in every function of validators/*.py and converters/*.py each '
                'call of validation_error / decode_error / encode_error / raise_or_collect / missing_element_error passes, as the mode, the `validation` parameter of the enclosing '
                'function (not the mode the schema was built with, not another variable): lax and skip never raise for invalid content, strict always does',
           assumes=['syntactic obligation on the real AST (no solver); what raise_or_collect does with the mode is its own contract (validation.raise_or_collect)'])


@t.symbolic
def _(run):
    run.exec()
    pre = z3.BoolVal(True); n = 0
    files = sorted(glob.glob(os.path.join(REPO, 'xmlschema/validators/*.py'))) + sorted(glob.glob(os.path.join(REPO, 'xmlschema/converters/*.py'))) + [os.path.join(REPO, 'xmlschema/dataobjects.py')]
    for f in files:
        tree = ast.parse(open(f, encoding='utf-8-sig').read())
        for fn in [x for x in ast.walk(tree) if isinstance(x, (ast.FunctionDef, ast.AsyncFunctionDef))]:
            params = {a.arg for a in fn.args.args + fn.args.kwonlyargs}
            for c in [x for x in ast.walk(fn) if isinstance(x, ast.Call) and isinstance(x.func, ast.Attribute) and x.func.attr in ERR_CALLS]:
                if os.path.basename(f) == 'validation.py' and fn.name in ERR_CALLS: continue       # the reporting methods themselves forward their own parameter
                n += 1
                mode = c.args[0] if c.args else next((k.value for k in c.keywords if k.arg == 'validation'), None)
                ok = isinstance(mode, ast.Name) and mode.id == 'validation' and 'validation' in params
                run.vc('mode-argument-is-the-validation-parameter', pre, [], z3.BoolVal(ok), f'{os.path.basename(f)}:{fn.name}:{c.func.attr}@{c.lineno - fn.lineno}' + ('' if ok else ' mode=' + (ast.unparse(mode) if mode is not None else 'missing')))
    run.paths = n
    if n < 60: raise Exception(f'only {n} error-reporting calls found: the scan is broken')
