"""Frame obligations for C10: what a validation / decoding / encoding method may write on the schema component it belongs to.

For every method of xmlschema/validators/*.py that lies on the validation path, the set of writes to `self` (attribute or item stores,
deletes, calls of mutating container methods, setattr, stores through the class or `type(self)`, global / nonlocal declarations) is
computed from the real AST and must be included in the frame the contract states.  The frame on the unchanged tree is tiny: the
recorded xsi:type uses of an element, the per-validation identity counters, and the reset of the schema's scratch context.  Anything
else - a cache on the component, a counter, a memo - is residue that can influence later calls and fails the obligation.
Decided syntactically on the real source (back end `ast`).
"""
import ast, glob, os
import z3
from pyvc.core import Target
from pyvc.se import REPO

MUT = {'add', 'append', 'update', 'clear', 'pop', 'remove', 'extend', 'insert', 'setdefault', 'discard', 'popitem', 'appendleft', 'sort', 'reverse',
       'intersection_update', 'difference_update', 'symmetric_difference_update', '__setitem__', '__delitem__'}
NAMES = {'raw_decode', 'raw_encode', 'iter_decode', 'iter_encode', 'iter_errors', 'decode', 'encode', 'validate', 'is_valid', 'text_decode', 'text_is_valid', '__call__',
         'match', 'is_matching', 'collect_key_fields', 'get_value', 'get_counter', 'increase', 'get_alternative_type', 'check_dynamic_context', 'get_instance_type',
         'is_blocked', 'is_derived', 'normalize', 'to_objects', 'to_dict', 'to_json', '_validate_references', 'raw_decoder', 'get_element', 'get_attributes', 'match_child',
         'match_element', 'get_expected', 'is_restriction', 'is_overlap', 'is_consistent', 'is_namespace_allowed', 'element_decode', 'element_encode'}
FRAME = {
    ('elements.py', 'XsdElement.raw_decode'): {'call self.xsi_types.add'},                       # recorded xsi:type uses (idempotent set insertion)
    ('identities.py', 'IdentityCounter.increase'): {'store self.counter[fields]'},                # per-validation object, created in the context
    ('identities.py', 'KeyrefCounter.increase'): {'store self.counter[fields]'},
    ('simple_types.py', 'XsdSimpleType.text_decode'): {'call self.schema.validation_context.clear'},   # the scratch context is reset before use
    ('simple_types.py', 'XsdSimpleType.text_is_valid'): {'call self.schema.validation_context.clear'},
}


def writes(fn):
    w = set()
    roots = ('self.', 'cls.', 'type(self).', 'self.__class__.')
    def owned(src): return src.startswith(roots) or (src[:1].isupper() and '.' in src)
    for n in ast.walk(fn):
        if isinstance(n, (ast.Assign, ast.AugAssign, ast.AnnAssign)):
            tgts = n.targets if isinstance(n, ast.Assign) else [n.target]
            for tg in tgts:
                for x in ast.walk(tg):
                    if isinstance(x, (ast.Attribute, ast.Subscript)) and isinstance(getattr(x, 'ctx', None), ast.Store) and owned(ast.unparse(x)): w.add('store ' + ast.unparse(x))
        elif isinstance(n, ast.Delete):
            for tg in n.targets:
                if owned(ast.unparse(tg)): w.add('del ' + ast.unparse(tg))
        elif isinstance(n, (ast.Global, ast.Nonlocal)):
            w.add(type(n).__name__.lower() + ' ' + ','.join(n.names))
        elif isinstance(n, ast.Call):
            if isinstance(n.func, ast.Attribute) and n.func.attr in MUT and owned(ast.unparse(n.func.value) + '.'): w.add('call ' + ast.unparse(n.func))
            if isinstance(n.func, ast.Name) and n.func.id in ('setattr', 'delattr') and n.args and ast.unparse(n.args[0]) in ('self', 'cls', 'type(self)', 'self.__class__'):
                w.add('call ' + n.func.id + '(' + ast.unparse(n.args[0]) + ', ...)')
            if isinstance(n.func, ast.Attribute) and n.func.attr == '__setattr__' and n.args and ast.unparse(n.args[0]) == 'self': w.add('call object.__setattr__(self, ...)')
    return w


def methods():
    for f in sorted(glob.glob(os.path.join(REPO, 'xmlschema/validators/*.py'))) + [os.path.join(REPO, 'xmlschema/converters/base.py')]:
        tree = ast.parse(open(f, encoding='utf-8-sig').read())
        for cls in [n for n in tree.body if isinstance(n, ast.ClassDef)]:
            if cls.name in ('ModelVisitor', 'InterleavedModelVisitor', 'SuffixedModelVisitor', 'ValidationContext', 'DecodeContext', 'EncodeContext', 'OccursCalculator') \
                    or cls.name.endswith('Converter'):
                continue        # per-call objects (visitor, context, converter copy): not schema-owned state
            for fn in [n for n in cls.body if isinstance(n, ast.FunctionDef) and n.name in NAMES]:
                yield os.path.basename(f), f'{cls.name}.{fn.name}', fn


t = Target('frame.validation_methods_write_only_their_frame', ['C10'], 'xmlschema/validators/elements.py', 'XsdElement.raw_decode',
           note='every validation-path method of validators/*.py writes, on the schema component it belongs to, at most what its stated frame allows '
                '(xsi:type uses, per-validation identity counters, the reset of the scratch context); no other attribute / item / class-level store, '
                'setattr, global or mutating call on self',
           assumes=['syntactic obligation on the real AST (no solver)', 'writes through aliases (x = self; x.y = ...) and through callees outside the listed method names are not seen'])


@t.symbolic
def _(run):
    run.exec()
    pre = z3.BoolVal(True); n = 0
    for fname, qual, fn in methods():
        n += 1
        extra = writes(fn) - FRAME.get((fname, qual), set())
        run.vc('writes-within-frame', pre, [], z3.BoolVal(not extra), f'{fname}:{qual}' + (' extra=' + ';'.join(sorted(extra)) if extra else ''))
    run.paths = n
    if n < 40: raise Exception(f'only {n} validation-path methods found: the scan is broken')
