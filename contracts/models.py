"""C15 kernel: the pairwise body of validators/models.py::check_model.

Statement contract on ONE iteration of `for pe, previous_path in paths.values():` (the whole loop body, for an arbitrary pair).  The element
relations (is_consistent, is_overlap, is_univocal, distinguishable_paths, the class tests) are uninterpreted; the clauses come from the
property text:
  * Element Declarations Consistent: an inconsistent pair (with e itself or with the open-content wildcard) ALWAYS ends in a model error,
    whatever the overlap / parent / occurrence shape of the pair (no shortcut may skip it);
  * XSD 1.1 precedence: a pair of a wildcard and an element is never a UPA error when the wildcard is an Xsd11AnyElement;
  * a consistent pair that does not overlap, or that the path test distinguishes, is accepted without error and without side effect.
"""
import ast
import z3
from pyvc.core import Target
from pyvc.se import *

F = 'xmlschema/validators/models.py'
t = Target('models.check_model.pair_body', ['C15'], F, 'check_model', anchor='for pe, previous_path in paths.values()',
           note='pairwise body of check_model: an inconsistent pair always raises XMLSchemaModelError (EDC), before and independently of every UPA shortcut; '
                'an XSD 1.1 wildcard/element pair is resolved by precedence, never an error; consistent non-overlapping or distinguishable pairs pass silently',
           assumes=['is_consistent / is_overlap / is_univocal / distinguishable_paths and the class tests are uninterpreted relations of the pair',
                    'the enumeration of pairs (safe_iter_path, paths keyed by name) is outside this contract: covered by the bounded EDC / UPA families of bounded/C15.py'])


@t.symbolic
def _(run):
    ex = run.exec(); st = new_state()
    cons, any_cons, any_none = z3.Bool('e_consistent_pe'), z3.Bool('open_content_consistent_pe'), z3.Bool('no_open_content')
    same, overlap, same_parent, parent_none, univocal, dist = (z3.Bool(n) for n in ('pe_is_e', 'overlap', 'same_parent', 'parent_none', 'pe_univocal', 'distinguishable'))
    pmodel = z3.String('parent_model'); pe11, e11, pe_any, e_any = (z3.Bool(n) for n in ('pe_is_11any', 'e_is_11any', 'pe_is_any', 'e_is_any'))
    st.objf['pe'] = {}; st.objf['e'] = {}; st.objf['anyel'] = {}; st.objf['peparent'] = {'model': VStr(pmodel)}
    st.env.update(e=VObj('e'), pe=VObj('pe'), any_element=VOpt(any_none, VObj('anyel')), group=OPAQUE, previous_path=OPAQUE, current_path=OPAQUE)
    st.ghost.update(prec=())

    def is_consistent(e_, s, recv, a, k): return VBool(any_cons if isinstance(recv, VObj) and recv.name == 'anyel' else cons)
    ex.callees['is_consistent'] = is_consistent
    ex.callees['is_overlap'] = lambda e_, s, r, a, k: VBool(overlap)
    ex.callees['is_univocal'] = lambda e_, s, r, a, k: VBool(univocal)
    ex.callees['_'] = lambda *a: OPAQUE; ex.callees['format'] = lambda *a: OPAQUE

    def add_precedence(e_, s, recv, a, k): s.ghost['prec'] = s.ghost['prec'] + (recv.name,); return NONE
    ex.callees['add_precedence'] = add_precedence

    def isinstance_(e_, s, r, a, k):
        who = ast.unparse(k['node'].args[0]) if k and 'node' in k else None
        tn = ast.unparse(a[1]); name = a[0].name if isinstance(a[0], VObj) else None
        if name == 'pe': return VBool(pe11 if tn == 'Xsd11AnyElement' else pe_any)
        if name == 'e': return VBool(e11 if tn == 'Xsd11AnyElement' else e_any)
        raise Unsupported('isinstance ' + tn)
    ex.callees['isinstance'] = isinstance_
    ex.names.update(Xsd11AnyElement=OPAQUE, XsdAnyElement=OPAQUE)
    from xmlschema.validators.exceptions import XMLSchemaModelError
    ex.callees['XMLSchemaModelError'] = lambda e_, s, r, a, k: VExc(XMLSchemaModelError)
    orig_call, orig_cmp, orig_attr = ex.e_Call, ex.cmp, ex.e_Attribute

    def e_Call(e_, s):
        if isinstance(e_.func, ast.Name) and e_.func.id == 'distinguishable_paths':
            if ast.unparse(e_) != 'distinguishable_paths(previous_path + [pe], current_path + [e])': raise Unsupported('path test arguments drifted')
            return VBool(dist)
        return orig_call(e_, s)
    ex.e_Call = e_Call

    def e_Attribute(e_, s):
        src = ast.unparse(e_)
        if src == 'pe.parent': return VOpt(parent_none, VObj('peparent'))
        if src == 'e.parent': return ('e.parent',)
        if src == 'pe.parent.model': return VStr(pmodel)
        return orig_attr(e_, s)
    ex.e_Attribute = e_Attribute

    def cmp(op, l_, r_, s):
        if isinstance(op, (ast.Is, ast.IsNot)):
            pos = isinstance(op, ast.Is)
            if isinstance(l_, VObj) and isinstance(r_, VObj) and {l_.name, r_.name} == {'pe', 'e'}: return same if pos else z3.Not(same)
            if isinstance(r_, tuple) and r_ == ('e.parent',): return same_parent if pos else z3.Not(same_parent)
        return orig_cmp(op, l_, r_, s)
    ex.cmp = cmp
    ex.s_For = lambda node, s: ex.block(node.body, s)          # one iteration of the pair loop, for an arbitrary pair (pe, e)
    orig_assign = ex.assign
    ex.assign = lambda tg, v, s: [('fall', None, s)] if ast.unparse(tg) == '(pe, previous_path)' else orig_assign(tg, v, s)
    # a particle is the same object as itself: then it has the same parent; an Xsd11AnyElement is an XsdAnyElement
    pre = z3.And(z3.Implies(same, same_parent), z3.Implies(pe11, pe_any), z3.Implies(e11, e_any), z3.Implies(same, z3.And(pe11 == e11, pe_any == e_any)))
    run.inputs.update(consistent=cons, open_content_consistent=any_cons, no_open_content=any_none, overlap=overlap, same_parent=same_parent, distinguishable=dist)
    outs = ex.run(st, pre)
    inconsistent = z3.Or(z3.Not(cons), z3.And(z3.Not(any_none), z3.Not(any_cons)))
    is_err = lambda kind, v: kind == 'raise' and isinstance(v, VExc) and v.cls is XMLSchemaModelError

    def edc(kind, v, s): return z3.Implies(inconsistent, z3.BoolVal(is_err(kind, v)))

    def quiet(kind, v, s):
        ok = z3.And(z3.Not(inconsistent), z3.Or(same, z3.Not(overlap), z3.And(dist, z3.Or(z3.Not(same_parent), parent_none))))
        return z3.Implies(ok, z3.BoolVal(kind in ('continue', 'fall') and not s.ghost['prec']))

    def precedence(kind, v, s):
        wild_vs_elem = z3.Or(z3.And(pe11, z3.Not(e_any)), z3.And(e11, z3.Not(pe_any)))
        return z3.Implies(z3.And(z3.Not(inconsistent), wild_vs_elem), z3.BoolVal(not is_err(kind, v)))

    def only_model_errors(kind, v, s): return z3.BoolVal(kind in ('continue', 'fall') or is_err(kind, v))
    run.post(ex, outs, pre, {'inconsistent-pair-always-a-model-error': edc, 'consistent-and-separable-pair-passes-silently': quiet,
                             'xsd11-wildcard-vs-element-is-never-an-error': precedence, 'ends-in-continue-or-model-error': only_model_errors})


# ------------------------------------------------------------------ Xsd11Element.is_overlap / XsdElement.is_overlap against another element (C15)
def mk_overlap(cls, shared_members):
    t = Target(f'elements.{cls}.is_overlap.element_vs_element', ['C15'], 'xmlschema/validators/elements.py', f'{cls}.is_overlap',
               note='two element particles overlap exactly when some child can be attributed to both: the sets {name} + names of the (transitive) substitutes of the two declarations '
                    'intersect' + ('' if shared_members else ' (XSD 1.0: a member has one head, so two unrelated heads never share a member; the relation is decided through '
                    'head-contains-member in either direction)'),
               assumes=['iter_substitutes() is the set of names of the transitive substitutes (uninterpreted set of strings per declaration); the other particle is an element (the '
                        'wildcard branch is covered by the wildcard contracts)', 'a declaration is never its own substitute'])

    @t.symbolic
    def _(run):
        ex = run.exec(); st = new_state()
        sn, on = z3.String('self_name'), z3.String('other_name')
        ss, so = z3.Const('subs_self', z3.ArraySort(S, B)), z3.Const('subs_other', z3.ArraySort(S, B))
        direct_so = z3.Bool('other_substitution_group_is_self'); direct_os = z3.Bool('self_substitution_group_is_other')
        st.objf['self'] = {'name': VStr(sn), 'substitution_group': VOpt(z3.Bool('self_sg_none'), VStr(z3.If(direct_os, on, SV('{urn:x}unrelated1'))))}
        st.objf['other'] = {'name': VStr(on), 'substitution_group': VOpt(z3.Bool('other_sg_none'), VStr(z3.If(direct_so, sn, SV('{urn:x}unrelated2'))))}
        st.env.update(self=VObj('self'), other=VObj('other'))
        ex.callees['isinstance'] = lambda e, s, r, a, k: VBool(z3.BoolVal(ast.unparse(a[1]) == 'XsdElement'))
        ex.names.update(XsdElement=OPAQUE, XsdAnyElement=OPAQUE)
        orig_call, orig_attr = ex.e_Call, ex.e_Attribute

        def e_Call(e, s):
            src = ast.unparse(e)
            if isinstance(e.func, ast.Name) and e.func.id == 'any' and len(e.args) == 1 and isinstance(e.args[0], ast.GeneratorExp):
                inner = ast.unparse(e.args[0]); inner = inner[1:-1] if inner.startswith('(') else inner
                if inner == 'self.name == x.name for x in other.iter_substitutes()': return VBool(so[sn])
                if inner == 'other.name == x.name for x in self.iter_substitutes()': return VBool(ss[on])
                if inner == 'x is e for x in other.iter_substitutes()': return VBool(so[s.env['e'].t])
                raise Unsupported('generator expression not in the contract: ' + inner)
            return orig_call(e, s)
        ex.e_Call = e_Call
        ex.e_Attribute = lambda e, s: s.env['e'] if ast.unparse(e) == 'e.name' else orig_attr(e, s)
        q = z3.Const('q', S)

        def loop(ex_, node, s):
            inv = lambda s2, seen: z3.ForAll([q], z3.Implies(seen[q], z3.And(q != on, z3.Not(so[q]))))
            def bind(sb, x): sb.env['e'] = VStr(x)
            return foreach(ex_, node, s, S, ss, bind, inv, lambda s2: None)
        ex.invariants['for e in self.iter_substitutes()'] = loop
        # a declaration is not its own substitute; the direct relation is part of the transitive one
        pre = z3.And(z3.Not(ss[sn]), z3.Not(so[on]), z3.Implies(z3.And(direct_so, z3.Not(z3.Bool('other_sg_none'))), ss[on]), z3.Implies(z3.And(direct_os, z3.Not(z3.Bool('self_sg_none'))), so[sn]),
                     sn != SV('{urn:x}unrelated2'), on != SV('{urn:x}unrelated1'))
        run.inputs.update(self_name=sn, other_name=on)
        outs = ex.run(st, pre)
        shared = z3.Exists([q], z3.And(ss[q], so[q]))
        spec = z3.Or(sn == on, so[sn], ss[on], shared) if shared_members else z3.Or(sn == on, so[sn], ss[on])
        run.post(ex, outs, pre, {'overlap-iff-the-name-sets-intersect': lambda kind, v, s: (v.t == spec) if kind == 'return' and isinstance(v, VBool) else z3.BoolVal(False)})
    return t


mk_overlap('Xsd11Element', True); mk_overlap('XsdElement', False)
