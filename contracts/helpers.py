"""Contracts on xmlschema/validators/helpers.py: range validators of the integer built-ins and the
boolean codec (C02).  Ranges are written here from XSD Part 2 3.3.13-3.4.25, not read from the code."""
import z3
from pyvc.core import Target
from pyvc.se import *

F = 'xmlschema/validators/helpers.py'

RANGES = {   # validator -> (lo, hi) inclusive, None = unbounded  (XSD Datatypes 3.4.x)
    'byte_validator': (-128, 127), 'short_validator': (-32768, 32767),
    'int_validator': (-2147483648, 2147483647), 'long_validator': (-9223372036854775808, 9223372036854775807),
    'unsigned_byte_validator': (0, 255), 'unsigned_short_validator': (0, 65535),
    'unsigned_int_validator': (0, 4294967295), 'unsigned_long_validator': (0, 18446744073709551615),
    'negative_int_validator': (None, -1), 'positive_int_validator': (1, None),
    'non_positive_int_validator': (None, 0), 'non_negative_int_validator': (0, None),
}


def in_range(v, lo, hi):
    return (lo is None or v >= lo) and (hi is None or v <= hi)


def mk_range(fn, lo, hi):
    t = Target(f'helpers.{fn}', ['C02'], F, fn,
               note=f'returns normally <=> value in [{lo}, {hi}]; otherwise raises XMLSchemaValidationError and nothing else')

    @t.symbolic
    def _(run):
        import xmlschema.validators.helpers as H
        from xmlschema.validators.exceptions import XMLSchemaValidationError
        ex = run.exec(); st = new_state(); v = z3.Int('value'); st.env['value'] = VInt(v)
        for n in dir(H):
            if n.endswith('_validator'): ex.names[n] = OPAQUE
        run.inputs['value'] = v
        pre = z3.BoolVal(True)
        outs = ex.run(st, pre)
        inr = z3.And(v >= lo if lo is not None else True, v <= hi if hi is not None else True)

        def post(kind, val, s):
            if kind == 'raise':
                return z3.And(z3.Not(inr), z3.BoolVal(isinstance(val, VExc) and val.cls is not None and issubclass(val.cls, XMLSchemaValidationError)))
            return inr
        run.post(ex, outs, pre, {'returns-iff-in-range': post})

    @t.concrete
    def _(inp):
        import xmlschema.validators.helpers as H
        from xmlschema.validators.exceptions import XMLSchemaValidationError
        try:
            getattr(H, fn)(inp['value']); got = 'returns'
        except XMLSchemaValidationError:
            got = 'raises XMLSchemaValidationError'
        except Exception as e:
            return dict(ok=False, observed=f'raised {type(e).__name__}', required='XMLSchemaValidationError or return')
        want = 'returns' if in_range(inp['value'], lo, hi) else 'raises XMLSchemaValidationError'
        return dict(ok=got == want, observed=got, required=want)

    @t.scope
    def _(tier, rng):
        pts = {0, 1, -1}
        for b in (lo, hi):
            if b is not None: pts |= {b - 1, b, b + 1}
        for p in sorted(pts): yield {'value': p}
        for _ in range(20): yield {'value': rng.randint(-2 ** 70, 2 ** 70)}


for _fn, (_lo, _hi) in RANGES.items():
    mk_range(_fn, _lo, _hi)


# ---- boolean codec.  XSD Part 2 3.2.2.1: lexical space {true, false, 1, 0}
BOOL_LEX = {'true': True, '1': True, 'false': False, '0': False}


def table_cell(st):
    import xmlschema.validators.helpers as H
    dom = z3.K(S, False); val = z3.K(S, False)
    for k, v in H.XSD_BOOLEAN_MAP.items():        # the table the code really uses, read on every run
        dom = z3.Store(dom, SV(k), True); val = z3.Store(val, SV(k), bool(v))
    c = st.alloc(kind='dict', dom=dom, val=val, ksort=S, default=None, wrap=lambda t: VBool(t))
    return VDict(c)


t = Target('helpers.boolean_to_python', ['C02'], F, 'boolean_to_python',
           note="result = True for 'true'/'1', False for 'false'/'0'; every other string raises XMLSchemaValueError (library error)")


@t.symbolic
def _(run):
    from xmlschema.exceptions import XMLSchemaValueError
    ex = run.exec(); st = new_state(); v = z3.String('value'); st.env['value'] = VStr(v)
    ex.names['XSD_BOOLEAN_MAP'] = table_cell(st); run.inputs['value'] = v
    pre = z3.BoolVal(True); outs = ex.run(st, pre)
    is_true = z3.Or(v == SV('true'), v == SV('1')); is_false = z3.Or(v == SV('false'), v == SV('0'))

    def post(kind, val, s):
        if kind == 'raise':
            return z3.And(z3.Not(is_true), z3.Not(is_false), z3.BoolVal(isinstance(val, VExc) and val.cls is not None and issubclass(val.cls, XMLSchemaValueError)))
        return z3.And(z3.Or(is_true, is_false), val.t == is_true) if isinstance(val, VBool) else z3.BoolVal(False)
    run.post(ex, outs, pre, {'decodes-exactly-the-xsd-boolean-lexical-space': post})


@t.concrete
def _(inp):
    import xmlschema.validators.helpers as H
    from xmlschema.exceptions import XMLSchemaValueError
    v = inp['value']
    try: got = H.boolean_to_python(v)
    except XMLSchemaValueError: got = 'XMLSchemaValueError'
    except Exception as e: got = f'raised {type(e).__name__}'
    want = BOOL_LEX.get(v, 'XMLSchemaValueError')
    return dict(ok=got is want or got == want and not isinstance(want, bool), observed=got, required=want)


@t.scope
def _(tier, rng):
    for v in ['true', 'false', '1', '0', 'True', 'FALSE', 'yes', 'no', '', ' true', 'true ', '01', '2', 't', '１', 'on', 'off', 'y', 'n']:
        yield {'value': v}


t = Target('helpers.python_to_boolean', ['C02', 'C05'], F, 'python_to_boolean',
           note="str input: returned unchanged iff in the boolean lexical space else XMLSchemaValueError; bool input: 'true'/'false'")


@t.symbolic
def _(run):
    from xmlschema.exceptions import XMLSchemaValueError
    # (a) string argument
    ex = run.exec(); st = new_state(); v = z3.String('value'); st.env['value'] = VStr(v)
    ex.names['XSD_BOOLEAN_MAP'] = table_cell(st); ex.names['str'] = OPAQUE; run.inputs['value'] = v
    ex.callees['isinstance'] = lambda e, s, r, a, k: VBool(z3.BoolVal(isinstance(a[0], VStr)))
    pre = z3.BoolVal(True); outs = ex.run(st, pre)
    lex = z3.Or(*[v == SV(k) for k in BOOL_LEX])

    def post(kind, val, s):
        if kind == 'raise': return z3.And(z3.Not(lex), z3.BoolVal(isinstance(val, VExc) and val.cls is not None and issubclass(val.cls, XMLSchemaValueError)))
        return z3.And(lex, val.t == v) if isinstance(val, VStr) else z3.BoolVal(False)
    run.post(ex, outs, pre, {'str-passes-iff-lexical': post})
    # (b) bool argument: str(value).lower() with str(True) = 'True' (A-STR)
    ex = run.exec(); st = new_state(); b = z3.Bool('bvalue'); st.env['value'] = VBool(b); ex.names['str'] = OPAQUE; ex.names['XSD_BOOLEAN_MAP'] = table_cell(st)
    ex.callees['isinstance'] = lambda e, s, r, a, k: VBool(z3.BoolVal(isinstance(a[0], VStr)))
    ex.callees['str'] = lambda e, s, r, a, k: VStr(z3.If(a[0].t, SV('True'), SV('False')))
    ex.callees['lower'] = lambda e, s, recv, a, k: VStr(z3.If(recv.t == SV('True'), SV('true'), z3.If(recv.t == SV('False'), SV('false'), recv.t)))
    outs = ex.run(st, pre)
    run.post(ex, outs, pre, {'bool-encodes-to-true-false': lambda kind, val, s: (val.t == z3.If(b, SV('true'), SV('false'))) if kind == 'return' and isinstance(val, VStr) else z3.BoolVal(False)})
    # (c) round trip lemma over the two contracts
    run.vc('roundtrip-boolean_to_python(python_to_boolean(b))=b', pre, [], z3.And(*[z3.BoolVal(BOOL_LEX['true' if bb else 'false'] is bb) for bb in (True, False)]))


@t.concrete
def _(inp):
    import xmlschema.validators.helpers as H
    from xmlschema.exceptions import XMLSchemaValueError
    v = inp['value']
    try: got = H.python_to_boolean(v)
    except XMLSchemaValueError: got = 'XMLSchemaValueError'
    if isinstance(v, bool):
        want = 'true' if v else 'false'
        ok = got == want and H.boolean_to_python(got) is v
    else:
        want = v if v in BOOL_LEX else 'XMLSchemaValueError'; ok = got == want
    return dict(ok=ok, observed=got, required=want)


@t.scope
def _(tier, rng):
    for v in [True, False, 'true', 'false', '1', '0', 'True', 'yes', '', 'TRUE']: yield {'value': v}
