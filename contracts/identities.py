"""Contracts on validators/identities.py: identity counters (C08)."""
import z3
from collections import Counter
from pyvc.core import Target
from pyvc.se import *

F = 'xmlschema/validators/identities.py'
K = z3.DeclareSort('Tuple')                       # field tuples, abstract
has_none = z3.Function('has_none', K, B); len_of = z3.Function('len_of', K, I); first = z3.Function('first', K, K)


def mk_increase(cls, raises):
    t = Target(f'identities.{cls}.increase', ['C08'], F, f'{cls}.increase',
               note='counter[fields] += 1, every other key unchanged; ' + ('raises XMLSchemaValueError exactly when the new count is 2 '
                    '(so a tuple selected k >= 2 times produces exactly one duplicate error)' if raises else 'never raises'))

    @t.symbolic
    def _(run):
        import xmlschema.exceptions as xe
        ex = run.exec(); st = new_state()
        cnt0 = z3.Const('cnt0', z3.ArraySort(K, I)); f = z3.Const('fields', K)
        cell = st.alloc(kind='dict', dom=z3.K(K, True), val=cnt0, ksort=K, default=0, wrap=lambda t_: VInt(t_))
        st.objf['self'] = {'counter': VDict(cell), 'identity': OPAQUE}
        st.env.update(self=VObj('self'), fields=VRef(f)); ex.key = lambda v, o=ex.key: v.t if isinstance(v, VRef) else o(v)
        k0 = z3.Const('k0', K)
        pre = z3.ForAll([k0], cnt0[k0] >= 0)
        run.inputs['count_before'] = cnt0[f]
        outs = ex.run(st, pre)

        def post(kind, v, s):
            val = s.heap[cell]['val']; k = z3.Const('kk', K)
            upd = z3.And(val[f] == cnt0[f] + 1, z3.ForAll([k], z3.Implies(k != f, val[k] == cnt0[k])))
            if kind == 'raise':
                if not raises: return z3.BoolVal(False)
                return z3.And(upd, val[f] == 2, z3.BoolVal(isinstance(v, VExc) and v.cls is not None and issubclass(v.cls, xe.XMLSchemaValueError)))
            return z3.And(upd, val[f] != 2) if raises else upd
        run.post(ex, outs, pre, {'count-incremented-and-duplicate-reported-once': post})

    @t.concrete
    def _(inp):
        import xmlschema.validators.identities as I_, xmlschema.exceptions as xe
        c = object.__new__(getattr(I_, cls)); c.counter = Counter({('a', 1): inp['count_before'], ('b',): 1}); c.identity = 'K'
        try: c.increase(('a', 1)); got = 'returns'
        except xe.XMLSchemaValueError: got = 'raises'
        want = 'raises' if raises and inp['count_before'] + 1 == 2 else 'returns'
        ok = got == want and c.counter[('a', 1)] == inp['count_before'] + 1 and c.counter[('b',)] == 1 and len(c.counter) == 2
        return dict(ok=ok, observed=(got, dict(c.counter)), required=want)

    t.scope(lambda tier, rng: [dict(count_before=n) for n in range(0, 5)])


mk_increase('IdentityCounter', True)
mk_increase('KeyrefCounter', False)


t = Target('identities.IdentityCounter.reset', ['C08', 'C10'], F, 'IdentityCounter.reset',
           note='counter emptied, enabled again, element rebound, recorded elements dropped')


@t.symbolic
def _(run):
    ex = run.exec(); st = new_state()
    cell = st.alloc(kind='dict', dom=z3.Const('dom0', z3.ArraySort(K, B)), val=z3.Const('cnt0', z3.ArraySort(K, I)), ksort=K, default=0, wrap=lambda t_: VInt(t_))
    st.objf['self'] = {'counter': VDict(cell), 'elem': OPAQUE, 'enabled': VBool(z3.Bool('en0')), 'elements': VOpt(z3.Bool('el_none'), VStr(z3.String('els')))}
    e = z3.Const('elem', Ref); st.env.update(self=VObj('self'), elem=VRef(e))
    pre = z3.BoolVal(True); outs = ex.run(st, pre)

    def post(kind, v, s):
        f = s.objf['self']
        return z3.And(z3.Not(nonempty_arr(s.heap[cell]['dom'], K)), f['enabled'].t, z3.BoolVal(isinstance(f['elem'], VRef)), f['elem'].t == e if isinstance(f['elem'], VRef) else False,
                      f['elements'].none if isinstance(f['elements'], VOpt) else z3.BoolVal(isinstance(f['elements'], VNone)))
    run.post(ex, outs, pre, {'state-reset': post})


# ------------------------------------------------------------------ KeyrefCounter.iter_errors
t = Target('identities.KeyrefCounter.iter_errors', ['C08'], F, 'KeyrefCounter.iter_errors',
           note='yields an error for a key-reference tuple v <=> v was counted, v is not a tuple of the referred key and every field of v is '
                'present (qualified node set); an unbuilt keyref yields nothing; at most one error per tuple; modifies nothing',
           assumes=['field values are atomic: a single-field tuple whose only item is itself a key of the referred table does not occur'])


@t.symbolic
def _(run):
    ex = run.exec(); st = new_state()
    cnt = z3.Const('cnt', z3.ArraySort(K, I)); dom = z3.Const('dom', z3.ArraySort(K, B))
    rdom = z3.Const('rdom', z3.ArraySort(K, B)); rcnt = z3.Const('rcnt', z3.ArraySort(K, I))
    c_self = st.alloc(kind='dict', dom=dom, val=cnt, ksort=K, default=0, wrap=lambda t_: VInt(t_))
    c_ref = st.alloc(kind='dict', dom=rdom, val=rcnt, ksort=K, default=0, wrap=lambda t_: VInt(t_))
    st.objf['refer_counter'] = {'counter': VDict(c_ref)}
    st.objf['self'] = {'refer': VOpt(z3.Bool('refer_none'), VObj('refer')), 'counter': VDict(c_self), 'identity': VObj('identity')}
    st.objf['refer'] = {}; st.objf['identity'] = {'refer': OPAQUE}
    st.env.update(self=VObj('self'), identities=VFunc(lambda ex_, s, r, a, k: VObj('refer_counter')))
    flagged0 = z3.K(K, False); st.ghost['flagged'] = flagged0; st.ghost['cur'] = None; st.ghost['dup'] = z3.BoolVal(False)
    ex.key = lambda v, o=ex.key: v.t if isinstance(v, VRef) else o(v)

    def do_yield(v, s):
        s.ghost['dup'] = z3.Or(s.ghost['dup'], s.ghost['flagged'][s.ghost['cur']])
        s.ghost['flagged'] = z3.Store(s.ghost['flagged'], s.ghost['cur'], True); return [('fall', None, s)]
    ex.do_yield = do_yield
    orig_call, orig_sub, orig_gen = ex.e_Call, ex.e_Subscript, ex.genexp

    def e_Call(e, s):
        if isinstance(e.func, ast.Name) and e.func.id == 'len':
            v = ex.ev(e.args[0], s)
            if isinstance(v, VRef): return VInt(len_of(v.t))
        return orig_call(e, s)
    ex.e_Call = e_Call

    def e_Subscript(e, s):
        o = ex.ev(e.value, s)
        if isinstance(o, VRef) and isinstance(e.slice, ast.Constant) and e.slice.value == 0: return VRef(first(o.t))
        return orig_sub(e, s)
    ex.e_Subscript = e_Subscript

    def genexp(g, s, quant):
        it = ex.ev(g.generators[0].iter, s)
        if isinstance(it, VRef) and quant == 'any' and ast.unparse(g.elt) == f'{g.generators[0].target.id} is None' and not g.generators[0].ifs:
            return VBool(has_none(it.t))          # definition of has_none: some item of the tuple is None
        return orig_gen(g, s, quant)
    ex.genexp = genexp
    q = z3.Const('q', K)
    should_flag = lambda v: z3.And(dom[v], z3.Not(rdom[v]), z3.Not(has_none(v)))

    def inv(s, seen):
        return z3.And(z3.ForAll([q], s.ghost['flagged'][q] == z3.And(seen[q], should_flag(q))), z3.Not(s.ghost['dup']))

    def havoc(s): s.ghost['flagged'] = z3.FreshConst(z3.ArraySort(K, B), 'flagged'); s.ghost['dup'] = z3.FreshConst(B, 'dup')

    def loop(ex_, node, s):
        member = z3.Lambda([q], z3.And(dom[q], z3.Not(rdom[q])))

        def bind(sb, x): sb.env['v'] = VRef(x); sb.ghost['cur'] = x
        return foreach(ex_, node, s, K, member, bind, inv, havoc)
    ex.invariants['for v in filter(lambda x: x not in refer_values, self.counter)'] = loop
    pre = z3.And(z3.ForAll([q], z3.And(cnt[q] >= 0, z3.Implies(dom[q], cnt[q] >= 1), len_of(q) >= 1)),
                 z3.ForAll([q], z3.Not(rdom[first(q)])))       # atomic field values (assumption listed)
    outs = ex.run(st, pre)

    def post(kind, v, s):
        if kind not in ('fall', 'return'): return z3.BoolVal(False)
        return z3.If(z3.Bool('refer_none'), s.ghost['flagged'] == flagged0,
                     z3.And(z3.ForAll([q], s.ghost['flagged'][q] == should_flag(q)), z3.Not(s.ghost['dup'])))
    frame = lambda kind, v, s: z3.And(s.heap[c_self]['dom'] == dom, s.heap[c_self]['val'] == cnt, s.heap[c_ref]['dom'] == rdom)
    run.post(ex, outs, pre, {'errors-exactly-for-complete-dangling-tuples': post, 'frame-counters-unchanged': frame})


@t.concrete
def _(inp):
    import xmlschema.validators.identities as I_
    k = object.__new__(I_.KeyrefCounter); k.counter = Counter({tuple(v): n for v, n in inp['refs']}); k.identity = type('X', (), {'refer': 'K'})()
    ref = object.__new__(I_.IdentityCounter); ref.counter = Counter({tuple(v): 1 for v in inp['keys']})
    k.refer = None if inp.get('unbuilt') else 'K'
    errs = list(k.iter_errors({'K': ref}))
    want = 0 if inp.get('unbuilt') else sum(1 for v, n in inp['refs'] if tuple(v) not in ref.counter and None not in v)
    return dict(ok=len(errs) == want, observed=len(errs), required=want)


@t.scope
def _(tier, rng):
    keys = [[1, 2], [3, 4]]
    pool = [[1, 2], [3, 4], [1, None], [None, None], [9, 9], [1, 4], [None, 2]]
    import itertools
    for r in range(0, 4):
        for c in itertools.combinations(pool, r):
            yield dict(keys=keys, refs=[(v, 1 + (i % 2)) for i, v in enumerate(c)])
    yield dict(keys=keys, refs=[([9, 9], 1)], unbuilt=True)


# ------------------------------------------------------------------ the ID / IDREF block of XsdAtomicBuiltin.raw_decode (statement contract)
t = Target('simple_types.raw_decode.id_idref_block', ['C08'], 'xmlschema/validators/simple_types.py', 'XsdAtomicBuiltin.raw_decode', anchor='if self.name == nm.XSD_QNAME:',
           note="statement contract for non-QName types: an IDREF registers its value with count 0 when unseen and never raises an error; an ID (level > 0) is a "
                "duplicate exactly when the value was registered as an ID before (count >= 1) - an earlier IDREF to the same value does not make it one; "
                "without check_identities or at level 0 nothing is recorded. XSD 1.1 allows the same ID value twice on one element (id_list)",
           assumes=['id_map is a Counter: absent keys count 0'])


@t.symbolic
def _(run):
    ex = run.exec(); st = new_state()
    dom = z3.Const('id_dom', z3.ArraySort(S, B)); val = z3.Const('id_val', z3.ArraySort(S, I)); obj = z3.String('obj')
    c_map = st.alloc(kind='dict', dom=dom, val=val, ksort=S, default=0, wrap=lambda t_: VInt(t_))
    idl0 = z3.Const('id_list0', z3.SeqSort(S)); c_list = st.alloc(kind='list', seq=idl0, esort=S)
    name = z3.String('type_name'); ver = z3.String('ver'); level = z3.Int('level'); chk = z3.Bool('check_identities'); lnone = z3.Bool('id_list_none')
    st.objf['context'] = {'check_identities': VBool(chk), 'id_map': VDict(c_map), 'level': VInt(level), 'id_list': VOpt(lnone, VList(c_list)), 'converter': OPAQUE, 'namespaces': OPAQUE}
    st.objf['self'] = {'name': VStr(name), 'xsd_version': VStr(ver)}
    st.env.update(self=VObj('self'), context=VObj('context'), obj=VStr(obj), validation=VStr(z3.String('validation')), result=OPAQUE)
    ex.names[('nm', 'XSD_QNAME')] = VStr(SV('{xs}QName')); ex.names[('nm', 'XSD_IDREF')] = VStr(SV('{xs}IDREF'))
    st.ghost['errs'] = 0

    def verr(e, s, r, a, k): s.ghost['errs'] += 1; return NONE
    ex.callees['validation_error'] = verr
    ex.callees['_'] = lambda *a: OPAQUE; ex.callees['format'] = lambda *a: OPAQUE
    # method calls on the Optional id_list: unwrap (guarded by the code's own `is None` test)
    orig_call = ex.e_Call

    def e_Call(e, s):
        if isinstance(e.func, ast.Attribute) and ast.unparse(e.func.value) == 'context.id_list' and e.func.attr == 'append':
            h = s.heap[c_list]; h['seq'] = z3.Concat(h['seq'], z3.Unit(lift(ex.ev(e.args[0], s)).t)); return NONE
        if isinstance(e.func, ast.Name) and e.func.id == 'len' and ast.unparse(e.args[0]) == 'context.id_list': return VInt(z3.Length(s.heap[c_list]['seq']))
        return orig_call(e, s)
    ex.e_Call = e_Call
    orig_cmp = ex.cmp

    def cmp(op, l_, r_, s):
        if isinstance(op, (ast.In, ast.NotIn)) and isinstance(r_, VOpt) and isinstance(r_.val, VList):
            res = z3.Contains(s.heap[c_list]['seq'], z3.Unit(lift(l_).t)); return res if isinstance(op, ast.In) else z3.Not(res)
        return orig_cmp(op, l_, r_, s)
    ex.cmp = cmp
    k = z3.Const('k', S)
    pre = z3.And(name != SV('{xs}QName'), z3.ForAll([k], z3.And(val[k] >= 0, z3.Implies(z3.Not(dom[k]), val[k] == 0))), level >= 0,
                 z3.Or(ver == SV('1.0'), ver == SV('1.1')))
    run.inputs.update(is_idref=(name == SV('{xs}IDREF')), count_before=val[obj], registered_before=dom[obj], level=level, check_identities=chk, id_list_none=lnone,
                      in_id_list=z3.Contains(idl0, z3.Unit(obj)), id_list_len=z3.Length(idl0), ver=ver)
    outs = ex.run(st, pre)
    is_ref = name == SV('{xs}IDREF'); seen = val[obj] >= 1
    active = z3.And(chk, z3.Or(is_ref, level > 0))

    def maps(kind, v, s):
        if kind != 'fall': return z3.BoolVal(False)
        d2, v2 = s.heap[c_map]['dom'], s.heap[c_map]['val']
        others = z3.ForAll([k], z3.Implies(k != obj, z3.And(d2[k] == dom[k], v2[k] == val[k])))
        mine = z3.If(z3.Not(active), z3.And(d2[obj] == dom[obj], v2[obj] == val[obj]),
                     z3.If(is_ref, z3.And(d2[obj], v2[obj] == val[obj]),
                           z3.If(seen, v2[obj] == val[obj], z3.And(d2[obj], v2[obj] == 1))))
        return z3.And(others, mine)

    def errors(kind, v, s):
        if kind != 'fall': return z3.BoolVal(False)
        n = s.ghost['errs']
        want = z3.If(z3.Or(z3.Not(active), is_ref), 0,
                     z3.If(lnone, z3.If(seen, 1, 0),
                           z3.If(seen, z3.If(z3.Or(z3.Not(z3.Contains(idl0, z3.Unit(obj))), ver == SV('1.0')), 1, 0),
                                 z3.If(z3.And(z3.Length(idl0) + 1 > 1, ver == SV('1.0')), 1, 0))))
        return z3.IntVal(n) == want
    run.post(ex, outs, pre, {'id-map-updated-by-the-id-idref-rules': maps, 'duplicate-error-iff-registered-as-id-before': errors})


@t.concrete
def _(inp):
    import xmlschema
    XS = 'xmlns:xs="http://www.w3.org/2001/XMLSchema"'
    if not inp['check_identities'] or inp['level'] == 0 or not inp['id_list_none'] and inp['ver'] == '1.0' and False: return dict(ok=True, observed='not replayed', required=None)
    cls = xmlschema.XMLSchema11 if inp['ver'] == '1.1' else xmlschema.XMLSchema10
    s = cls(f'<xs:schema {XS}><xs:element name="r"><xs:complexType><xs:sequence><xs:element name="n" maxOccurs="unbounded"><xs:complexType>'
            f'<xs:attribute name="id" type="xs:ID"/><xs:attribute name="ref" type="xs:IDREF"/></xs:complexType></xs:element></xs:sequence></xs:complexType></xs:element></xs:schema>')
    before = ('<n ref="v"/>' if inp['registered_before'] and inp['count_before'] == 0 else '') + ('<n id="v"/>' if inp['count_before'] >= 1 else '')
    this = '<n ref="v"/>' if inp['is_idref'] else '<n id="v"/>'
    closing = '' if (inp['count_before'] >= 1 or not inp['is_idref']) else '<n id="v"/>'      # keep every IDREF resolvable so that only duplicate errors remain
    doc = f'<r>{before}{this}{closing}</r>'
    errs = [e.reason for e in s.iter_errors(doc)]
    dup = [e for e in errs if 'duplicated' in e]
    want = 0 if inp['is_idref'] else (1 if inp['count_before'] >= 1 else 0)
    return dict(ok=len(dup) == want, observed=errs, required=f'{want} duplicate error(s)', doc=doc)


@t.scope
def _(tier, rng):
    for ver in ('1.0', '1.1'):
        for is_ref in (True, False):
            for cb, rb in ((0, False), (0, True), (1, True)):
                yield dict(is_idref=is_ref, count_before=cb, registered_before=rb, level=1, check_identities=True, id_list_none=False, in_id_list=False, id_list_len=0, ver=ver)


# ------------------------------------------------------------------ XMLSchemaBase._validate_references: the end-of-document checks (C08, C04)
t = Target('schemas._validate_references', ['C08', 'C04'], 'xmlschema/validators/schemas.py', 'XMLSchemaBase._validate_references',
           note='exactly one "IDREF not found" error per value registered with count 0 (an IDREF without its ID) and none for the others; the key references that are '
                'still enabled are checked - iter_errors of exactly the enabled keyref counters is consumed, against the whole identities map - and every error it '
                'yields is forwarded; nothing in the ID map is changed',
           assumes=['id_map is a Counter (values are counts); KeyrefCounter.iter_errors is under its own contract; the error objects are opaque'])


@t.symbolic
def _(run):
    ex = run.exec(); st = new_state()
    dom = z3.Const('id_dom', z3.ArraySort(S, B)); val = z3.Const('id_val', z3.ArraySort(S, I))
    idom = z3.Const('identities_dom', z3.ArraySort(Ref, B)); enabled = z3.Function('counter_enabled', Ref, B); is_keyref = z3.Function('is_keyref', Ref, B)
    c_map = st.alloc(kind='dict', dom=dom, val=val, ksort=S, default=0, wrap=lambda t_: VInt(t_))
    st.objf['source'] = {'root': OPAQUE}
    st.objf['context'] = {'id_map': VDict(c_map), 'identities': ('identities',), 'source': VObj('source')}
    st.env.update(self=OPAQUE, validation=VStr(z3.String('validation')), context=VObj('context'))
    flagged0 = z3.K(S, False); checked0 = z3.K(Ref, False)
    st.ghost.update(flagged=flagged0, dup=z3.BoolVal(False), checked=checked0, phase=0, cur=None, forwarded=z3.BoolVal(True), against_all=z3.BoolVal(True))
    ex.callees['validation_error'] = lambda e, s, r, a, k: OPAQUE
    ex.callees['_'] = lambda *a: OPAQUE
    ex.callees['cast'] = lambda e, s, r, a, k: a[1]
    ex.names.update(KeyrefCounter=OPAQUE, XsdKeyref=OPAQUE)
    orig_binop = ex.e_BinOp
    ex.e_BinOp = lambda e, s: OPAQUE if isinstance(e.op, ast.Mod) else orig_binop(e, s)

    def isinstance_(e, s, r, a, k):
        if isinstance(a[0], VRef) and ast.unparse(a[1]) == 'XsdKeyref': return VBool(is_keyref(a[0].t))
        raise Unsupported('isinstance ' + ast.unparse(a[1]))
    ex.callees['isinstance'] = isinstance_

    def do_yield(v, s):
        if s.ghost['phase'] == 1:
            s.ghost['dup'] = z3.Or(s.ghost['dup'], s.ghost['flagged'][s.ghost['cur']]); s.ghost['flagged'] = z3.Store(s.ghost['flagged'], s.ghost['cur'], True)
        return [('fall', None, s)]
    ex.do_yield = do_yield
    q = z3.Const('q', S); r_ = z3.Const('r', Ref)

    def loop1(ex_, node, s):
        s.ghost['phase'] = 1
        inv = lambda s2, seen: z3.And(z3.ForAll([q], s2.ghost['flagged'][q] == z3.And(seen[q], val[q] == 0)), z3.Not(s2.ghost['dup']))
        def havoc(s2): s2.ghost['flagged'] = z3.FreshConst(z3.ArraySort(S, B), 'flagged'); s2.ghost['dup'] = z3.FreshConst(B, 'dup')
        def bind(sb, x): sb.env['k'] = VStr(x); sb.env['v'] = VInt(val[x]); sb.ghost['cur'] = x
        outs = foreach(ex_, node, s, S, dom, bind, inv, havoc)
        for _, _, s2 in outs: s2.ghost['phase'] = 2
        return outs
    ex.invariants['for (k, v) in context.id_map.items()'] = loop1

    def loop2(ex_, node, s):
        inv = lambda s2, seen: z3.And(z3.ForAll([r_], s2.ghost['checked'][r_] == z3.And(seen[r_], enabled(r_), is_keyref(r_))), s2.ghost['forwarded'], s2.ghost['against_all'])
        def havoc(s2): s2.ghost['checked'] = z3.FreshConst(z3.ArraySort(Ref, B), 'checked')
        def bind(sb, x):
            sb.env['identity'] = VRef(x); sb.objf['counter'] = {'enabled': VBool(enabled(x))}; sb.env['counter'] = VObj('counter'); sb.ghost['cur'] = x
        return foreach(ex_, node, s, Ref, idom, bind, inv, havoc)
    ex.invariants['for (identity, counter) in context.identities.items()'] = loop2

    def loop3(ex_, node, s):
        # one pass over the errors of the current keyref counter: the body must yield (forward) the error on every path
        if ast.unparse(node.iter) != 'cast(KeyrefCounter, counter).iter_errors(context.identities)':
            s.ghost['against_all'] = z3.BoolVal(False)
        s.ghost['checked'] = z3.Store(s.ghost['checked'], s.ghost['cur'], True)
        sb = s.fork(); sb.env[node.target.id] = OPAQUE; n0 = len(sb.ghost.get('yielded', []))
        sb.ghost['phase'] = 3; sb.ghost['n3'] = 0
        orig = ex.do_yield

        def y3(v, s3): s3.ghost['n3'] = s3.ghost.get('n3', 0) + 1; return [('fall', None, s3)]
        ex.do_yield = y3
        try:
            for kind, val_, s2 in ex_.block(node.body, sb):
                if kind not in ('fall', 'continue') or s2.ghost.get('n3', 0) != 1: s.ghost['forwarded'] = z3.BoolVal(False)
        finally: ex.do_yield = orig
        return [('fall', None, s)]
    ex.invariants['for error in cast(KeyrefCounter, counter).iter_errors(context.identities)'] = loop3
    pre = z3.ForAll([q], val[q] >= 0)
    outs = ex.run(st, pre)

    def idref(kind, v, s):
        if kind not in ('fall', 'return'): return z3.BoolVal(False)
        return z3.And(z3.ForAll([q], s.ghost['flagged'][q] == z3.And(dom[q], val[q] == 0)), z3.Not(s.ghost['dup']))

    def keyrefs(kind, v, s):
        if kind not in ('fall', 'return'): return z3.BoolVal(False)
        return z3.And(z3.ForAll([r_], s.ghost['checked'][r_] == z3.And(idom[r_], enabled(r_), is_keyref(r_))), s.ghost['forwarded'], s.ghost['against_all'])
    frame = lambda kind, v, s: z3.And(s.heap[c_map]['dom'] == dom, s.heap[c_map]['val'] == val)
    run.post(ex, outs, pre, {'one-error-per-unresolved-idref-and-no-other': idref, 'exactly-the-enabled-keyrefs-are-checked-and-their-errors-forwarded': keyrefs, 'frame-id-map-unchanged': frame})
