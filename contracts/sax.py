"""Contracts on resources/sax.py and the defuse part of XMLResource.open (C13)."""
import z3
from pyvc.core import Target
from pyvc.se import *

F = 'xmlschema/resources/sax.py'

t = Target('sax.SafeExpatParser.reset', ['C13'], F, 'SafeExpatParser.reset',
           note='after reset() the three expat handlers EntityDeclHandler, UnparsedEntityDeclHandler and ExternalEntityRefHandler are the forbid_* methods of the parser, the start / end of the '
                'DOCTYPE declaration are tracked (in_doctype starts False), and parameter-entity '
                'parsing is ALWAYS (expat then reports the external DTD subset to the handler also for standalone documents; UNLESS_STANDALONE / NEVER would silence it)',
           assumes=['pyexpat: XML_PARAM_ENTITY_PARSING_NEVER / UNLESS_STANDALONE / ALWAYS = 0 / 1 / 2; the external subset is reported through ExternalEntityRefHandler only when parameter-entity parsing applies'])


@t.symbolic
def _(run):
    ex = run.exec(); st = new_state()
    st.objf['parser'] = {}
    st.objf['self'] = {'_parser': VObj('parser'), 'forbid_entity_declaration': VStr(SV('forbid_entity_declaration')),
                       'forbid_unparsed_entity_declaration': VStr(SV('forbid_unparsed_entity_declaration')),
                       'forbid_external_entity_reference': VStr(SV('forbid_external_entity_reference')),
                       'start_doctype_declaration': VStr(SV('start_doctype_declaration')), 'end_doctype_declaration': VStr(SV('end_doctype_declaration')), 'in_doctype': VBool(z3.Bool('in_doctype_before'))}
    st.env['self'] = VObj('self')
    ex.callees['super'] = lambda e, s, r, a, k: VObj('super_'); st.objf['super_'] = {}
    ex.callees['reset'] = lambda e, s, r, a, k: NONE
    st.ghost['pe_mode'] = VInt(z3.IntVal(1))          # expatreader.ExpatParser.reset(): UNLESS_STANDALONE

    def set_pe(e, s, r, a, k): s.ghost['pe_mode'] = a[0]; return VInt(z3.IntVal(1))
    ex.callees['SetParamEntityParsing'] = set_pe
    for i, nme in enumerate(('NEVER', 'UNLESS_STANDALONE', 'ALWAYS')): ex.names[('expat', 'XML_PARAM_ENTITY_PARSING_' + nme)] = VInt(z3.IntVal(i))
    pre = z3.BoolVal(True); outs = ex.run(st, pre)
    want = {'EntityDeclHandler': 'forbid_entity_declaration', 'UnparsedEntityDeclHandler': 'forbid_unparsed_entity_declaration', 'ExternalEntityRefHandler': 'forbid_external_entity_reference'}

    def post(kind, v, s):
        f = s.objf['parser']
        return z3.And(*[(f[h].t == SV(m)) if isinstance(f.get(h), VStr) else z3.BoolVal(False) for h, m in want.items()])
    def doctype_tracked(kind, v, s):
        f = s.objf['parser']; me = s.objf['self']
        return z3.And((f['StartDoctypeDeclHandler'].t == SV('start_doctype_declaration')) if isinstance(f.get('StartDoctypeDeclHandler'), VStr) else z3.BoolVal(False),
                      (f['EndDoctypeDeclHandler'].t == SV('end_doctype_declaration')) if isinstance(f.get('EndDoctypeDeclHandler'), VStr) else z3.BoolVal(False),
                      z3.Not(me['in_doctype'].t) if isinstance(me.get('in_doctype'), VBool) else z3.BoolVal(False))
    run.post(ex, outs, pre, {'forbidding-handlers-installed': post, 'the-doctype-declaration-is-tracked-from-a-clean-state': doctype_tracked,
                             'external-subset-reported-also-for-standalone-documents': lambda kind, v, s: (s.ghost['pe_mode'].t == 2) if isinstance(s.ghost['pe_mode'], VInt) else z3.BoolVal(False)})


def mk_forbid(name):
    t = Target(f'sax.SafeExpatParser.{name}', ['C13'], F, f'SafeExpatParser.{name}', note='raises XMLResourceForbidden on every path')

    @t.symbolic
    def _(run):
        from xmlschema.exceptions import XMLResourceForbidden
        ex = run.exec(); st = new_state()
        for a in ex.fn.args.args: st.env[a.arg] = OPAQUE
        ex.e_JoinedStr = lambda e, s: OPAQUE
        pre = z3.BoolVal(True); outs = ex.run(st, pre)
        run.post(ex, outs, pre, {'always-raises-forbidden': lambda kind, v, s: z3.BoolVal(kind == 'raise' and isinstance(v, VExc) and v.cls is not None and issubclass(v.cls, XMLResourceForbidden))})


for _n in ('forbid_entity_declaration', 'forbid_unparsed_entity_declaration', 'forbid_external_entity_reference'):
    mk_forbid(_n)


t = Target('sax.defuse_xml.scan', ['C13'], F, 'defuse_xml', anchor='parser = SafeExpatParser()', anchor_end='$',
           note='the parser handed to pulldom.parse is a SafeExpatParser; the scan runs until the first START_ELEMENT (or a syntax error) and not shorter; a syntax error inside the DOCTYPE '
                'declaration is a refusal (XMLResourceForbidden): the declarations behind it were not seen; '
                'XMLResourceForbidden raised by a handler is not caught; with rewind the stream is repositioned to 0 on every normal path',
           assumes=['pulldom.parse yields events in document order and calls the handlers of the given parser (expat)', 'the XML grammar puts the DTD before the root start tag'])


@t.symbolic
def _(run):
    from xml.sax import SAXParseException
    from xmlschema.exceptions import XMLResourceForbidden, XMLResourceOSError
    ex = run.exec(); st = new_state()
    st.objf['fp'] = {}; st.env.update(fp=VObj('fp'), rewind=VBool(z3.Bool('rewind')))
    in_dtd = z3.Bool('syntax_error_inside_the_doctype_declaration')
    st.objf['safe_parser'] = {'in_doctype': VBool(in_dtd)}
    ex.callees['SafeExpatParser'] = lambda e, s, r, a, k: VObj('safe_parser')
    ex.names[('pulldom', 'START_ELEMENT')] = VStr(SV('START_ELEMENT'))
    ex.exc_lookup['SAXParseException'] = SAXParseException
    st.ghost['parser_arg'] = None; st.ghost['seeks'] = 0
    scan = z3.Int('scan_outcome')     # 0: a START_ELEMENT event is reached; 1: syntax error first; 2: a handler raises XMLResourceForbidden first; 3: OSError; 4: stream ends
    n_before = z3.Int('events_before_first_start')

    def loop(e, node, s):
        call = node.iter
        if not (isinstance(call, ast.Call) and ast.unparse(call.func) == 'pulldom.parse'): raise Unsupported('scan loop drifted')
        args = [e.ev(a, s) for a in call.args]
        s.ghost['parser_arg'] = args[1] if len(args) > 1 else None
        outs = []
        # the events before the first start tag: the body must not leave the loop on them
        sb = s.fork(z3.And(scan == 0, n_before >= 1), mark='non-start-event'); ev = z3.String('event_kind')
        sb.pc.append(ev != SV('START_ELEMENT')); sb.env['event'] = VStr(ev); sb.env['node'] = OPAQUE
        for kind, val, s2 in e.block(node.body, sb):
            e.oblige('scan-does-not-stop-before-the-first-start-tag', s2, z3.BoolVal(kind in ('fall', 'continue')))
        # the first start tag
        s1 = s.fork(scan == 0, mark='start-event'); s1.env['event'] = VStr(SV('START_ELEMENT')); s1.env['node'] = OPAQUE
        for kind, val, s2 in e.block(node.body, s1):
            outs.append(('fall', None, s2) if kind in ('break', 'fall', 'continue') else (kind, val, s2))
        outs.append(('raise', VExc(SAXParseException), s.fork(scan == 1, mark='syntax-error')))
        outs.append(('raise', VExc(XMLResourceForbidden), s.fork(scan == 2, mark='forbidden')))
        outs.append(('raise', VExc(OSError), s.fork(scan == 3, mark='oserror')))
        outs.append(('fall', None, s.fork(scan == 4, mark='eof')))
        return outs
    ex.s_For = lambda node, s: loop(ex, node, s)

    def seek(e, s, recv, a, k):
        s.ghost['seeks'] += 1; s.ghost['seek_arg'] = lift(a[0]).t; return VInt(z3.IntVal(0))
    ex.callees['seek'] = seek
    pre = z3.And(scan >= 0, scan <= 4, n_before >= 0)
    outs = ex.run(st, pre)

    def post(kind, v, s):
        forb = isinstance(v, VExc) and v.cls is not None and issubclass(v.cls, XMLResourceForbidden)
        # a syntax error INSIDE the DTD: the declarations after it were not seen, so the source is refused like a forbidden one; elsewhere a syntax error is left to the real parser
        if kind == 'raise': return z3.And(z3.Or(scan == 2, scan == 3, z3.And(scan == 1, in_dtd)), z3.BoolVal(forb) == z3.Or(scan == 2, z3.And(scan == 1, in_dtd)),
                                          z3.Implies(scan == 3, z3.BoolVal(isinstance(v, VExc) and v.cls is not None and issubclass(v.cls, XMLResourceOSError))))
        return z3.And(scan != 2, scan != 3, z3.Not(z3.And(scan == 1, in_dtd)), z3.If(z3.Bool('rewind'), z3.And(z3.BoolVal(s.ghost['seeks'] == 1), s.ghost.get('seek_arg', z3.IntVal(-1)) == 0), z3.BoolVal(s.ghost['seeks'] == 0)))
    parser_ok = lambda kind, v, s: z3.BoolVal(isinstance(s.ghost['parser_arg'], VObj) and s.ghost['parser_arg'].name == 'safe_parser')
    run.post(ex, outs, pre, {'forbidden-propagates-and-stream-rewound': post, 'scanned-with-the-safe-parser': parser_ok})


# ------------------------------------------------------------------ XMLResource.open: the defuse block
t = Target('resources.open.defuse_block', ['C13'], 'xmlschema/resources/xml_resource.py', 'XMLResource.open', anchor='if self.is_defused():', anchor_end='$',
           note='when is_defused(): the returned stream went through defuse_xml, or a second stream opened from the same URL did (assumption: same bytes), '
                'otherwise XMLResourceOSError is raised; when not is_defused(): fp is returned untouched',
           assumes=['two fetches of one URL return the same bytes'])


@t.symbolic
def _(run):
    from xmlschema.exceptions import XMLResourceError, XMLResourceOSError
    ex = run.exec(); st = new_state()
    defused = z3.Bool('is_defused'); seekable = z3.Bool('fp_seekable'); wrappable = z3.Bool('fp_is_raw_or_buffered')
    st.objf['fp'] = {}; st.objf['fp2'] = {}; st.objf['wrapped'] = {}
    st.objf['self'] = {'_opener': VOpt(z3.Bool('opener_none'), VStr(z3.String('opener'))), 'url': VOpt(z3.Bool('url_none'), VStr(z3.String('url'))),
                       'fp': VOpt(z3.Bool('selffp_none'), VStr(z3.String('selffp')))}
    st.env.update(self=VObj('self'), fp=VObj('fp'))
    ex.callees['is_defused'] = lambda e, s, r, a, k: VBool(defused)
    ex.callees['seekable'] = lambda e, s, r, a, k: VBool(seekable)
    ex.callees['isinstance'] = lambda e, s, r, a, k: VBool(wrappable)
    ex.callees['close'] = lambda e, s, r, a, k: NONE
    st.ghost['defused_objs'] = (); st.ghost['opened_urls'] = ()
    dfail = z3.Bool('defuse_raises')

    def defuse_xml(e, s, r, a, k):
        s.ghost['defused_objs'] = s.ghost['defused_objs'] + (a[0].name if isinstance(a[0], VObj) else '?',)
        e.pending_raise.append((dfail, VExc(XMLResourceError)))
        return VObj('wrapped') if True else a[0]
    ex.callees['defuse_xml'] = defuse_xml

    def open_url(e, s, r, a, k):
        s.ghost['opened_urls'] = s.ghost['opened_urls'] + (a[0],); return VObj('fp2')
    ex.callees['open_url'] = open_url
    pre = z3.BoolVal(True); outs = ex.run(st, pre)

    def post(kind, v, s):
        d = s.ghost['defused_objs']
        if kind == 'raise':
            ok_cls = isinstance(v, VExc) and v.cls is not None and issubclass(v.cls, XMLResourceError)
            return z3.And(defused, z3.BoolVal(ok_cls))
        if kind != 'return' or not isinstance(v, VObj): return z3.BoolVal(False)
        if v.name == 'wrapped': return z3.And(defused, z3.BoolVal(d == ('fp',)))          # the stream returned is the defused (possibly wrapped) one
        if v.name == 'fp':
            second = d == ('fp2',) and len(s.ghost['opened_urls']) == 1
            same_url = second and isinstance(s.ghost['opened_urls'][0], VOpt) and s.ghost['opened_urls'][0] is s.objf['self']['url']
            return z3.If(defused, z3.BoolVal(bool(same_url)), z3.BoolVal(d == ()))
        return z3.BoolVal(False)
    run.post(ex, outs, pre, {'defused-before-returned': post})


# ------------------------------------------------------------------ XMLResource.open: no exit before the defuse decision
t = Target('resources.open.every_stream_passes_the_defuse_decision', ['C13'], 'xmlschema/resources/xml_resource.py', 'XMLResource.open',
           note='the statement contract above covers the block from `if self.is_defused():` to the end; this obligation closes the part before it: no return statement of open() '
                '(outside the nested open_url helper) precedes that block, so every stream the method hands out went through the defuse decision - whatever the kind of source '
                'and whatever its encoding',
           assumes=['syntactic obligation on the real AST (no solver)'])


@t.symbolic
def _(run):
    import ast
    ex = run.exec(); fn = ex.fn
    blocks = [s for s in fn.body if isinstance(s, ast.If) and ast.unparse(s.test) == 'self.is_defused()']
    run.paths = 1
    run.vc('one-top-level-defuse-decision', z3.BoolVal(True), [], z3.BoolVal(len(blocks) == 1), 'open')
    if len(blocks) != 1: return
    first = blocks[0].lineno

    def returns(node, acc):
        for c in ast.iter_child_nodes(node):
            if isinstance(c, (ast.FunctionDef, ast.Lambda)): continue
            if isinstance(c, ast.Return): acc.append(c.lineno)
            returns(c, acc)
        return acc
    early = [ln for ln in returns(fn, []) if ln < first]
    run.vc('no-return-before-the-defuse-decision', z3.BoolVal(True), [], z3.BoolVal(not early), 'open' + (f' early returns at lines {early}' if early else ''))
    last = fn.body[-1]
    run.vc('falls-through-to-a-single-final-return', z3.BoolVal(True), [], z3.BoolVal(isinstance(last, ast.Return) and fn.body[-2] is blocks[0]), 'open')
