"""Propagation and delegation obligations (C12, C13, C04): decided syntactically on the call expressions of the real AST.

A propagation obligation says: the (unique) call to a constructor / callee inside a function passes a given option unchanged.
It is discharged by matching the call's arguments against the callee's real signature (read from its AST in /repo) - no solver
involved; back end 'ast'.  A call that disappeared, was duplicated, or passes another expression fails the obligation.
"""
import ast, os
import z3
from pyvc.core import Target
from pyvc.se import REPO, find_def, Unsupported


def parse(file):
    return ast.parse(open(os.path.join(REPO, file), encoding='utf-8-sig').read())


def locate(tree, qual):
    node = tree
    for part in qual.split('.'):
        node = find_def(node, part)
        if node is None: raise Unsupported(f'{qual} not found')
    return node


def params_of(fn):
    return [a.arg for a in fn.args.args if a.arg not in ('self', 'cls')]


def bind(call, params):
    """{parameter name: unparsed argument expression} for a call against a positional parameter list"""
    out = {}
    for i, a in enumerate(call.args):
        if isinstance(a, ast.Starred) or i >= len(params): raise Unsupported('starred / surplus positional argument')
        out[params[i]] = ast.unparse(a)
    for k in call.keywords:
        if k.arg is None: out['**'] = ast.unparse(k.value)
        else: out[k.arg] = ast.unparse(k.value)
    return out


XR_PARAMS = None


def xmlresource_params():
    global XR_PARAMS
    if XR_PARAMS is None:
        XR_PARAMS = params_of(locate(parse('xmlschema/resources/xml_resource.py'), 'XMLResource.__init__'))
    return XR_PARAMS


def calls_to(fn, name):
    return [n for n in ast.walk(fn) if isinstance(n, ast.Call) and ((isinstance(n.func, ast.Name) and n.func.id == name) or (isinstance(n.func, ast.Attribute) and n.func.attr == name))]


def mk(tid, props, file, qual, callee, expect, which=None, note=''):
    t = Target(tid, props, file, qual, note=note or f'the call to {callee}(...) passes {sorted(expect)} unchanged',
               assumes=['syntactic obligation on the real AST (no solver): the argument expression is textually the expected one'])

    @t.symbolic
    def _(run):
        ex = run.exec()
        calls = calls_to(ex.fn, callee)
        if which is not None: calls = [c for c in calls if which in ast.unparse(c)]
        pre = z3.BoolVal(True)
        run.vc(f'exactly-one-{callee}-call', pre, [], z3.BoolVal(len(calls) == 1), 'ast')
        if len(calls) != 1: return
        got = bind(calls[0], xmlresource_params() if callee == 'XMLResource' else [])
        for p, want in expect.items():
            run.vc(f'forwards-{p}', pre, [], z3.BoolVal(got.get(p) == want), 'ast')
        run.paths = 1
    return t


OPTS = ['base_url', 'allow', 'defuse', 'timeout', 'lazy', 'thin_lazy', 'block', 'uri_mapper', 'opener', 'iterparse', 'selector']
mk('settings.get_xml_resource.propagation', ['C12', 'C13', 'C04'], 'xmlschema/settings.py', 'SchemaSettings.get_xml_resource', 'XMLResource',
   dict({o: f'self.{o}' for o in OPTS}, source='source'))
mk('settings.get_schema_resource.propagation', ['C12', 'C13'], 'xmlschema/settings.py', 'SchemaSettings.get_schema_resource', 'XMLResource',
   dict({o: f'self.{o}' for o in ('allow', 'defuse', 'timeout', 'block', 'uri_mapper', 'opener')}, source='source', base_url='base_url or self.base_url'))
mk('fetchers.fetch_schema_locations.propagation', ['C12'], 'xmlschema/resources/fetchers.py', 'fetch_schema_locations', 'XMLResource',
   dict(source='location', base_url='base_url', allow='allow', defuse='defuse', timeout='timeout', uri_mapper='uri_mapper'), which='location',
   note='every location hint is opened through an XMLResource carrying the caller\'s allow / defuse / timeout / uri_mapper (the allow mode is documented to apply to the hints only)')
mk('fetchers.fetch_namespaces.propagation', ['C12'], 'xmlschema/resources/fetchers.py', 'fetch_namespaces', 'XMLResource',
   dict(source='source', base_url='base_url', allow='allow', defuse='defuse', timeout='timeout'))
mk('xml_resource.subresource.propagation', ['C12', 'C13'], 'xmlschema/resources/xml_resource.py', 'XMLResource.subresource', 'XMLResource',
   dict(source='elem', base_url='self.base_url', allow='self._allow', defuse='self._defuse', timeout='self._timeout'))
mk('dataobjects.fromsource.propagation', ['C12'], 'xmlschema/dataobjects.py', 'DataBindingMeta.fromsource', 'XMLResource',
   dict(source='source', allow='allow', defuse='defuse', timeout='timeout'))


# ---- documents.get_context: the resource is built with exactly the resource options of the caller
t = Target('documents.get_context.propagation', ['C12', 'C04', 'C13'], 'xmlschema/documents.py', 'get_context',
           note='a non-resource document is wrapped in XMLResource(xml_document, **{k: kwargs[k] for k in kwargs if k in RESOURCE_KWARGS}) and RESOURCE_KWARGS '
                'contains every security option; an XMLResource passes through unchanged',
           assumes=['syntactic obligation on the real AST; RESOURCE_KWARGS is read from the imported module'])


@t.symbolic
def _(run):
    import xmlschema.documents as D
    ex = run.exec(); pre = z3.BoolVal(True)
    calls = calls_to(ex.fn, 'XMLResource')
    run.vc('exactly-one-XMLResource-call', pre, [], z3.BoolVal(len(calls) == 1), 'ast')
    if len(calls) == 1:
        got = bind(calls[0], xmlresource_params())
        run.vc('forwards-source', pre, [], z3.BoolVal(got.get('source') == 'xml_document'), 'ast')
        run.vc('forwards-filtered-kwargs', pre, [], z3.BoolVal(got.get('**') == '_kwargs'), 'ast')
        assigns = [n for n in ast.walk(ex.fn) if isinstance(n, ast.Assign) and ast.unparse(n.targets[0]) == '_kwargs']
        run.vc('kwargs-filter-is-the-resource-option-table', pre, [],
               z3.BoolVal(any(ast.unparse(a.value) == '{k: kwargs[k] for k in kwargs if k in RESOURCE_KWARGS}' and a.lineno < calls[0].lineno for a in assigns)), 'ast')
    need = {'base_url', 'allow', 'defuse', 'timeout', 'lazy', 'thin_lazy', 'uri_mapper', 'opener', 'block', 'iterparse', 'selector'}
    run.vc('resource-option-table-complete', pre, [], z3.BoolVal(need <= set(D.RESOURCE_KWARGS)), 'ast')
    # the schema that the document API builds itself (from a schema= source or from location hints) gets the caller's options through SCHEMA_KWARGS
    sneed = {'base_url', 'allow', 'defuse', 'timeout', 'uri_mapper', 'opener', 'block'}
    run.vc('schema-option-table-contains-the-security-options', pre, [], z3.BoolVal(sneed <= set(D.SCHEMA_KWARGS)), 'ast')
    assigns = [n for n in ast.walk(ex.fn) if isinstance(n, ast.Assign) and ast.unparse(n.targets[0]) == '_kwargs']
    run.vc('schema-kwargs-filter-is-the-schema-option-table', pre, [], z3.BoolVal(any(ast.unparse(a.value) == '{k: kwargs[k] for k in kwargs if k in SCHEMA_KWARGS}' for a in assigns)), 'ast')
    gs = calls_to(ex.fn, 'get_resource_schema')
    run.vc('schema-built-with-the-filtered-options', pre, [], z3.BoolVal(len(gs) == 1 and [ast.unparse(a) for a in gs[0].args] == ['resource', 'schema', 'cls']
                                                                      and [ast.unparse(k.value) for k in gs[0].keywords if k.arg is None] == ['_kwargs']), 'ast')
    run.paths = 1


# ---- XMLResource.parse: the new resource is built from all arguments of the current one
t = Target('xml_resource.parse.propagation', ['C12', 'C13'], 'xmlschema/resources/xml_resource.py', 'XMLResource.parse',
           note='parse() rebuilds the resource from self.get_arguments() (every Argument descriptor of the class, hence allow, base_url, defuse, uri_mapper, opener, block) '
                'with only source and lazy replaced',
           assumes=['syntactic obligation on the real AST; get_arguments() is evaluated on real XMLResource / XmlDocument objects (run-time clause)'])


@t.symbolic
def _(run):
    ex = run.exec(); pre = z3.BoolVal(True)
    src = [ast.unparse(s) for s in ex.fn.body if not (isinstance(s, ast.Expr) and isinstance(s.value, ast.Constant))]
    run.vc('arguments-taken-from-self', pre, [], z3.BoolVal(src[:1] == ['kwargs = self.get_arguments()']), 'ast')
    over = [s for s in src if s.startswith('kwargs[')]
    run.vc('only-source-and-lazy-overridden', pre, [], z3.BoolVal(sorted(over) == ["kwargs['lazy'] = lazy", "kwargs['source'] = source"]), 'ast')
    run.vc('rebuilt-with-all-arguments', pre, [], z3.BoolVal('other = self.__class__(**kwargs)' in src), 'ast')
    # get_arguments() is decided on the real objects (a run-time clause, not a text match): for the class and for its subclass in the package
    # every Argument descriptor of the MRO is returned with the value the object was created with
    import xmlschema
    from xmlschema.arguments import Argument
    have = {k for k, v in xmlschema.XMLResource.__dict__.items() if isinstance(v, Argument)}
    run.vc('security-options-are-Arguments', pre, [], z3.BoolVal({'allow', 'base_url', 'defuse', 'timeout', 'uri_mapper', 'opener', 'block'} <= have), 'ast')
    sch = xmlschema.XMLSchema10('<xs:schema xmlns:xs="http://www.w3.org/2001/XMLSchema"><xs:element name="r"/></xs:schema>')
    marks = dict(allow='none', defuse='always', timeout=7, base_url='/verif-mark')
    for label, obj in (('XMLResource', xmlschema.XMLResource('<r/>', **marks)), ('XmlDocument', xmlschema.XmlDocument('<r/>', schema=sch, **marks))):
        names = {k for c in type(obj).__mro__ for k, v in c.__dict__.items() if isinstance(v, Argument)}
        got = obj.get_arguments()
        run.vc(f'get_arguments-returns-every-Argument-of-the-class-hierarchy', pre, [], z3.BoolVal(names <= set(got)), label + ' missing=' + ','.join(sorted(names - set(got))))
        run.vc(f'get_arguments-returns-the-values-of-the-object', pre, [], z3.BoolVal(all(got.get(k) == v for k, v in marks.items())), label)
    run.paths = 1


# ---- package-level functions delegate to the schema method with the caller's options (C04)
def mk_doc(fn, method, forwarded):
    t = Target(f'documents.{fn}.delegation', ['C04'], 'xmlschema/documents.py', fn,
               note=f'{fn}() obtains (resource, schema) from get_context and returns schema.{method}(resource, ...) with the caller\'s {forwarded} unchanged',
               assumes=['syntactic obligation on the real AST'])

    @t.symbolic
    def _(run):
        ex = run.exec(); pre = z3.BoolVal(True)
        calls = calls_to(ex.fn, method)
        run.vc(f'exactly-one-{method}-call', pre, [], z3.BoolVal(len(calls) == 1), 'ast')
        if len(calls) != 1: return
        c = calls[0]
        tree = parse('xmlschema/validators/schemas.py'); callee = locate(tree, f'XMLSchemaBase.{method}')
        got = bind(c, params_of(callee))
        run.vc('receiver-is-the-context-schema', pre, [], z3.BoolVal(isinstance(c.func, ast.Attribute) and ast.unparse(c.func.value) == 'schema'), 'ast')
        run.vc('first-argument-is-the-context-resource', pre, [], z3.BoolVal(got.get(params_of(callee)[0]) in ('source', 'resource')), 'ast')
        for p in forwarded:
            run.vc(f'forwards-{p}', pre, [], z3.BoolVal(got.get(p) == p), 'ast')
        gc = calls_to(ex.fn, 'get_context')
        run.vc('context-from-get_context', pre, [], z3.BoolVal(len(gc) == 1), 'ast')
        run.paths = 1


for _fn, _m in (('validate', 'validate'), ('is_valid', 'is_valid'), ('iter_errors', 'iter_errors')):
    mk_doc(_fn, _m, ['path', 'schema_path', 'use_defaults', 'namespaces', 'use_location_hints'])
def mk_doc_kwargs(fn, method):
    t = Target(f'documents.{fn}.delegation', ['C04'], 'xmlschema/documents.py', fn,
               note=f'{fn}() folds validation / locations / use_location_hints into kwargs unchanged, obtains (source, schema) from get_context(xml_document, schema, cls, **kwargs) '
                    f'and delegates to schema.{method}(source, path=path, **kwargs)',
               assumes=['syntactic obligation on the real AST'])

    @t.symbolic
    def _(run):
        ex = run.exec(); pre = z3.BoolVal(True)
        ups = [c for c in calls_to(ex.fn, 'update') if ast.unparse(c.func) == 'kwargs.update']
        run.vc('options-folded-into-kwargs', pre, [], z3.BoolVal(len(ups) == 1 and {k.arg: ast.unparse(k.value) for k in ups[0].keywords} ==
                                                                  {'validation': 'validation', 'locations': 'locations', 'use_location_hints': 'use_location_hints'}), 'ast')
        gc = calls_to(ex.fn, 'get_context')
        run.vc('context-from-get_context-with-all-kwargs', pre, [], z3.BoolVal(len(gc) == 1 and [ast.unparse(a) for a in gc[0].args] == ['xml_document', 'schema', 'cls']
                                                                            and [ast.unparse(k.value) for k in gc[0].keywords if k.arg is None] == ['kwargs']), 'ast')
        calls = [c for c in calls_to(ex.fn, method) if isinstance(c.func, ast.Attribute) and ast.unparse(c.func.value) == '_schema']
        run.vc(f'exactly-one-{method}-call-on-the-context-schema', pre, [], z3.BoolVal(len(calls) == 1), 'ast')
        if len(calls) == 1:
            c = calls[0]
            run.vc('delegates-source-path-and-kwargs', pre, [], z3.BoolVal([ast.unparse(a) for a in c.args] == ['source'] and
                   {(k.arg, ast.unparse(k.value)) for k in c.keywords} == {('path', 'path'), (None, 'kwargs')}), 'ast')
        run.paths = 1


mk_doc_kwargs('iter_decode', 'iter_decode')
mk_doc_kwargs('to_dict', 'decode')


# ---- SchemaLoader: the base URL of the referring schema document reaches every load (it is the sandbox root when no base_url was given)
def mk_loader(tid, qual, callee, want, note):
    t = Target(tid, ['C12'], 'xmlschema/loaders.py', qual, note=note, assumes=['syntactic obligation on the real AST (no solver): every call of the callee passes the expected base_url expression'])

    @t.symbolic
    def _(run):
        ex = run.exec(); pre = z3.BoolVal(True)
        calls = [c for c in calls_to(ex.fn, callee) if isinstance(c.func, ast.Attribute) and ast.unparse(c.func.value) == 'self']
        run.vc(f'at-least-one-{callee}-call', pre, [], z3.BoolVal(len(calls) >= 1), 'ast')
        params = params_of(locate(ex.tree, f'SchemaLoader.{callee}'))
        for i, c in enumerate(calls):
            got = bind(c, params)
            run.vc(f'{callee}-receives-the-base-url-of-the-referring-schema', pre, [], z3.BoolVal(got.get('base_url') in want), f'call {i}: base_url={got.get("base_url")}')
        run.paths = max(1, len(calls))
    return t


mk_loader('loaders.import_namespace.base_url', 'SchemaLoader.import_namespace', 'import_schema', ('schema.base_url',),
          'import_namespace hands schema.base_url to every import_schema call: the imported document is fetched (and, under allow=sandbox without an explicit base_url, confined) relative to the importing schema')
mk_loader('loaders.load_declared_schemas.include.base_url', 'SchemaLoader.load_declared_schemas', 'include_schema', ('base_url', 'schema.base_url'),
          'load_declared_schemas hands the base URL of the schema document to include_schema for xs:include / redefine / override')
for _callee in ('import_schema', 'include_schema'):
    mk_loader(f'loaders.{_callee}.base_url', f'SchemaLoader.{_callee}', 'load_schema', ('base_url',), f'{_callee} forwards its base_url argument to load_schema')


# ------------------------------------------------------------------ documents.get_resource_schema: a given schema instance is the schema that is used (C04)
t = Target('documents.get_resource_schema.given_instance', ['C04'], 'xmlschema/documents.py', 'get_resource_schema',
           note='the helper behind every package-level function and XmlDocument: called with a schema INSTANCE whose maps hold the namespace of the document root, it returns that very instance - '
                'whatever the location hints of the document say; an instance is also what it returns when location hints are not to be used; without a schema argument and without hints '
                'it raises XMLSchemaValueError (or returns the meta-schema / a dummy schema in the documented cases) - it never invents a schema from nothing',
           assumes=['fetch_schema_locations, the schema constructor, issubclass and the map lookup are uninterpreted; only the decision structure of the helper is proved'])


@t.symbolic
def _(run):
    import z3, ast
    from pyvc.se import new_state, VObj, VOpt, VBool, VStr, VExc, VTuple, OPAQUE, NONE, SV, Unsupported
    ex = run.exec(); st = new_state()
    is_inst, given_none, loaded, hints, fetch_fails, cls_none, cls_ok = (z3.Bool(n) for n in ('schema_is_an_instance', 'schema_is_None', 'root_namespace_loaded_in_the_schema', 'use_location_hints', 'no_location_found', 'cls_is_None', 'cls_is_a_schema_class'))
    rns, tns = z3.String('root_namespace'), z3.String('schema_target_namespace')
    st.objf['schema'] = {'target_namespace': VStr(tns)}; st.objf['resource'] = {'namespace': VStr(rns)}; st.objf['built'] = {}; st.objf['cls'] = {}
    st.env.update(resource=VObj('resource'), schema=VOpt(given_none, VObj('schema')), cls=VOpt(cls_none, VObj('cls')), validation=VStr(z3.String('validation')), locations=OPAQUE,
                  use_location_hints=VBool(hints), kwargs=OPAQUE)
    st.ghost['built'] = ()

    def isinstance_(e, s, r, a, k):
        tn = ast.unparse(a[1])
        if tn == 'XMLSchemaBase': return VBool(z3.And(z3.Not(given_none), is_inst))
        raise Unsupported('isinstance ' + tn)
    ex.callees['isinstance'] = isinstance_
    ex.callees['issubclass'] = lambda e, s, r, a, k: VBool(cls_ok)
    ex.names.update(XMLSchemaBase=OPAQUE, XMLSchema10=VObj('cls'), XSD_NAMESPACE=VStr(SV('http://www.w3.org/2001/XMLSchema')), XSI_TYPE=VStr(SV('{http://www.w3.org/2001/XMLSchema-instance}type')))
    from xmlschema.exceptions import XMLSchemaTypeError, XMLSchemaValueError
    ex.callees['XMLSchemaTypeError'] = lambda e, s, r, a, k: VExc(XMLSchemaTypeError)
    ex.callees['XMLSchemaValueError'] = lambda e, s, r, a, k: VExc(XMLSchemaValueError)
    ex.callees['_'] = lambda *a: OPAQUE; ex.callees['format'] = lambda *a: OPAQUE
    ex.callees['get_dummy_schema'] = lambda e, s, r, a, k: VObj('dummy'); st.objf['dummy'] = {}

    def fetch(e, s, r, a, k):
        ex.pending_raise.append((fetch_fails, VExc(ValueError)))
        return VTuple([VStr(z3.String('schema_location')), OPAQUE])
    ex.callees['fetch_schema_locations'] = fetch
    orig_call, orig_compare, orig_attr, orig_assign = ex.e_Call, ex.e_Compare, ex.e_Attribute, ex.assign

    def e_Call(e, s):
        if isinstance(e.func, ast.Name) and e.func.id == 'cls':
            s.ghost['built'] += (ast.unparse(e.args[0]) if e.args else '?',); return VObj('built')
        return orig_call(e, s)
    ex.e_Call = e_Call

    def e_Compare(e, s):
        src = ast.unparse(e)
        if len(e.ops) == 1 and isinstance(e.ops[0], ast.In) and ast.unparse(e.comparators[0]) == 'schema.maps.namespaces' and ast.unparse(e.left) == 'resource.namespace': return VBool(loaded)
        if src == 'XSI_TYPE in resource.root.attrib': return VBool(z3.Bool('root_has_xsi_type'))
        return orig_compare(e, s)
    ex.e_Compare = e_Compare
    ex.e_Attribute = lambda e, s: VObj('meta') if ast.unparse(e) == 'cls.meta_schema' else OPAQUE if ast.unparse(e).startswith('resource.root') else orig_attr(e, s)
    st.objf['meta'] = {}
    ex.assign = lambda tg, v, s: [('fall', None, s)] if ast.unparse(tg) == "kwargs['locations']" else orig_assign(tg, v, s)
    # the target namespace of a schema is one of the namespaces of its maps
    pre = z3.And(z3.Implies(is_inst, z3.Not(given_none)), z3.Implies(rns == tns, loaded))
    run.inputs.update(root_namespace=rns, schema_target_namespace=tns, schema_is_an_instance=is_inst, schema_is_None=given_none, namespace_loaded=loaded, use_location_hints=hints, no_location_found=fetch_fails)
    outs = ex.run(st, pre)
    given = lambda v: isinstance(v, VObj) and v.name == 'schema' or (isinstance(v, VOpt) and isinstance(v.val, VObj) and v.val.name == 'schema')

    def keeps(kind, v, s):
        cond = z3.And(is_inst, z3.Or(loaded, z3.Not(hints), fetch_fails), z3.Or(cls_none, cls_ok))
        return z3.Implies(cond, z3.BoolVal(kind == 'return' and given(v) and not s.ghost['built']))

    def never_from_nothing(kind, v, s):
        cond = z3.And(given_none, z3.Or(z3.Not(hints), fetch_fails), rns != SV('http://www.w3.org/2001/XMLSchema'), z3.Not(z3.Bool('root_has_xsi_type')), st.env['validation'].t != SV('skip'), z3.Or(cls_none, cls_ok))
        return z3.Implies(cond, z3.BoolVal(kind == 'raise' and isinstance(v, VExc) and v.cls is XMLSchemaValueError))
    run.post(ex, outs, pre, {'a-given-instance-that-knows-the-root-namespace-is-returned-as-it-is': keeps, 'no-schema-argument-and-no-hint-is-an-error': never_from_nothing})
mk('loaders.SchemaLoader.load_schema.propagation', ['C09', 'C12'], 'xmlschema/loaders.py', 'SchemaLoader.load_schema', 'schema_class',
   dict(source='source', namespace='namespace', global_maps='self.maps', base_url='base_url or self.maps.settings.base_url'),
   note='a document that is not loaded yet is built with the base URL of the document that refers to it (the argument) and only without one with the base the caller named for '
        'the main source: relative locations resolve from the referring document, and its directory stays the sandbox root')
