"""Contracts on validators/builders.py::StagedMap (C09): how global declarations are staged and built on demand.

With these contracts, loads of distinct names commute (each load writes only its own staging slot), a forward reference triggers exactly the
factory call that the in-order build would make (__getitem__ builds a staged name and nothing else), and a built name leaves the staging area.
What a factory does when it runs is not within reach: that part of C09 is covered by the bounded arrangement check only.
"""
import z3
from pyvc.core import Target
from pyvc.se import *

F = 'xmlschema/validators/builders.py'
RB = z3.ArraySort(S, B); RV = z3.ArraySort(S, Ref)


def maps(st):
    sd, sv, gd, gv = z3.Const('store_dom', RB), z3.Const('store_val', RV), z3.Const('staging_dom', RB), z3.Const('staging_val', RV)
    c_store = st.alloc(kind='dict', dom=sd, val=sv, ksort=S, default=None, wrap=lambda t: VRef(t))
    c_stag = st.alloc(kind='dict', dom=gd, val=gv, ksort=S, default=None, wrap=lambda t: VRef(t))
    st.objf['self'] = {'_store': VDict(c_store), '_staging': VDict(c_stag), 'label': OPAQUE}
    st.env['self'] = VObj('self')
    return (sd, sv, gd, gv), (c_store, c_stag)


t = Target('builders.StagedMap.__getitem__', ['C09'], F, 'StagedMap.__getitem__',
           note='a built name returns the stored component; a staged name is built now by _build_global(qname) and its result returned; any other name raises '
                'XMLSchemaKeyError; the method itself writes neither map')


@t.symbolic
def _(run):
    from xmlschema.exceptions import XMLSchemaKeyError
    ex = run.exec(); st = new_state(); (sd, sv, gd, gv), (c_store, c_stag) = maps(st)
    q = z3.String('qname'); st.env['qname'] = VStr(q)
    built = z3.Const('built_result', Ref); st.ghost['builds'] = ()

    def build_global(e, s, r, a, k): s.ghost['builds'] = s.ghost['builds'] + (lift(a[0]).t,); return VRef(built)
    ex.callees['_build_global'] = build_global
    ex.callees['_'] = lambda *a: OPAQUE; ex.callees['format'] = lambda *a: OPAQUE
    ex.key = lambda v, o=ex.key: v.t if isinstance(v, VRef) else o(v)
    pre = z3.BoolVal(True); outs = ex.run(st, pre)

    def post(kind, v, s):
        b = s.ghost['builds']
        frame = z3.And(s.heap[c_store]['dom'] == sd, s.heap[c_store]['val'] == sv, s.heap[c_stag]['dom'] == gd, s.heap[c_stag]['val'] == gv)
        if kind == 'raise':
            ok = isinstance(v, VExc) and v.cls is not None and issubclass(v.cls, XMLSchemaKeyError)
            return z3.And(z3.BoolVal(ok and b == ()), z3.Not(sd[q]), z3.Not(gd[q]), frame)
        if kind != 'return' or not isinstance(v, VRef): return z3.BoolVal(False)
        if b == (): return z3.And(sd[q], v.t == sv[q], frame)
        return z3.And(z3.BoolVal(len(b) == 1), b[0] == q, z3.Not(sd[q]), gd[q], v.t == built, frame)
    run.post(ex, outs, pre, {'stored-else-built-on-demand-else-key-error': post})


t = Target('builders.StagedMap.load.fresh_name', ['C09'], F, 'StagedMap.load',
           note='loading a name that is neither built nor staged writes exactly staging[qname] = (elem, schema): no other slot of either map changes and no error is '
                'reported - hence loads of distinct fresh names commute and the staged key set is the union whatever the order of the declarations')


@t.symbolic
def _(run):
    ex = run.exec(); st = new_state(); (sd, sv, gd, gv), (c_store, c_stag) = maps(st)
    q = z3.String('qname'); elem, schema = z3.Const('elem', Ref), z3.Const('schema', Ref)
    st.env.update(qname=VStr(q), elem=VRef(elem), schema=VRef(schema))
    st.ghost['errors'] = 0; st.ghost['ff'] = {}

    def parse_error(e, s, r, a, k): s.ghost['errors'] += 1; return NONE
    ex.callees['parse_error'] = parse_error
    pair = z3.Function('pair', Ref, Ref, Ref)
    ex.key = lambda v, o=ex.key: (pair(v.items[0].t, v.items[1].t) if isinstance(v, VTuple) and len(v.items) == 2 and all(isinstance(i, VRef) for i in v.items)
                                  else v.t if isinstance(v, VRef) else o(v))
    pre = z3.And(z3.Not(sd[q]), z3.Not(gd[q]))
    outs = ex.run(st, pre)
    k = z3.Const('k', S)

    def post(kind, v, s):
        if kind not in ('return', 'fall'): return z3.BoolVal(False)
        d2, v2 = s.heap[c_stag]['dom'], s.heap[c_stag]['val']
        return z3.And(z3.BoolVal(s.ghost['errors'] == 0), d2[q], v2[q] == pair(elem, schema),
                      z3.ForAll([k], z3.Implies(k != q, z3.And(d2[k] == gd[k], v2[k] == gv[k]))),
                      s.heap[c_store]['dom'] == sd, s.heap[c_store]['val'] == sv)
    run.post(ex, outs, pre, {'writes-only-its-own-staging-slot': post})
    # commutation lemma over the contract: two loads of distinct fresh names give the same staging map in either order
    q2 = z3.String('qname2'); e2, s2 = z3.Const('elem2', Ref), z3.Const('schema2', Ref)
    a_dom = z3.Store(z3.Store(gd, q, True), q2, True); a_val = z3.Store(z3.Store(gv, q, pair(elem, schema)), q2, pair(e2, s2))
    b_dom = z3.Store(z3.Store(gd, q2, True), q, True); b_val = z3.Store(z3.Store(gv, q2, pair(e2, s2)), q, pair(elem, schema))
    run.vc('loads-of-distinct-names-commute', z3.And(pre, q != q2, z3.Not(sd[q2]), z3.Not(gd[q2])), [], z3.And(a_dom == b_dom, a_val == b_val))


t = Target('builders.StagedMap._build_global.plain', ['C09'], F, 'StagedMap._build_global',
           note='for a staged declaration without redefinitions: the factory is called once with the staged (elem, schema); while it runs the staging slot holds a '
                'one-item marker (so a circular reference is detected); afterwards the name is in the store with the factory result and no longer staged; a marker '
                'found on entry raises XMLSchemaCircularityError',
           assumes=['the factory is uninterpreted: it may itself build other names (recursive on-demand builds), which are havocked except for the slot of qname'])


@t.symbolic
def _(run):
    from xmlschema.validators.exceptions import XMLSchemaCircularityError
    ex = run.exec(); st = new_state(); (sd, sv, gd, gv), (c_store, c_stag) = maps(st)
    q = z3.String('qname'); st.env['qname'] = VStr(q); st.ghost['ff'] = {}
    kind_of = z3.Function('item_kind', Ref, I)       # 0: (elem, schema) pair ; 1: ((elem, schema),) marker ; 2: list with redefinitions
    fst = z3.Function('elem_of', Ref, Ref); snd = z3.Function('schema_of', Ref, Ref); marker = z3.Function('marker', Ref, Ref, Ref)
    made = z3.Const('component', Ref); st.ghost['factory_calls'] = (); st.ghost['staging_during_factory'] = None
    ex.callees['isinstance'] = lambda e, s, r, a, k: VBool(kind_of(a[0].t) != 2) if ast.unparse(a[1]) == 'tuple' else (_ for _ in ()).throw(Unsupported('isinstance'))
    orig_assign = ex.s_Assign

    def s_Assign(node, s):
        src = ast.unparse(node)
        if src == 'elem, schema = obj':
            o = s.env['obj']; outs = []
            s1 = s.fork(kind_of(o.t) == 0, mark='+pair'); s1.env['elem'] = VRef(fst(o.t)); s1.env['schema'] = VRef(snd(o.t)); outs.append(('fall', None, s1))
            s2 = s.fork(kind_of(o.t) != 0, mark='!ValueError'); outs.append(('raise', VExc(ValueError), s2))
            return [x for x in outs if ex.feasible(x[2])]
        if src == 'self._staging[qname] = ((elem, schema),)':
            h = s.heap[c_stag]; h['dom'] = z3.Store(h['dom'], q, True); h['val'] = z3.Store(h['val'], q, marker(s.env['elem'].t, s.env['schema'].t)); return [('fall', None, s)]
        return orig_assign(node, s)
    ex.s_Assign = s_Assign

    def factory(e, s, r, a, k):
        s.ghost['factory_calls'] = s.ghost['factory_calls'] + ((a[0].t, a[1].t),)
        s.ghost['staging_during_factory'] = s.heap[c_stag]['val'][q]
        # the factory may build other globals on demand: everything except the slot of qname is havocked
        hd, hv = z3.FreshConst(RB, 'dom_after_factory'), z3.FreshConst(RV, 'val_after_factory')
        h = s.heap[c_stag]; h['dom'] = z3.Store(hd, q, h['dom'][q]); h['val'] = z3.Store(hv, q, h['val'][q])
        sdd, svv = z3.FreshConst(RB, 'store_dom_after_factory'), z3.FreshConst(RV, 'store_val_after_factory')
        hs = s.heap[c_store]; hs['dom'] = sdd; hs['val'] = svv
        return VRef(made)
    ex.callees['_factory_or_class'] = factory
    ex.exc_lookup['XMLSchemaCircularityError'] = XMLSchemaCircularityError
    orig_call = ex.e_Call

    def e_Call(e, s):
        if isinstance(e.func, ast.Name) and e.func.id == 'XMLSchemaCircularityError': return VExc(XMLSchemaCircularityError)
        return orig_call(e, s)
    ex.e_Call = e_Call
    ex.key = lambda v, o=ex.key: v.t if isinstance(v, VRef) else o(v)
    item = gv[q]
    pre = z3.And(gd[q], z3.Or(kind_of(item) == 0, kind_of(item) == 1))
    outs = ex.run(st, pre)

    def post(kind, v, s):
        calls = s.ghost['factory_calls']
        if kind == 'raise':
            ok = isinstance(v, VExc) and v.cls is not None and issubclass(v.cls, XMLSchemaCircularityError)
            return z3.And(z3.BoolVal(ok and calls == ()), kind_of(item) == 1)
        if kind != 'return' or not isinstance(v, VRef) or len(calls) != 1: return z3.BoolVal(False)
        return z3.And(kind_of(item) == 0, calls[0][0] == fst(item), calls[0][1] == snd(item),
                      s.ghost['staging_during_factory'] == marker(fst(item), snd(item)),
                      z3.Not(s.heap[c_stag]['dom'][q]), s.heap[c_store]['dom'][q], s.heap[c_store]['val'][q] == made, v.t == made)
    run.post(ex, outs, pre, {'built-once-moved-from-staging-to-store': post})


# ------------------------------------------------------------------ concrete sides: the real StagedMap code with a stub factory
def _real_map():
    from xmlschema.validators.builders import StagedMap

    class M(StagedMap):
        calls = []

        def _factory_or_class(self, elem, schema):
            M.calls.append((elem, schema, self._staging.get('q')))
            return ('component', elem, schema)
    M.calls = []
    return M(builders=None), M


class _Schema:
    override = None; meta_schema = object(); maps = object()
    def __init__(s): s.errors = []
    def parse_error(s, **kw): s.errors.append(kw)


def _conc_getitem(inp):
    from xmlschema.exceptions import XMLSchemaKeyError
    m, M = _real_map(); sch = _Schema()
    if inp['where'] == 'store': m._store['q'] = 'stored'
    elif inp['where'] == 'staging': m._staging['q'] = ('elem', sch)
    m._staging['other'] = ('e2', sch); m._store['built'] = 'x'
    try: got = m['q']
    except XMLSchemaKeyError: got = 'KeyError'
    want = {'store': 'stored', 'staging': ('component', 'elem', sch), 'none': 'KeyError'}[inp['where']]
    ok = got == want and (inp['where'] != 'staging' or (len(M.calls) == 1 and 'q' in m._store and 'q' not in m._staging)) and 'other' in m._staging and m._store['built'] == 'x'
    return dict(ok=ok, observed=str(got), required=str(want))


def _conc_load(inp):
    m, M = _real_map(); sch = _Schema()
    m._staging['other'] = ('e2', sch); m._store['built'] = 'x'
    a, b = ('q1', 'q2') if inp['order'] == 0 else ('q2', 'q1')
    m.load(a, 'elem_' + a, sch); m.load(b, 'elem_' + b, sch)
    want = {'other': ('e2', sch), 'q1': ('elem_q1', sch), 'q2': ('elem_q2', sch)}
    return dict(ok=dict(m._staging) == want and dict(m._store) == {'built': 'x'} and not sch.errors, observed=str(sorted(m._staging)), required=str(sorted(want)))


def _conc_build(inp):
    from xmlschema.validators.exceptions import XMLSchemaCircularityError
    m, M = _real_map(); sch = _Schema()
    m._staging['q'] = ('elem', sch) if not inp['marker'] else (('elem', sch),)
    try: got = m._build_global('q')
    except XMLSchemaCircularityError: got = 'circular'
    if inp['marker']: return dict(ok=got == 'circular' and not M.calls, observed=str(got), required='XMLSchemaCircularityError')
    ok = got == ('component', 'elem', sch) and len(M.calls) == 1 and M.calls[0][2] == (('elem', sch),) and 'q' not in m._staging and m._store.get('q') == got
    return dict(ok=ok, observed=str(got), required='built once, marker while building, moved to the store')


from pyvc.core import REGISTRY
REGISTRY['builders.StagedMap.__getitem__'].concrete(_conc_getitem); REGISTRY['builders.StagedMap.__getitem__'].scope(lambda tier, rng: [dict(where=w) for w in ('store', 'staging', 'none')])
REGISTRY['builders.StagedMap.load.fresh_name'].concrete(_conc_load); REGISTRY['builders.StagedMap.load.fresh_name'].scope(lambda tier, rng: [dict(order=0), dict(order=1)])
REGISTRY['builders.StagedMap._build_global.plain'].concrete(_conc_build); REGISTRY['builders.StagedMap._build_global.plain'].scope(lambda tier, rng: [dict(marker=False), dict(marker=True)])


# ------------------------------------------------------------------ XsdGlobals.clear: a rebuild starts from empty derived maps (C09 "building twice")
t = Target('xsd_globals.XsdGlobals.clear', ['C09', 'C10'], 'xmlschema/validators/xsd_globals.py', 'XsdGlobals.clear',
           note='whatever the argument, clear() empties every derived map of the instance - the staged global maps, the substitution groups, the identity '
                'constraints registry and the cache - on every path: each of these clear() calls is a top-level statement of the body that no return precedes; '
                'nothing built by an earlier build() survives into the next one',
           assumes=['syntactic obligation on the real AST (no solver): unconditional top-level calls execute on every path that reaches them; the clear() methods of the '
                    'maps themselves are covered by the StagedMap contracts / are builtin dict.clear'])


@t.symbolic
def _(run):
    import ast
    ex = run.exec()
    from pyvc.se import find_def
    fn = find_def(find_def(ex.tree, 'XsdGlobals'), 'clear')
    if fn is None: raise Unsupported('XsdGlobals.clear not found')
    top = []
    for s in fn.body:
        if isinstance(s, ast.Return) or any(isinstance(n, ast.Return) for n in ast.walk(s)): break
        if isinstance(s, ast.Expr) and isinstance(s.value, ast.Call): top.append(ast.unparse(s.value))
    run.paths = 1
    for cell in ('global_maps', 'substitution_groups', 'identities', 'cache'):
        run.vc(f'{cell}-cleared-on-every-path', z3.BoolVal(True), [], z3.BoolVal(f'self.{cell}.clear()' in top), 'clear')
    # the derived maps are exactly those the constructor creates besides the schema registry: a map added later must be cleared as well
    init = find_def(find_def(ex.tree, 'XsdGlobals'), '__init__')
    created = sorted({ast.unparse(t_)[5:] for s in ast.walk(init) if isinstance(s, (ast.Assign, ast.AnnAssign)) for t_ in (s.targets if isinstance(s, ast.Assign) else [s.target])
                      if ast.unparse(t_).startswith('self.') and s.value is not None and isinstance(s.value, (ast.Dict, ast.Call, ast.Set, ast.List))
                      and (isinstance(s.value, ast.Dict) or ast.unparse(s.value.func if isinstance(s.value, ast.Call) else s.value) in ('dict', 'set', 'GlobalMaps', 'SchemaCache', 'defaultdict'))})
    cleared = {c[5:-8] for c in top if c.startswith('self.') and c.endswith('.clear()')}
    conditional = {ast.unparse(n.func)[5:-6] for s in fn.body if not isinstance(s, ast.Expr) for n in ast.walk(s)
                   if isinstance(n, ast.Call) and ast.unparse(n.func).startswith('self.') and ast.unparse(n.func).endswith('.clear')}
    run.vc('every-container-created-by-init-is-cleared-or-schema-registry', z3.BoolVal(True), [],
           z3.BoolVal(all(c in cleared or c in conditional and c in ('_schemas', 'namespaces') for c in created)), 'init=' + ','.join(created))


# ------------------------------------------------------------------ GlobalMaps.build: the order of the staged builds (C09)
t = Target('builders.GlobalMaps.build.order', ['C09'], 'xmlschema/validators/builders.py', 'GlobalMaps.build',
           note='the build order that makes the outcome independent of how declarations are split over documents: notations, attributes and attribute groups are built first, then '
                'the default attribute group of EVERY schema document is resolved (a name becomes the group), and only then the types, elements and groups are built - a type parsed '
                'while some document still holds an unresolved name silently gets no default attributes; each map is built exactly once',
           assumes=['syntactic obligation on the real AST (no solver): order of the top-level statements of build()'])


@t.symbolic
def _(run):
    import ast
    ex = run.exec(); body = ex.fn.body
    pos = {}
    for i, s_ in enumerate(body):
        src = ast.unparse(s_)
        for m in ('notations', 'attributes', 'attribute_groups', 'types', 'elements', 'groups'):
            if src == f'self.{m}.build()': pos.setdefault(m, []).append(i)
        if isinstance(s_, ast.For) and 'default_attributes' in src: pos.setdefault('resolve_default_attributes', []).append(i)
    run.paths = 1
    once = all(len(pos.get(m, [])) == 1 for m in ('notations', 'attributes', 'attribute_groups', 'types', 'elements', 'groups', 'resolve_default_attributes'))
    run.vc('every-map-built-exactly-once-at-top-level', z3.BoolVal(True), [], z3.BoolVal(once), 'build ' + str({k: v for k, v in pos.items()}))
    if not once: return
    p = {k: v[0] for k, v in pos.items()}
    run.vc('attribute-groups-before-the-default-attribute-resolution', z3.BoolVal(True), [], z3.BoolVal(max(p['attributes'], p['attribute_groups']) < p['resolve_default_attributes']), 'build')
    run.vc('default-attributes-resolved-before-types-elements-groups', z3.BoolVal(True), [], z3.BoolVal(p['resolve_default_attributes'] < min(p['types'], p['elements'], p['groups'])), 'build')
    run.vc('types-before-elements-and-groups', z3.BoolVal(True), [], z3.BoolVal(p['types'] < min(p['elements'], p['groups'])), 'build')
