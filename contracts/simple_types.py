"""Contracts on validators/simple_types.py: first-match union decoding with pushed pattern facets (C02)."""
import z3
from pyvc.core import Target
from pyvc.se import *

F = 'xmlschema/validators/simple_types.py'

t = Target('simple_types.XsdUnion.raw_decode', ['C02', 'C19'], F, 'XsdUnion.raw_decode',
           note='the result is that of the least-index member whose strict decode does not raise; the pattern facets pushed by the restriction steps above the union are ALL applied '
                'to the text as normalised by THAT member; no member: skip returns the raw text, lax re-decodes with the first member that failed other than by a '
                'decode error (patterns applied with its normalisation), otherwise exactly one decode error is emitted',
           assumes=['member decoding is an uninterpreted relation ok(member) / result(member); XMLSchemaDecodeError vs other validation errors as an uninterpreted predicate'])


@t.symbolic
def _(run):
    from xmlschema.validators.exceptions import XMLSchemaValidationError, XMLSchemaDecodeError
    ex = run.exec()
    mts = z3.Const('member_types', z3.SeqSort(Ref)); n = z3.Length(mts)
    ok = z3.Function('ok', Ref, B); res = z3.Function('res', Ref, Ref); is_dec = z3.Function('raises_decode_error', Ref, B)
    norm = z3.Function('normalize', Ref, S, S); obj = z3.String('obj')
    st = new_state(); st.ghost['ff'] = {}
    st.objf['self'] = {'member_types': VList(st.alloc(kind='list', seq=mts, esort=Ref))}
    st.objf['context'] = {'patterns': VOpt(z3.Bool('patterns_none'), VStr(SV('<patterns>')))}
    validation = z3.String('validation')
    st.env.update(self=VObj('self'), obj=VStr(obj), validation=VStr(validation), context=VObj('context'))
    st.ghost.update(errs=0, lax_redecode=None, pattern_args=(), pattern_fail=z3.Bool('pattern_fails'))
    orig_assign = ex.s_Assign

    def s_Assign(node, s):
        src = ast.unparse(node)
        if src == "result = mt.raw_decode(obj, 'strict', context)":
            mt = s.env['mt']; outs = []
            s1 = s.fork(ok(mt.t), mark='+member-ok'); s1.env['result'] = VRef(res(mt.t)); outs.append(('fall', None, s1))
            s2 = s.fork(z3.And(z3.Not(ok(mt.t)), is_dec(mt.t)), mark='!decode-error'); outs.append(('raise', VExc(XMLSchemaDecodeError), s2))
            s3 = s.fork(z3.And(z3.Not(ok(mt.t)), z3.Not(is_dec(mt.t))), mark='!validation-error'); outs.append(('raise', VExc(XMLSchemaValidationError), s3))
            return [o for o in outs if ex.feasible(o[2])]
        if src == 'result = xsd_type.raw_decode(obj, validation, context)':
            x = s.env['xsd_type']; s.ghost['lax_redecode'] = x.val if isinstance(x, VOpt) else x
            s.env['result'] = VRef(z3.Const('lax_result', Ref)); return [('fall', None, s)]
        if 'raw_decode(' in src: raise Unsupported('unexpected member decode call: ' + src)
        return orig_assign(node, s)
    ex.s_Assign = s_Assign

    def isinstance_(e, s, r, a, k):
        tn = ast.unparse(a[1])
        if isinstance(a[0], VExc): return VBool(z3.BoolVal(a[0].cls is not None and issubclass(a[0].cls, XMLSchemaDecodeError)))
        if isinstance(a[0], VStr): return VBool(z3.BoolVal('str' in tn))
        raise Unsupported('isinstance on ' + tn)
    ex.callees['isinstance'] = isinstance_
    ex.names['XMLSchemaDecodeError'] = OPAQUE
    ex.callees['raw_encode_value'] = lambda e, s, r, a, k: VRef(z3.Const('raw_enc', Ref))

    def decode_error(e, s, recv, a, k): s.ghost['errs'] += 1; return NONE
    ex.callees['decode_error'] = decode_error
    ex.callees['validation_error'] = lambda e, s, recv, a, k: NONE
    ex.callees['normalize'] = lambda e, s, recv, a, k: VStr(norm((recv.val if isinstance(recv, VOpt) else recv).t, lift(a[0]).t))

    def patterns_call(e, s, recv, a, k):
        s.ghost['pattern_args'] = s.ghost['pattern_args'] + (lift(a[0]).t,)
        e.pending_raise.append((s.ghost['pattern_fail'], VExc(XMLSchemaValidationError)))
        return NONE
    ex.callees['patterns'] = patterns_call
    k = z3.Int('k')

    def inv(idx, none, ref):
        j = z3.FreshConst(I, 'j')
        return z3.And(z3.ForAll([k], z3.Implies(z3.And(k >= 0, k < idx), z3.Not(ok(mts[k])))),
                      none == z3.ForAll([k], z3.Implies(z3.And(k >= 0, k < idx), is_dec(mts[k]))),
                      z3.Implies(z3.Not(none), z3.Exists([j], z3.And(j >= 0, j < idx, ref == mts[j], z3.Not(is_dec(mts[j])),
                                                                    z3.ForAll([k], z3.Implies(z3.And(k >= 0, k < j), is_dec(mts[k])))))))

    def loop(e, node, s):
        if ast.unparse(node.iter) == 'patterns':
            # `for facet in patterns: facet(<text>)`: every pushed facet is applied to the same text, the first failure raises
            b = node.body
            if not (len(b) == 1 and isinstance(b[0], ast.Expr) and isinstance(b[0].value, ast.Call) and isinstance(b[0].value.func, ast.Name) and b[0].value.func.id == node.target.id
                    and len(b[0].value.args) == 1 and not b[0].value.keywords and node.target.id not in {n.id for n in ast.walk(b[0].value.args[0]) if isinstance(n, ast.Name)} and not node.orelse):
                raise Unsupported('loop over the pushed patterns drifted')
            s.ghost['pattern_args'] = s.ghost['pattern_args'] + (lift(e.ev(b[0].value.args[0], s)).t,)
            sr = s.fork(s.ghost['pattern_fail'], mark='!pattern'); sf = s.fork(z3.Not(s.ghost['pattern_fail']), mark='+pattern')
            return [o for o in (('raise', VExc(XMLSchemaValidationError), sr), ('fall', None, sf)) if e.feasible(o[2])]
        if ast.unparse(node.iter) != 'self.member_types': raise Unsupported('loop header drifted')
        x0 = s.env['xsd_type']
        e.oblige('loop-entry', s, z3.BoolVal(isinstance(x0, VNone)))
        outs = []
        i = z3.FreshConst(I, 'i'); sb = s.fork()
        xt_none = z3.FreshConst(B, 'xt_none'); xt = z3.FreshConst(Ref, 'xt')
        sb.env['xsd_type'] = VOpt(xt_none, VRef(xt)); sb.pc += [i >= 0, i < n, inv(i, xt_none, xt)]
        sb.env[node.target.id] = VRef(mts[i]); sb.ghost['i'] = i
        for kind, val, s2 in e.block(node.body, sb):
            if kind in ('fall', 'continue'):
                x2 = s2.env['xsd_type']; x2 = x2 if isinstance(x2, VOpt) else VOpt(z3.BoolVal(False), x2)
                e.oblige('loop-preserve', s2, inv(i + 1, x2.none, x2.val.t))
            else: outs.append((kind, val, s2))
        se = s.fork(); xn, xr = z3.FreshConst(B, 'xt_none'), z3.FreshConst(Ref, 'xt'); se.env['xsd_type'] = VOpt(xn, VRef(xr)); se.pc.append(inv(n, xn, xr)); se.ghost['i'] = None
        se.ghost['final_xt'] = (xn, xr)
        outs.append(('fall', None, se)); return outs
    ex.s_For = lambda node, s: loop(ex, node, s)
    modes = z3.Or(validation == SV('strict'), validation == SV('lax'), validation == SV('skip'))
    outs = ex.run(st, modes)
    pnone = z3.Bool('patterns_none')

    def first_match(kind, v, s):
        i = s.ghost.get('i')
        if i is not None:
            if kind != 'return': return z3.BoolVal(False)
            return z3.And(ok(mts[i]), v.t == res(mts[i]), z3.ForAll([k], z3.Implies(z3.And(k >= 0, k < i), z3.Not(ok(mts[k])))))
        none_ok = z3.ForAll([k], z3.Implies(z3.And(k >= 0, k < n), z3.Not(ok(mts[k]))))
        if kind != 'return': return z3.BoolVal(False)
        redec = s.ghost['lax_redecode']
        return z3.And(none_ok, z3.If(validation == SV('skip'), z3.BoolVal(s.ghost['errs'] == 0 and redec is None), z3.BoolVal(s.ghost['errs'] == 1 or redec is not None)))

    def patterns_ok(kind, v, s):
        i = s.ghost.get('i'); args = s.ghost['pattern_args']
        if kind != 'return': return None
        if i is not None:   # matched member i: patterns (when pushed) are applied exactly once, to the text normalised by member i
            return z3.If(pnone, z3.BoolVal(len(args) == 0), z3.BoolVal(len(args) == 1) if len(args) != 1 else (args[0] == norm(mts[i], obj)))
        redec = s.ghost['lax_redecode']
        if redec is None: return z3.BoolVal(len(args) == 0)
        return z3.If(pnone, z3.BoolVal(len(args) == 0), z3.BoolVal(len(args) == 1) if len(args) != 1 else (args[0] == norm(redec.t, obj)))
    reset = lambda kind, v, s: z3.BoolVal(isinstance(s.objf['context']['patterns'], VNone) or (isinstance(s.objf['context']['patterns'], VOpt) and z3.is_true(z3.simplify(s.objf['context']['patterns'].none))))
    run.post(ex, outs, modes, {'first-matching-member-decides': first_match, 'pushed-patterns-applied-to-the-member-normalised-text': patterns_ok,
                               'pushed-patterns-consumed': reset})


def pushed_patterns_model(ex, st, ctx_none):
    """context.patterns is None or the list of the pattern facets pushed by the restriction steps above: a step pushes its own facets by creating the list `[self.patterns]`
    or by appending to the list that is there.  Returns (initial field value, predicate own(x))."""
    st.objf['outer_list'] = {}; st.objf['fresh_list'] = {}
    init = VOpt(ctx_none, VObj('outer_list')); st.objf['context']['patterns'] = init
    st.ghost.update(appended=(), fresh=None)
    orig_list = ex.e_List

    def e_List(e, s):
        if ast.unparse(e) == '[self.patterns]': s.ghost['fresh'] = ex.ev(e.elts[0], s); return VObj('fresh_list')
        return orig_list(e, s)
    ex.e_List = e_List

    def append(e, s, recv, a, k):
        if not (isinstance(recv, VObj) and recv.name == 'outer_list' and len(a) == 1): raise Unsupported('append on another list')
        s.ghost['appended'] = s.ghost['appended'] + (a[0],); return NONE
    ex.callees['append'] = append
    return init


def pushed_state(s, init, own):
    """('fresh' | 'appended' | 'unchanged' | 'other') for the state of context.patterns on a path"""
    cp = s.objf['context']['patterns']; app = s.ghost['appended']; fresh = s.ghost['fresh']
    if isinstance(cp, VOpt) and cp is not init and z3.is_false(z3.simplify(cp.none)): cp = cp.val       # a value stored into an Optional field
    if isinstance(cp, VObj) and cp.name == 'fresh_list' and fresh is not None and own(fresh) and app == (): return 'fresh'
    if cp is init and len(app) == 1 and own(app[0]) and fresh is None: return 'appended'
    if cp is init and app == () and fresh is None: return 'unchanged'
    return 'other'


# ------------------------------------------------------------------ XsdList.raw_decode: item-wise decoding
t = Target('simple_types.XsdList.raw_decode', ['C02', 'C05'], F, 'XsdList.raw_decode',
           note='one item-type decode per whitespace-separated chunk, in order, every chunk decoded with the caller\'s validation mode and context; the reported item is the '
                'decoded value for kept datatypes (numbers, lists; decimals, dates, binaries only when requested), the chunk text itself for dates / durations and for QNames '
                'when typed decoding is off, decimal_type(value) for decimals when a decimal type is given, str(value) otherwise; a nested list is an error',
           assumes=['item decoding is uninterpreted; the kind of the decoded value (list, kept datatype, None, str, Decimal, date/duration, other) is a symbolic tag'])


@t.symbolic
def _(run):
    ex = run.exec(); st = new_state()
    chunks = z3.Const('chunks', z3.ArraySort(I, S)); n = z3.Int('n_chunks')       # (length, index -> chunk): the sequence theory is incomplete for refutations
    dec = z3.Function('item_decode', S, Ref); kind = z3.Function('kind', Ref, I)    # 0 list, 1 kept datatype, 2 None, 3 str, 4 Decimal, 5 date/duration, 6 other
    as_text = z3.Function('as_text', Ref, S); conv_dec = z3.Function('decimal_type', Ref, Ref); tostr = z3.Function('str', Ref, Ref); text_item = z3.Function('text_item', S, Ref)
    starts_brace = z3.Function('starts_with_brace', Ref, B); strip = z3.Function('strip', S, S)
    is_dc = z3.Bool('context_is_DecodeContext'); dt_none = z3.Bool('decimal_type_none'); is_qn = z3.Bool('is_qname')
    st.objf['item_type'] = {}; st.objf['context'] = {'keep_datatypes': OPAQUE, 'decimal_type': VOpt(dt_none, VStr(SV('<decimal_type>')))}
    st.objf['self'] = {'item_type': VObj('item_type')}
    st.env.update(self=VObj('self'), obj=VStr(z3.String('obj')), validation=VStr(z3.String('validation')), context=VObj('context'))
    st.ghost.update(errs=0, decoded=(), ff={})
    ex.callees['normalize'] = lambda e, s, r, a, k: VStr(z3.String('normalized'))
    ex.callees['split'] = lambda e, s, r, a, k: ('chunks',)

    def raw_decode(e, s, r, a, k):
        s.ghost['decoded'] = s.ghost['decoded'] + ((lift(a[0]).t, lift(a[1]).t, a[2]),)
        return VRef(dec(lift(a[0]).t))
    ex.callees['raw_decode'] = raw_decode

    def isinstance_(e, s, r, a, k):
        tn = ast.unparse(a[1])
        if isinstance(a[0], VObj) and a[0].name == 'context': return VBool(is_dc)
        x = a[0].t
        if tn == 'list': return VBool(kind(x) == 0)
        if tn == 'context.keep_datatypes': return VBool(kind(x) == 1)
        if tn == 'str': return VBool(kind(x) == 3)
        if tn == 'Decimal': return VBool(kind(x) == 4)
        if tn == '(AbstractDateTime, Duration)': return VBool(kind(x) == 5)
        raise Unsupported('isinstance ' + tn)
    ex.callees['isinstance'] = isinstance_
    ex.names.update(DecodeContext=OPAQUE, Decimal=OPAQUE, AbstractDateTime=OPAQUE, Duration=OPAQUE)
    ex.callees['is_qname'] = lambda e, s, r, a, k: VBool(is_qn)

    def verr(e, s, r, a, k): s.ghost['errs'] += 1; return NONE
    ex.callees['validation_error'] = verr
    ex.callees['_'] = lambda *a: OPAQUE; ex.callees['format'] = lambda *a: OPAQUE
    ex.callees['str'] = lambda e, s, r, a, k: VRef(tostr(a[0].t))
    ex.callees['strip'] = lambda e, s, recv, a, k: VStr(strip(recv.t))
    ex.callees['decimal_type'] = lambda e, s, recv, a, k: VRef(conv_dec(a[0].t))
    orig_sub, orig_cmp, orig_call = ex.e_Subscript, ex.cmp, ex.e_Call

    def e_Subscript(e, s):
        if ast.unparse(e) == 'result[:1]': return ('prefix-of-result', ex.ev(e.value, s))
        return orig_sub(e, s)
    ex.e_Subscript = e_Subscript

    def cmp(op, l_, r_, s):
        if isinstance(l_, tuple) and l_ and l_[0] == 'prefix-of-result' and isinstance(op, ast.Eq): return starts_brace(l_[1].t)
        if isinstance(op, (ast.Is, ast.IsNot)) and isinstance(l_, VRef) and isinstance(lift(r_), VNone):
            res = kind(l_.t) == 2; return res if isinstance(op, ast.Is) else z3.Not(res)
        return orig_cmp(op, l_, r_, s)
    ex.cmp = cmp
    ex.key = lambda v, o=ex.key: v.t if isinstance(v, VRef) else text_item(v.t) if isinstance(v, VStr) else o(v)

    def want_item(c):
        r = dec(c); kd = kind(r)
        return z3.If(z3.Or(z3.Not(is_dc), kd == 1, kd == 2), r,
                     z3.If(kd == 3, z3.If(z3.And(starts_brace(r), is_qn), text_item(c), r),
                           z3.If(kd == 4, z3.If(dt_none, r, conv_dec(r)),
                                 z3.If(kd == 5, text_item(strip(c)), tostr(r)))))
    k = z3.Int('k')

    # `items` is modelled as (length, array index -> value): sequence theory plus quantifiers leaves both solvers undecided here
    IA = z3.ArraySort(I, Ref)

    def inv(s, i):
        return z3.And(s.ghost['items_len'] == i, z3.ForAll([k], z3.Implies(z3.And(k >= 0, k < i), s.ghost['items_arr'][k] == want_item(chunks[k]))))

    def append(e, s, recv, a, k_):
        if not (isinstance(recv, VObj) and recv.name == 'items'): raise Unsupported('append on another list')
        s.ghost['items_arr'] = z3.Store(s.ghost['items_arr'], s.ghost['items_len'], ex.key(a[0])); s.ghost['items_len'] = s.ghost['items_len'] + 1; return NONE
    ex.callees['append'] = append
    ex.callees['extend'] = lambda e_, s_, r_, a_, k_: NONE

    def havoc(s, tag):
        s.ghost['items_len'] = z3.FreshConst(I, 'len_' + tag); s.ghost['items_arr'] = z3.FreshConst(IA, 'arr_' + tag)

    def loop(e, node, s):
        # the items are the maximal runs of non-whitespace of the normalised text (XML whitespace only: ghost sequence `chunks`)
        if ast.unparse(node.iter) != 'filter(None, self._REGEX_SPACES.split(self.normalize(obj)))': raise Unsupported('loop header drifted')
        e.oblige('loop-entry', s, inv(s, z3.IntVal(0))); outs = []
        i = z3.FreshConst(I, 'i'); sb = s.fork(); havoc(sb, 'body')
        invf = inv(sb, i)
        sb.pc += [i >= 0, i < n, invf, kind(dec(chunks[i])) != 0, kind(dec(chunks[i])) >= 1, kind(dec(chunks[i])) <= 6]
        sb.env[node.target.id] = VStr(chunks[i]); before = len(sb.ghost['decoded']); len0, arr0 = sb.ghost['items_len'], sb.ghost['items_arr']
        for kind_, val, s2 in e.block(node.body, sb):
            if kind_ in ('fall', 'continue'):
                # the step itself, without quantifiers: exactly the reported item of this chunk is appended
                s3 = s2.fork(); s3.pc = [p_ for p_ in s2.pc if not p_.eq(invf)]      # the step does not need the (quantified) invariant: a refutation then has a finite model
                e.oblige('appended-item-is-the-reported-value-of-the-chunk', s3, z3.And(s2.ghost['items_len'] == len0 + 1, s2.ghost['items_arr'] == z3.Store(arr0, len0, want_item(chunks[i]))))
                e.oblige('loop-preserve', s2, inv(s2, i + 1))
                d = s2.ghost['decoded'][before:]
                e.oblige('one-item-decode-per-chunk-with-the-callers-mode-and-context', s2,
                         z3.And(z3.BoolVal(len(d) == 1 and isinstance(d[0][2], VObj) and d[0][2].name == 'context'), d[0][0] == chunks[i], d[0][1] == s2.env['validation'].t) if len(d) == 1 else z3.BoolVal(False))
            else: outs.append((kind_, val, s2))
        sn = s.fork(); havoc(sn, 'nested'); j = z3.FreshConst(I, 'j')
        sn.pc += [j >= 0, j < n, kind(dec(chunks[j])) == 0]; sn.env[node.target.id] = VStr(chunks[j]); e0 = sn.ghost['errs']
        for kind_, val, s2 in e.block(node.body, sn):
            e.oblige('nested-list-item-is-an-error', s2, z3.BoolVal(s2.ghost['errs'] == e0 + 1))
        se = s.fork(); havoc(se, 'end'); se.pc.append(inv(se, n)); outs.extend(e.block(node.orelse, se) if node.orelse else [('fall', None, se)])
        return outs
    ex.s_For = lambda node, s: loop(ex, node, s)
    st.objf['items'] = {}; st.ghost['items_len'] = z3.IntVal(0); st.ghost['items_arr'] = z3.Const('items_arr0', IA)
    orig_list = ex.e_List
    ex.e_List = lambda e, s: VObj('items') if not e.elts else orig_list(e, s)
    pre = n >= 0; outs = ex.run(st, pre)

    def post(kind_, v, s):
        if kind_ != 'return' or not (isinstance(v, VObj) and v.name == 'items'): return z3.BoolVal(False)
        return z3.And(s.ghost['items_len'] == n, z3.ForAll([k], z3.Implies(z3.And(k >= 0, k < n), s.ghost['items_arr'][k] == want_item(chunks[k]))))
    run.post(ex, outs, pre, {'items-in-order-one-per-chunk': post})


# ------------------------------------------------------------------ XsdAtomicRestriction.raw_decode: every facet of the restriction is applied (C02, C14)
t = Target('simple_types.XsdAtomicRestriction.raw_decode', ['C02', 'C14'], F, 'XsdAtomicRestriction.raw_decode',
           note='a restricted simple type decodes with its base type and then applies EVERY validator of the restriction to the decoded value, once each, collecting their errors with the '
                'caller\'s validation mode; the patterns of the restriction are applied to the text as normalised by the restriction - or, when the primitive type is a union, handed to '
                'the union through the context IN ADDITION to the patterns that the restriction steps above have pushed (every step of a derivation contributes its facets); the value returned is the base type\'s value; a mixed complex base returns the text',
           assumes=['the validators are an uninterpreted finite set of callables, each either passing or raising XMLSchemaValidationError; base decoding is uninterpreted',
                    'obj is a str (bytes take the same path)'])


@t.symbolic
def _(run):
    from xmlschema.validators.exceptions import XMLSchemaValidationError
    ex = run.exec(); st = new_state()
    obj = z3.String('obj'); norm = z3.Function('normalize', S, S); fails = z3.Function('validator_fails', Ref, B); vdom = z3.Const('validators', z3.ArraySort(Ref, B))
    pat_none = z3.Bool('no_patterns'); pat_fails = z3.Bool('patterns_fail'); prim_union = z3.Bool('primitive_is_union'); ctx_none = z3.Bool('context_patterns_none')
    base_simple, content_simple, base_mixed = z3.Bool('base_is_simple'), z3.Bool('base_content_is_simple'), z3.Bool('base_is_mixed')
    res_none = z3.Bool('base_result_none')
    st.objf['content'] = {}; st.objf['base'] = {'content': VObj('content'), 'mixed': VBool(base_mixed)}
    st.objf['self'] = {'patterns': VOpt(pat_none, VStr(SV('<patterns>'))), 'primitive_type': VObj('prim'), 'base_type': VObj('base'), 'validators': ('validators',)}
    st.objf['prim'] = {}
    st.objf['context'] = {}
    init_cp = pushed_patterns_model(ex, st, ctx_none)
    own = lambda x: isinstance(x, VOpt) and x.none.eq(pat_none)
    st.env.update(self=VObj('self'), obj=VStr(obj), validation=VStr(z3.String('validation')), context=VObj('context'))
    st.ghost.update(errs=0, pattern_args=(), called=z3.K(Ref, False), twice=z3.BoolVal(False), decoded=None, cur=None, verrs=z3.K(Ref, False))
    ex.names.update(XsdUnion=OPAQUE, XsdSimpleType=OPAQUE, XMLSchemaValueError=OPAQUE)

    def isinstance_(e, s, r, a, k):
        tn = ast.unparse(a[1]); x = a[0]
        if isinstance(x, VStr): return VBool(z3.BoolVal('str' in tn))
        if isinstance(x, VObj) and x.name == 'prim': return VBool(prim_union)
        if isinstance(x, VObj) and x.name == 'base': return VBool(base_simple)
        if isinstance(x, VObj) and x.name == 'content': return VBool(content_simple)
        raise Unsupported('isinstance ' + tn)
    ex.callees['isinstance'] = isinstance_
    ex.callees['normalize'] = lambda e, s, r, a, k: VStr(norm(lift(a[0]).t))
    ex.callees['_'] = lambda *a: OPAQUE

    def patterns_call(e, s, r, a, k):
        s.ghost['pattern_args'] = s.ghost['pattern_args'] + (lift(a[0]).t,)
        e.pending_raise.append((pat_fails, VExc(XMLSchemaValidationError)))
        return NONE
    ex.callees['patterns'] = patterns_call

    def verr(e, s, r, a, k):
        s.ghost['errs'] += 1
        if s.ghost.get('cur') is not None: s.ghost['verrs'] = z3.Store(s.ghost['verrs'], s.ghost['cur'], True)
        else: s.ghost['errs_outside'] = s.ghost.get('errs_outside', 0) + 1
        return NONE
    ex.callees['validation_error'] = verr

    def raw_decode(e, s, r, a, k):
        s.ghost['decoded'] = (r.name if isinstance(r, VObj) else '?', lift(a[0]).t)
        return VOpt(res_none, VRef(z3.Const('base_result', Ref)))
    ex.callees['raw_decode'] = raw_decode

    def validator(e, s, r, a, k):
        x = s.ghost['cur']
        s.ghost['twice'] = z3.Or(s.ghost['twice'], s.ghost['called'][x]); s.ghost['called'] = z3.Store(s.ghost['called'], x, True)
        e.pending_raise.append((fails(x), VExc(XMLSchemaValidationError)))
        return NONE
    ex.callees['validator'] = validator
    q = z3.Const('q', Ref)

    def loop(ex_, node, s):
        inv = lambda s2, seen: z3.And(z3.ForAll([q], s2.ghost['called'][q] == seen[q]), z3.Not(s2.ghost['twice']), z3.ForAll([q], s2.ghost['verrs'][q] == z3.And(seen[q], fails(q))))
        def havoc(s2): s2.ghost['called'] = z3.FreshConst(z3.ArraySort(Ref, B), 'called'); s2.ghost['twice'] = z3.FreshConst(B, 'twice'); s2.ghost['verrs'] = z3.FreshConst(z3.ArraySort(Ref, B), 'verrs')
        def bind(sb, x): sb.env['validator'] = VRef(x); sb.ghost['cur'] = x
        outs = foreach(ex_, node, s, Ref, vdom, bind, inv, havoc)
        for _, _, s2 in outs: s2.ghost['cur'] = None
        return outs
    ex.invariants['for validator in self.validators'] = loop
    pre = z3.BoolVal(True)
    outs = ex.run(st, pre)

    def every_validator(kind, v, s):
        if kind == 'raise': return z3.BoolVal(False) if not (isinstance(v, VExc) and v.cls is not None and v.cls.__name__ == 'XMLSchemaValueError') else z3.BoolVal(True)
        reached = z3.And(z3.Or(base_simple, content_simple), z3.Not(res_none))
        return z3.Implies(reached, z3.And(z3.ForAll([q], s.ghost['called'][q] == vdom[q]), z3.Not(s.ghost['twice']), z3.ForAll([q], s.ghost['verrs'][q] == z3.And(vdom[q], fails(q)))))

    def patterns(kind, v, s):
        if kind != 'return': return None
        args = s.ghost['pattern_args']
        applied_here = z3.And(z3.Not(pat_none), z3.Not(prim_union))
        ok_args = z3.If(applied_here, z3.BoolVal(len(args) == 1) if len(args) != 1 else (args[0] == norm(obj)), z3.BoolVal(len(args) == 0))
        push = z3.And(z3.Not(pat_none), prim_union); how = pushed_state(s, init_cp, own)
        ok_push = z3.If(push, z3.If(ctx_none, z3.BoolVal(how == 'fresh'), z3.BoolVal(how == 'appended')), z3.BoolVal(how == 'unchanged'))
        return z3.And(ok_args, ok_push)

    def base_value(kind, v, s):
        if kind != 'return': return None
        dec = s.ghost['decoded']
        simple = z3.Or(base_simple, content_simple)
        if dec is None: return z3.Not(simple)      # the mixed-base path: the text is returned
        who_ok = z3.If(base_simple, z3.BoolVal(dec[0] == 'base'), z3.BoolVal(dec[0] == 'content'))
        return z3.And(simple, who_ok, dec[1] == norm(obj), z3.BoolVal(isinstance(v, VOpt) and v.none is res_none))
    def pattern_error(kind, v, s):
        if kind != 'return': return None
        n = s.ghost.get('errs_outside', 0)
        return z3.If(z3.And(z3.Not(pat_none), z3.Not(prim_union), pat_fails), z3.BoolVal(n == 1), z3.BoolVal(n == 0))
    run.post(ex, outs, pre, {'a-pattern-failure-is-collected-as-one-error': pattern_error, 'every-validator-applied-once-and-its-error-collected': every_validator, 'patterns-applied-here-or-handed-to-the-union': patterns, 'decoded-by-the-base-type-from-the-normalised-text': base_value})


# ------------------------------------------------------------------ XsdAtomicRestriction.raw_encode: the pattern facets apply to the text that is written (C02, C05)
t = Target('simple_types.XsdAtomicRestriction.raw_encode.patterns', ['C02', 'C05'], F, 'XsdAtomicRestriction.raw_encode',
           note='encode direction of a restricted simple type (here: a restriction without value validators, so that the clause about patterns stands alone): whatever the value to encode is - a '
                'string, a typed Python value, a list - the text produced by the base type is checked against the pattern facets of the restriction exactly once, and a mismatch is reported with '
                'the caller\'s validation mode; when the primitive type is a union the patterns are handed to the union through the context instead, in addition to those the restriction steps '
                'above have pushed; the text returned is the base type\'s; a list, an atomic or any other non-union primitive type makes no difference',
           assumes=['base encoding, normalize, is_list / is_atomic are uninterpreted; the validators loop is covered on the decode side (same loop) and by the bounded family C02.encode_typed_values'])


@t.symbolic
def _(run):
    from xmlschema.validators.exceptions import XMLSchemaValidationError
    ex = run.exec(); st = new_state()
    pat_none, pat_fails, prim_union, prim_atomic, prim_list, ctx_none = (z3.Bool(n) for n in ('no_patterns', 'patterns_fail', 'primitive_is_union', 'primitive_is_atomic', 'primitive_is_list', 'context_patterns_none'))
    base_simple, content_simple, base_mixed, res_none, obj_str, obj_iter = (z3.Bool(n) for n in ('base_is_simple', 'base_content_is_simple', 'base_is_mixed', 'base_result_none', 'obj_is_str', 'obj_is_iterable'))
    result = z3.String('encoded_text')
    st.objf['content'] = {}; st.objf['base'] = {'content': VObj('content'), 'mixed': VBool(base_mixed)}; st.objf['prim'] = {}
    st.objf['self'] = {'patterns': VOpt(pat_none, VStr(SV('<patterns>'))), 'primitive_type': VObj('prim'), 'base_type': VObj('base'), 'validators': VBool(z3.BoolVal(False)), 'max_length': VInt(z3.Int('max_length'))}
    st.objf['context'] = {'namespaces': OPAQUE}
    init_cp = pushed_patterns_model(ex, st, ctx_none)
    own = lambda x: isinstance(x, VOpt) and x.none.eq(pat_none)
    st.objf['obj'] = {}
    st.env.update(self=VObj('self'), obj=VObj('obj'), validation=VStr(z3.String('validation')), context=VObj('context'))
    st.ghost.update(errs=0, pattern_args=(), encoded=0, pushed_at_encode=None)
    ex.names.update(XsdUnion=OPAQUE, XsdSimpleType=OPAQUE, XMLSchemaValueError=OPAQUE, str=OPAQUE, bytes=OPAQUE)

    def isinstance_(e, s, r, a, k):
        tn = ast.unparse(a[1]); x = a[0]
        if isinstance(x, VObj) and x.name == 'prim': return VBool(prim_union) if 'XsdUnion' in tn else (_ for _ in ()).throw(Unsupported('isinstance prim ' + tn))
        if isinstance(x, VObj) and x.name == 'base': return VBool(base_simple)
        if isinstance(x, VObj) and x.name == 'content': return VBool(content_simple)
        if 'str' in tn: return VBool(obj_str) if isinstance(x, VObj) else VBool(z3.BoolVal(isinstance(x, VStr)))
        if tn == 'list': return VBool(z3.And(obj_iter, z3.Not(obj_str)))
        raise Unsupported('isinstance ' + tn)
    ex.callees['isinstance'] = isinstance_
    ex.callees['hasattr'] = lambda e, s, r, a, k: VBool(obj_iter)
    ex.callees['is_list'] = lambda e, s, r, a, k: VBool(prim_list)
    ex.callees['is_atomic'] = lambda e, s, r, a, k: VBool(prim_atomic)
    ex.callees['is_union'] = lambda e, s, r, a, k: VBool(prim_union)
    ex.callees['normalize'] = lambda e, s, r, a, k: a[0]
    ex.callees['str'] = lambda e, s, r, a, k: VStr(z3.String('str_of_obj'))
    ex.callees['_'] = lambda *a: OPAQUE
    orig_binop = ex.e_BinOp
    ex.e_BinOp = lambda e, s: OPAQUE if isinstance(e.op, ast.Mod) else orig_binop(e, s)
    orig_cmp, orig_list = ex.cmp, getattr(ex, 'e_List', None)

    def cmp(op, l_, r_, s):
        if isinstance(l_, VObj) and l_.name == 'obj':
            if isinstance(op, (ast.Is, ast.IsNot)) and isinstance(r_, VNone): return z3.BoolVal(isinstance(op, ast.IsNot))
            if isinstance(op, (ast.Eq, ast.NotEq)): return z3.Bool('obj_equals_empty_string') if isinstance(op, ast.Eq) else z3.Not(z3.Bool('obj_equals_empty_string'))
        return orig_cmp(op, l_, r_, s)
    ex.cmp = cmp
    orig_ev = ex.ev
    def ev(e, s):
        if isinstance(e, ast.IfExp) and ast.unparse(e).startswith('[] if obj is None'): return VObj('obj')       # obj wrapped into a list: still "the value to encode"
        if isinstance(e, ast.List) and ast.unparse(e) != '[self.patterns]': return VObj('obj')
        return orig_ev(e, s)
    ex.ev = ev

    def patterns_call(e, s, r, a, k):
        arg = a[0]
        s.ghost['pattern_args'] = s.ghost['pattern_args'] + ((arg.val.t if isinstance(arg, VOpt) else arg.t) if isinstance(arg, (VStr, VOpt)) else None,)
        e.pending_raise.append((pat_fails, VExc(XMLSchemaValidationError)))
        return NONE
    ex.callees['patterns'] = patterns_call

    def verr(e, s, r, a, k): s.ghost['errs'] += 1; return NONE
    ex.callees['validation_error'] = verr

    def raw_encode(e, s, r, a, k):
        s.ghost['encoded'] += 1
        s.ghost['pushed_at_encode'] = pushed_state(s, init_cp, own)
        return VOpt(res_none, VStr(result))
    ex.callees['raw_encode'] = raw_encode
    pre = z3.And(z3.Not(z3.And(prim_union, prim_atomic, prim_list)), z3.Implies(prim_list, z3.Not(prim_union)), z3.Implies(prim_list, z3.Not(prim_atomic)))
    run.inputs.update(no_patterns=pat_none, patterns_fail=pat_fails, primitive_is_union=prim_union, primitive_is_list=prim_list, obj_is_str=obj_str, base_result_none=res_none)
    outs = ex.run(st, pre)
    reached = z3.Or(base_simple, z3.And(content_simple, z3.Int('max_length') != 0))

    def pattern_on_the_text(kind, v, s):
        if kind == 'raise': return z3.BoolVal(isinstance(v, VExc) and v.cls is not None and v.cls.__name__ == 'XMLSchemaValueError')
        args = s.ghost['pattern_args']
        must = z3.And(reached, z3.Not(pat_none), z3.Not(prim_union), z3.Not(res_none))
        ok_must = z3.And(z3.BoolVal(len(args) == 1 and args[0] is not None), (args[0] == result) if len(args) == 1 and args[0] is not None else z3.BoolVal(False),
                         z3.BoolVal(s.ghost['errs'] == 1) == pat_fails if True else z3.BoolVal(True))
        ok_not = z3.BoolVal(len(args) == 0 and s.ghost['errs'] == 0)
        return z3.If(must, ok_must, z3.Implies(z3.Or(z3.Not(reached), pat_none, prim_union, res_none), ok_not))

    def union_gets_the_patterns(kind, v, s):
        if kind == 'raise' or s.ghost['encoded'] == 0: return z3.BoolVal(True)
        how = s.ghost['pushed_at_encode']
        return z3.If(z3.And(z3.Not(pat_none), prim_union), z3.If(ctx_none, z3.BoolVal(how == 'fresh'), z3.BoolVal(how == 'appended')), z3.BoolVal(how == 'unchanged'))

    def returns_base_text(kind, v, s):
        if kind == 'raise': return z3.BoolVal(True)
        if s.ghost['encoded'] == 0: return z3.Implies(reached, z3.BoolVal(False))
        return z3.And(z3.BoolVal(s.ghost['encoded'] == 1), z3.BoolVal(isinstance(v, VOpt)), (v.val.t == result) if isinstance(v, VOpt) else z3.BoolVal(False))
    run.post(ex, outs, pre, {'patterns-checked-once-on-the-encoded-text-whatever-the-value-is': pattern_on_the_text, 'a-union-primitive-receives-the-patterns-through-the-context': union_gets_the_patterns,
                             'returns-the-text-of-the-base-type': returns_base_text})
