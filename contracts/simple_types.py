"""Contracts on validators/simple_types.py: first-match union decoding with pushed pattern facets (C02)."""
import z3
from pyvc.core import Target
from pyvc.se import *

F = 'xmlschema/validators/simple_types.py'

t = Target('simple_types.XsdUnion.raw_decode', ['C02'], F, 'XsdUnion.raw_decode',
           note='the result is that of the least-index member whose strict decode does not raise; pattern facets pushed by a restriction of the union are applied '
                'to the text as normalised by THAT member; no member: skip returns the raw text, lax re-decodes with the first member that failed other than by a '
                'decode error (patterns applied with its normalisation), otherwise exactly one decode error is emitted',
           assumes=['member decoding is an uninterpreted relation ok(member) / result(member); XMLSchemaDecodeError vs other validation errors as an uninterpreted predicate'])


@t.symbolic
def _(run):
    from xmlschema.validators.exceptions import XMLSchemaValidationError, XMLSchemaDecodeError
    ex = run.exec()
    mts = z3.Const('member_types', z3.SeqSort(Ref)); n = z3.Length(mts)
    ok = z3.Function('ok', Ref, B); res = z3.Function('res', Ref, Ref); is_dec = z3.Function('raises_decode_error', Ref, B)
    norm = z3.Function('normalize', Ref, S, S); obj = z3.String('obj')
    st = new_state(); st.ghost['ff'] = {}
    st.objf['self'] = {'member_types': VList(st.alloc(kind='list', seq=mts, esort=Ref))}
    st.objf['context'] = {'patterns': VOpt(z3.Bool('patterns_none'), VStr(SV('<patterns>')))}
    validation = z3.String('validation')
    st.env.update(self=VObj('self'), obj=VStr(obj), validation=VStr(validation), context=VObj('context'))
    st.ghost.update(errs=0, lax_redecode=None, pattern_args=(), pattern_fail=z3.Bool('pattern_fails'))
    orig_assign = ex.s_Assign

    def s_Assign(node, s):
        src = ast.unparse(node)
        if src == "result = mt.raw_decode(obj, 'strict', context)":
            mt = s.env['mt']; outs = []
            s1 = s.fork(ok(mt.t), mark='+member-ok'); s1.env['result'] = VRef(res(mt.t)); outs.append(('fall', None, s1))
            s2 = s.fork(z3.And(z3.Not(ok(mt.t)), is_dec(mt.t)), mark='!decode-error'); outs.append(('raise', VExc(XMLSchemaDecodeError), s2))
            s3 = s.fork(z3.And(z3.Not(ok(mt.t)), z3.Not(is_dec(mt.t))), mark='!validation-error'); outs.append(('raise', VExc(XMLSchemaValidationError), s3))
            return [o for o in outs if ex.feasible(o[2])]
        if src == 'result = xsd_type.raw_decode(obj, validation, context)':
            x = s.env['xsd_type']; s.ghost['lax_redecode'] = x.val if isinstance(x, VOpt) else x
            s.env['result'] = VRef(z3.Const('lax_result', Ref)); return [('fall', None, s)]
        if 'raw_decode(' in src: raise Unsupported('unexpected member decode call: ' + src)
        return orig_assign(node, s)
    ex.s_Assign = s_Assign

    def isinstance_(e, s, r, a, k):
        tn = ast.unparse(a[1])
        if isinstance(a[0], VExc): return VBool(z3.BoolVal(a[0].cls is not None and issubclass(a[0].cls, XMLSchemaDecodeError)))
        if isinstance(a[0], VStr): return VBool(z3.BoolVal('str' in tn))
        raise Unsupported('isinstance on ' + tn)
    ex.callees['isinstance'] = isinstance_
    ex.names['XMLSchemaDecodeError'] = OPAQUE
    ex.callees['raw_encode_value'] = lambda e, s, r, a, k: VRef(z3.Const('raw_enc', Ref))

    def decode_error(e, s, recv, a, k): s.ghost['errs'] += 1; return NONE
    ex.callees['decode_error'] = decode_error
    ex.callees['validation_error'] = lambda e, s, recv, a, k: NONE
    ex.callees['normalize'] = lambda e, s, recv, a, k: VStr(norm((recv.val if isinstance(recv, VOpt) else recv).t, lift(a[0]).t))

    def patterns_call(e, s, recv, a, k):
        s.ghost['pattern_args'] = s.ghost['pattern_args'] + (lift(a[0]).t,)
        e.pending_raise.append((s.ghost['pattern_fail'], VExc(XMLSchemaValidationError)))
        return NONE
    ex.callees['patterns'] = patterns_call
    k = z3.Int('k')

    def inv(idx, none, ref):
        j = z3.FreshConst(I, 'j')
        return z3.And(z3.ForAll([k], z3.Implies(z3.And(k >= 0, k < idx), z3.Not(ok(mts[k])))),
                      none == z3.ForAll([k], z3.Implies(z3.And(k >= 0, k < idx), is_dec(mts[k]))),
                      z3.Implies(z3.Not(none), z3.Exists([j], z3.And(j >= 0, j < idx, ref == mts[j], z3.Not(is_dec(mts[j])),
                                                                    z3.ForAll([k], z3.Implies(z3.And(k >= 0, k < j), is_dec(mts[k])))))))

    def loop(e, node, s):
        if ast.unparse(node.iter) != 'self.member_types': raise Unsupported('loop header drifted')
        x0 = s.env['xsd_type']
        e.oblige('loop-entry', s, z3.BoolVal(isinstance(x0, VNone)))
        outs = []
        i = z3.FreshConst(I, 'i'); sb = s.fork()
        xt_none = z3.FreshConst(B, 'xt_none'); xt = z3.FreshConst(Ref, 'xt')
        sb.env['xsd_type'] = VOpt(xt_none, VRef(xt)); sb.pc += [i >= 0, i < n, inv(i, xt_none, xt)]
        sb.env[node.target.id] = VRef(mts[i]); sb.ghost['i'] = i
        for kind, val, s2 in e.block(node.body, sb):
            if kind in ('fall', 'continue'):
                x2 = s2.env['xsd_type']; x2 = x2 if isinstance(x2, VOpt) else VOpt(z3.BoolVal(False), x2)
                e.oblige('loop-preserve', s2, inv(i + 1, x2.none, x2.val.t))
            else: outs.append((kind, val, s2))
        se = s.fork(); xn, xr = z3.FreshConst(B, 'xt_none'), z3.FreshConst(Ref, 'xt'); se.env['xsd_type'] = VOpt(xn, VRef(xr)); se.pc.append(inv(n, xn, xr)); se.ghost['i'] = None
        se.ghost['final_xt'] = (xn, xr)
        outs.append(('fall', None, se)); return outs
    ex.s_For = lambda node, s: loop(ex, node, s)
    modes = z3.Or(validation == SV('strict'), validation == SV('lax'), validation == SV('skip'))
    outs = ex.run(st, modes)
    pnone = z3.Bool('patterns_none')

    def first_match(kind, v, s):
        i = s.ghost.get('i')
        if i is not None:
            if kind != 'return': return z3.BoolVal(False)
            return z3.And(ok(mts[i]), v.t == res(mts[i]), z3.ForAll([k], z3.Implies(z3.And(k >= 0, k < i), z3.Not(ok(mts[k])))))
        none_ok = z3.ForAll([k], z3.Implies(z3.And(k >= 0, k < n), z3.Not(ok(mts[k]))))
        if kind != 'return': return z3.BoolVal(False)
        redec = s.ghost['lax_redecode']
        return z3.And(none_ok, z3.If(validation == SV('skip'), z3.BoolVal(s.ghost['errs'] == 0 and redec is None), z3.BoolVal(s.ghost['errs'] == 1 or redec is not None)))

    def patterns_ok(kind, v, s):
        i = s.ghost.get('i'); args = s.ghost['pattern_args']
        if kind != 'return': return None
        if i is not None:   # matched member i: patterns (when pushed) are applied exactly once, to the text normalised by member i
            return z3.If(pnone, z3.BoolVal(len(args) == 0), z3.BoolVal(len(args) == 1) if len(args) != 1 else (args[0] == norm(mts[i], obj)))
        redec = s.ghost['lax_redecode']
        if redec is None: return z3.BoolVal(len(args) == 0)
        return z3.If(pnone, z3.BoolVal(len(args) == 0), z3.BoolVal(len(args) == 1) if len(args) != 1 else (args[0] == norm(redec.t, obj)))
    reset = lambda kind, v, s: z3.BoolVal(isinstance(s.objf['context']['patterns'], VNone) or (isinstance(s.objf['context']['patterns'], VOpt) and z3.is_true(z3.simplify(s.objf['context']['patterns'].none))))
    run.post(ex, outs, modes, {'first-matching-member-decides': first_match, 'pushed-patterns-applied-to-the-member-normalised-text': patterns_ok,
                               'pushed-patterns-consumed': reset})
