"""C14 kernel: XsdGroup.has_occurs_restriction against a non-group particle (validators/groups.py).

A group of element particles e_1..e_k (k >= 1) with occurrence (gmin, gmax) is compared with an element / wildcard particle `other`.
The number of child elements the group can produce lies between gmin * LOW and gmax * HIGH where, for a sequence or all group,
LOW = sum of the minOccurs and HIGH = sum of the maxOccurs of its particles, and for a choice LOW = min of the minOccurs and
HIGH = max of the maxOccurs.  The contract (taken from the property: "the restricted content model accepts a subset"):

    result True  =>  gmin * LOW >= other.min  and  (other unbounded  or  (the group is bounded and gmax * HIGH <= other.max))

The children are summarised by the aggregates sum_min, sum_max, min_min, max_max, any_unbounded - symbolic integers constrained only by
0 <= min_min <= sum_min, 0 <= max_max <= sum_max (k >= 1) - so the obligation holds for every number of particles.
"""
import ast, itertools
import z3
from pyvc.core import Target
from pyvc.se import *
from contracts.particles import particle, P, wf, decl_inputs, real_particle

F = 'xmlschema/validators/groups.py'
t = Target('groups.XsdGroup.has_occurs_restriction', ['C14'], F, 'XsdGroup.has_occurs_restriction',
           note='group against an element / wildcard particle: True => the least and the greatest number of children the group produces (group occurrence x sum, '
                'or x min / max for a choice, of the particle occurrences) lie inside the occurrence range of the other particle; an empty group restricts anything',
           assumes=['the particles of the group are summarised by five aggregates (sum / min of minOccurs, sum / max of maxOccurs, some maxOccurs unbounded) related only by '
                    '0 <= min <= sum; the generator expressions of the body are matched textually to these aggregates',
                    'group against group is delegated to ParticleMixin.has_occurs_restriction (separately under contract)',
                    'integers are mathematical (Python int)'])


@t.symbolic
def _(run):
    ex = run.exec(); st = new_state()
    st.env['self'] = particle(st, 'self'); st.env['other'] = particle(st, 'other')
    k = z3.Int('n_particles'); sum_min, sum_max, min_min, max_max = z3.Ints('sum_min sum_max min_min max_max'); any_none = z3.Bool('some_particle_unbounded')
    model = z3.String('model'); st.objf['self']['model'] = VStr(model)
    is_group = z3.Bool('other_is_group')
    AGG = {'sum(e.min_occurs for e in self)': sum_min, 'min(e.min_occurs for e in self)': min_min,
           'sum(e.max_occurs for e in self)': sum_max, 'max(e.max_occurs for e in self)': max_max}
    orig_call, orig_truthy = ex.e_Call, ex.truthy

    def e_Call(e, s):
        src = ast.unparse(e)
        if isinstance(e.func, ast.Name) and len(e.args) == 1 and isinstance(e.args[0], ast.GeneratorExp):
            inner = ast.unparse(e.args[0]); src = f"{e.func.id}({inner[1:-1] if inner.startswith('(') and inner.endswith(')') else inner})"
        if src in AGG: return VInt(AGG[src])
        if src == 'any(e.max_occurs is None for e in self)': return VBool(any_none)
        if src == 'isinstance(other, XsdGroup)': return VBool(is_group)
        if isinstance(e.func, ast.Name) and e.func.id in ('sum', 'min', 'max', 'any', 'all'): raise Unsupported('aggregate not in the contract: ' + src)
        if src == 'super().has_occurs_restriction(other)': return VBool(z3.Bool('particle_level_result'))
        return orig_call(e, s)
    ex.e_Call = e_Call
    ex.truthy = lambda s, v: (k > 0) if isinstance(v, VObj) and v.name == 'self' else orig_truthy(s, v)
    gmin, gnone, gmax = P(st, 'self'); omin, onone, omax = P(st, 'other')
    pre = z3.And(wf(st, 'self'), wf(st, 'other'), k >= 0, z3.Not(is_group), z3.Or(model == SV('sequence'), model == SV('choice'), model == SV('all')),
                 z3.Implies(k >= 1, z3.And(min_min >= 0, min_min <= sum_min, max_max >= 0, max_max <= sum_max,
                                           z3.Implies(z3.Not(any_none), z3.And(min_min <= max_max, sum_min <= sum_max)))),
                 z3.Implies(k == 1, z3.And(min_min == sum_min, max_max == sum_max)))
    decl_inputs(run, st, ['self', 'other'])
    run.inputs.update(n_particles=k, sum_min=sum_min, sum_max=sum_max, min_min=min_min, max_max=max_max, some_particle_unbounded=any_none, model=model)
    outs = ex.run(st, pre)
    low = z3.If(model == SV('choice'), min_min, sum_min); high = z3.If(model == SV('choice'), max_max, sum_max)
    bounded = z3.And(z3.Not(gnone), z3.Not(any_none))

    def sound(kind, v, s):
        if kind != 'return' or not isinstance(v, VBool): return z3.BoolVal(False)
        return z3.Implies(z3.And(v.t, k >= 1), z3.And(gmin * low >= omin, z3.Or(onone, z3.And(bounded, gmax * high <= omax))))

    def complete(kind, v, s):     # keeps the predicate from being weakened to False: an in-range bounded group is a restriction
        if kind != 'return' or not isinstance(v, VBool): return None
        return z3.Implies(z3.And(k >= 1, gmin * low >= omin, z3.Or(onone, z3.And(bounded, gmax * high <= omax))), v.t)

    def empty(kind, v, s): return z3.Implies(k == 0, v.t) if kind == 'return' and isinstance(v, VBool) else z3.BoolVal(False)
    run.post(ex, outs, pre, {'true-implies-count-range-inside-other': sound, 'count-range-inside-other-implies-true': complete, 'empty-group-restricts-anything': empty})


def _real_group(model, gocc, kids):
    import xmlschema
    def occ(o): return ('' if o[0] == 1 else f' minOccurs="{o[0]}"') + ('' if o[1] == 1 else ' maxOccurs="%s"' % ('unbounded' if o[1] is None else o[1]))
    body = ''.join(f'<xs:element name="e{i}"{occ(o)}/>' for i, o in enumerate(kids))
    s = xmlschema.XMLSchema11(f'<xs:schema xmlns:xs="http://www.w3.org/2001/XMLSchema"><xs:complexType name="T"><xs:sequence><xs:{model}{occ(gocc) if model != "all" else ""}>{body}</xs:{model}>'
                              f'</xs:sequence></xs:complexType></xs:schema>', validation='lax')
    g = s.types['T'].content[0]
    if model == 'all': g.min_occurs, g.max_occurs = gocc          # an all group's own occurrence is (0|1, 1): set for the arithmetic only, on this private schema
    return g


@t.concrete
def _(inp):
    if 'kids' in inp: kids, model, gocc = [tuple(x) for x in inp['kids']], inp['model'], (inp['self.min_occurs'], inp['self.max_occurs'])
    else:
        # realise the aggregates of a counter-model with two particles where possible
        model, gocc = inp['model'], (inp['self.min_occurs'], inp['self.max_occurs'])
        a = (inp['min_min'], None if inp['some_particle_unbounded'] else inp['max_max'])
        if inp['n_particles'] <= 1: kids = [a]
        else: kids = [a, (inp['sum_min'] - inp['min_min'], None if inp['some_particle_unbounded'] else inp['sum_max'] - inp['max_max'])]
        if any(mn < 0 or (mx is not None and mx < mn) for mn, mx in kids) or model not in ('sequence', 'choice', 'all'): return dict(ok=True, observed='aggregates not realisable with two particles', required='-')
    g = _real_group(model, gocc, kids); other = real_particle(inp['other.min_occurs'], inp['other.max_occurs'])
    got = g.has_occurs_restriction(other)
    unb = gocc[1] is None or any(mx is None for _, mx in kids)
    if model == 'choice': low, high = min(mn for mn, _ in kids), (None if unb else max(mx for _, mx in kids))
    else: low, high = sum(mn for mn, _ in kids), (None if unb else sum(mx for _, mx in kids))
    inside = gocc[0] * low >= other.min_occurs and (other.max_occurs is None or (not unb and gocc[1] * high <= other.max_occurs))
    failed = (['true-implies-count-range-inside-other'] if got and not inside else []) + (['count-range-inside-other-implies-true'] if inside and not got else [])
    return dict(ok=not failed, observed=got, required=f'count range inside other = {inside}', failed=failed)


@t.scope
def _(tier, rng):
    occs = [(0, 1), (1, 1), (0, 2), (1, 2), (2, 2), (0, None), (1, None)]
    kid = [(0, 1), (1, 1), (1, 2), (2, 3), (0, None)]
    cases = [(m, g, ks, o) for m in ('sequence', 'choice', 'all') for g in (occs if m != 'all' else [(0, 1), (1, 1)]) for nk in (1, 2, 3) for ks in itertools.product(kid, repeat=nk)
             for o in [(0, 1), (0, 3), (1, 4), (2, 6), (0, None), (2, None), (0, 12)]]
    step = 1 if tier == 'thorough' else 9
    for i, (m, g, ks, o) in enumerate(cases):
        if i % step == 0:
            yield {'model': m, 'self.min_occurs': g[0], 'self.max_occurs': g[1], 'kids': [list(x) for x in ks], 'other.min_occurs': o[0], 'other.max_occurs': o[1]}


# ------------------------------------------------------------------ XsdGroup.is_missing: iterations still due may be empty (C01)
t = Target('groups.XsdGroup.is_missing', ['C01'], F, 'XsdGroup.is_missing',
           note='a group still lacks occurrences exactly when its counted iterations are below minOccurs (or it has not occurred at all) AND it cannot be completed by empty '
                'iterations: a group that is emptiable is never missing, whatever its counter',
           assumes=['is_emptiable() is an uninterpreted predicate of the group (under its own reading: minOccurs = 0, no particles, or emptiable content)',
                    'the counter value is occurs[self.oid] or occurs[self] (the high-occurs counter when set)'])


@t.symbolic
def _(run):
    ex = run.exec(); st = new_state()
    st.env['self'] = particle(st, 'self'); st.objf['self']['oid'] = VRef(z3.Const('oid', Ref))
    hi, lo = z3.Ints('occurs_oid occurs_self'); empt = z3.Bool('emptiable')

    def occ(e, s, r, a, k):
        key = a[0]
        return VInt(hi) if isinstance(key, VRef) else VInt(lo)
    st.env['occurs'] = VFunc(occ)
    ex.callees['is_emptiable'] = lambda e, s, r, a, k: VBool(empt)
    gmin, gnone, gmax = P(st, 'self')
    pre = z3.And(wf(st, 'self'), hi >= 0, lo >= 0)
    run.inputs.update(occurs_oid=hi, occurs_self=lo, emptiable=empt); decl_inputs(run, st, ['self'])
    outs = ex.run(st, pre)
    value = z3.If(hi != 0, hi, lo)
    run.post(ex, outs, pre, {'missing-iff-below-minimum-and-not-completable-by-empty-iterations':
                             lambda kind, v, s: (v.t == z3.And(z3.Not(empt), z3.Or(value == 0, gmin > value))) if kind == 'return' and isinstance(v, VBool) else z3.BoolVal(False),
                             'an-emptiable-group-is-never-missing': lambda kind, v, s: z3.Implies(empt, z3.Not(v.t)) if kind == 'return' and isinstance(v, VBool) else z3.BoolVal(False)})


@t.concrete
def _(inp):
    from collections import Counter
    g = _real_group('sequence', (inp['self.min_occurs'], inp['self.max_occurs']), [(0, 1)] if inp['emptiable'] else [(1, 1)])
    if g.is_emptiable() != (inp['emptiable'] or inp['self.min_occurs'] == 0): return dict(ok=True, observed='emptiable flag not realisable', required='-')
    occ = Counter({g: inp['occurs_self'], g.oid: inp['occurs_oid']})
    got = g.is_missing(occ); value = inp['occurs_oid'] or inp['occurs_self']; em = g.is_emptiable()
    want = (not em) and (value == 0 or inp['self.min_occurs'] > value)
    return dict(ok=got == want, observed=got, required=want, failed=[] if got == want else ['missing-iff-below-minimum-and-not-completable-by-empty-iterations'])


@t.scope
def _(tier, rng):
    for mn, mx in ((0, 1), (1, 1), (2, 2), (2, None), (1, 3)):
        for em in (False, True):
            for hi in (0, 1, 2, 3):
                for lo in (0, 1, 2): yield {'self.min_occurs': mn, 'self.max_occurs': mx, 'emptiable': em, 'occurs_oid': hi, 'occurs_self': lo}
