"""Contracts on validators/attributes.py: the generators that decide required attributes and value constraints (C03)."""
import z3
from pyvc.core import Target
from pyvc.se import *

F = 'xmlschema/validators/attributes.py'
KS = z3.DeclareSort('Key')          # attribute-group keys: strings or None
key_none = z3.Function('key_none', KS, B); key_str = z3.Function('key_str', KS, S)
use = z3.Function('use', Ref, S); fixed_none = z3.Function('fixed_none', Ref, B); fixed_v = z3.Function('fixed_v', Ref, S)
default_none = z3.Function('default_none', Ref, B); default_v = z3.Function('default_v', Ref, S); is_attr = z3.Function('is_XsdAttribute', Ref, B)


class VKey(V):
    def __init__(s, t): s.t = t


def setup(run, fn):
    ex = run.exec(qual='XsdAttributeGroup.' + fn); st = new_state()
    dom = z3.Const('dom', z3.ArraySort(KS, B)); val = z3.Const('val', z3.ArraySort(KS, Ref))
    c = st.alloc(kind='dict', dom=dom, val=val, ksort=KS, default=None, wrap=lambda t: VRef(t))
    st.objf['self'] = {'_attribute_group': VDict(c)}; st.env['self'] = VObj('self')
    st.ghost['ff'] = {'use': lambda r: VStr(use(r)), 'fixed': lambda r: VOpt(fixed_none(r), VStr(fixed_v(r))),
                      'default': lambda r: VOpt(default_none(r), VStr(default_v(r)))}
    ex.callees['isinstance'] = lambda e, s, r, a, k: VBool(is_attr(a[0].t)); ex.names['XsdAttribute'] = OPAQUE
    orig_truthy, orig_cmp = ex.truthy, ex.cmp
    ex.truthy = lambda s, v: z3.And(z3.Not(key_none(v.t)), z3.Length(key_str(v.t)) > 0) if isinstance(v, VKey) else orig_truthy(s, v)

    def cmp(op, l, r, s):
        if isinstance(l, VKey) and isinstance(r, VNone):
            res = key_none(l.t); return res if isinstance(op, ast.Is) else z3.Not(res)
        return orig_cmp(op, l, r, s)
    ex.cmp = cmp
    st.ghost['out'] = z3.K(KS, False); st.ghost['outv'] = z3.Const('outv0', z3.ArraySort(KS, S)); st.ghost['twice'] = z3.BoolVal(False)

    def do_yield(v, s):
        v = lift(v) if not isinstance(v, (V, tuple)) else v
        kk = v.items[0] if isinstance(v, VTuple) else v
        s.ghost['twice'] = z3.Or(s.ghost['twice'], s.ghost['out'][kk.t])
        s.ghost['out'] = z3.Store(s.ghost['out'], kk.t, True)
        if isinstance(v, VTuple):
            x = v.items[1]; s.ghost['outv'] = z3.Store(s.ghost['outv'], kk.t, x.val.t if isinstance(x, VOpt) else x.t)
        return [('fall', None, s)]
    ex.do_yield = do_yield
    return ex, st, dom, val


q = z3.Const('q', KS)
LOOP = 'for (k, v) in self._attribute_group.items()'

t = Target('attributes.iter_required', ['C03'], F, 'XsdAttributeGroup.iter_required',
           note="yields exactly the keys (never the wildcard key None) whose declaration is an XsdAttribute with use = 'required', each once")


@t.symbolic
def _(run):
    ex, st, dom, val = setup(run, 'iter_required')
    spec_req = lambda k: z3.And(dom[k], is_attr(val[k]), z3.Not(key_none(k)), use(val[k]) == SV('required'))

    def inv(s, seen): return z3.And(z3.ForAll([q], s.ghost['out'][q] == z3.And(seen[q], spec_req(q))), z3.Not(s.ghost['twice']))
    def havoc(s): s.ghost['out'] = z3.FreshConst(z3.ArraySort(KS, B), 'out'); s.ghost['twice'] = z3.FreshConst(B, 'twice')

    def loop(e, node, s):
        def bind(sb, x): sb.env['k'] = VKey(x); sb.env['v'] = VRef(val[x])
        return foreach(e, node, s, KS, dom, bind, inv, havoc)
    ex.invariants[LOOP] = loop
    pre = z3.BoolVal(True); outs = ex.run(st, pre)
    run.post(ex, outs, pre, {'yields-exactly-the-required-declared-names': lambda kind, v, s: z3.And(z3.ForAll([q], s.ghost['out'][q] == spec_req(q)), z3.Not(s.ghost['twice']))})


def mk_ivc(ud):
    t = Target(f'attributes.iter_value_constraints.use_defaults_{ud}', ['C03'], F, 'XsdAttributeGroup.iter_value_constraints',
               note='yields (name, fixed) for every declared non-wildcard key with a fixed value' + (', else (name, default) when it has a default' if ud else
                    ' and nothing else (defaults are not filled)') + '; each key once; the fixed value wins over a default')

    @t.symbolic
    def _(run):
        ex, st, dom, val = setup(run, 'iter_value_constraints'); st.env['use_defaults'] = VBool(z3.BoolVal(ud))
        ktruthy = lambda k: z3.And(z3.Not(key_none(k)), z3.Length(key_str(k)) > 0)

        def spec_in(k):
            return z3.And(dom[k], ktruthy(k), z3.Or(z3.Not(fixed_none(val[k])), z3.And(ud, z3.Not(default_none(val[k])))))
        def spec_val(k): return z3.If(z3.Not(fixed_none(val[k])), fixed_v(val[k]), default_v(val[k]))
        def inv(s, seen): return z3.And(z3.ForAll([q], z3.And(s.ghost['out'][q] == z3.And(seen[q], spec_in(q)), z3.Implies(s.ghost['out'][q], s.ghost['outv'][q] == spec_val(q)))), z3.Not(s.ghost['twice']))
        def havoc(s): s.ghost['out'] = z3.FreshConst(z3.ArraySort(KS, B), 'out'); s.ghost['outv'] = z3.FreshConst(z3.ArraySort(KS, S), 'outv'); s.ghost['twice'] = z3.FreshConst(B, 'twice')

        def loop(e, node, s):
            def bind(sb, x): sb.env['k'] = VKey(x); sb.env['v'] = VRef(val[x])
            return foreach(e, node, s, KS, dom, bind, inv, havoc)
        ex.invariants[LOOP] = loop
        pre = z3.BoolVal(True); outs = ex.run(st, pre)
        run.post(ex, outs, pre, {'yields-exactly-the-value-constraints': lambda kind, v, s: z3.And(
            z3.ForAll([q], z3.And(s.ghost['out'][q] == spec_in(q), z3.Implies(s.ghost['out'][q], s.ghost['outv'][q] == spec_val(q)))), z3.Not(s.ghost['twice']))})
    return t


mk_ivc(True)
mk_ivc(False)
