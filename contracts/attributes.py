"""Contracts on validators/attributes.py: the generators that decide required attributes and value constraints (C03)."""
import z3
from pyvc.core import Target
from pyvc.se import *

F = 'xmlschema/validators/attributes.py'
KS = z3.DeclareSort('Key')          # attribute-group keys: strings or None
key_none = z3.Function('key_none', KS, B); key_str = z3.Function('key_str', KS, S)
use = z3.Function('use', Ref, S); fixed_none = z3.Function('fixed_none', Ref, B); fixed_v = z3.Function('fixed_v', Ref, S)
default_none = z3.Function('default_none', Ref, B); default_v = z3.Function('default_v', Ref, S); is_attr = z3.Function('is_XsdAttribute', Ref, B)


class VKey(V):
    def __init__(s, t): s.t = t


def setup(run, fn):
    ex = run.exec(qual='XsdAttributeGroup.' + fn); st = new_state()
    dom = z3.Const('dom', z3.ArraySort(KS, B)); val = z3.Const('val', z3.ArraySort(KS, Ref))
    c = st.alloc(kind='dict', dom=dom, val=val, ksort=KS, default=None, wrap=lambda t: VRef(t))
    st.objf['self'] = {'_attribute_group': VDict(c)}; st.env['self'] = VObj('self')
    st.ghost['ff'] = {'use': lambda r: VStr(use(r)), 'fixed': lambda r: VOpt(fixed_none(r), VStr(fixed_v(r))),
                      'default': lambda r: VOpt(default_none(r), VStr(default_v(r))),
                      # XsdAttribute.value_constraint (a one-line property of the declaration, inlined): the fixed value if there is one, else the default
                      'value_constraint': lambda r: VOpt(z3.And(fixed_none(r), default_none(r)), VStr(z3.If(fixed_none(r), default_v(r), fixed_v(r))))}
    ex.callees['isinstance'] = lambda e, s, r, a, k: VBool(is_attr(a[0].t)); ex.names['XsdAttribute'] = OPAQUE
    orig_truthy, orig_cmp = ex.truthy, ex.cmp
    ex.truthy = lambda s, v: z3.And(z3.Not(key_none(v.t)), z3.Length(key_str(v.t)) > 0) if isinstance(v, VKey) else orig_truthy(s, v)

    def cmp(op, l, r, s):
        if isinstance(l, VKey) and isinstance(r, VNone):
            res = key_none(l.t); return res if isinstance(op, ast.Is) else z3.Not(res)
        return orig_cmp(op, l, r, s)
    ex.cmp = cmp
    st.ghost['out'] = z3.K(KS, False); st.ghost['outv'] = z3.Const('outv0', z3.ArraySort(KS, S)); st.ghost['twice'] = z3.BoolVal(False)

    def do_yield(v, s):
        v = lift(v) if not isinstance(v, (V, tuple)) else v
        kk = v.items[0] if isinstance(v, VTuple) else v
        s.ghost['twice'] = z3.Or(s.ghost['twice'], s.ghost['out'][kk.t])
        s.ghost['out'] = z3.Store(s.ghost['out'], kk.t, True)
        if isinstance(v, VTuple):
            x = v.items[1]; s.ghost['outv'] = z3.Store(s.ghost['outv'], kk.t, x.val.t if isinstance(x, VOpt) else x.t)
        return [('fall', None, s)]
    ex.do_yield = do_yield
    return ex, st, dom, val


q = z3.Const('q', KS)
LOOP = 'for (k, v) in self._attribute_group.items()'

t = Target('attributes.iter_required', ['C03'], F, 'XsdAttributeGroup.iter_required',
           note="yields exactly the keys (never the wildcard key None) whose declaration is an XsdAttribute with use = 'required', each once")


@t.symbolic
def _(run):
    ex, st, dom, val = setup(run, 'iter_required')
    spec_req = lambda k: z3.And(dom[k], is_attr(val[k]), z3.Not(key_none(k)), use(val[k]) == SV('required'))

    def inv(s, seen): return z3.And(z3.ForAll([q], s.ghost['out'][q] == z3.And(seen[q], spec_req(q))), z3.Not(s.ghost['twice']))
    def havoc(s): s.ghost['out'] = z3.FreshConst(z3.ArraySort(KS, B), 'out'); s.ghost['twice'] = z3.FreshConst(B, 'twice')

    def loop(e, node, s):
        def bind(sb, x): sb.env['k'] = VKey(x); sb.env['v'] = VRef(val[x])
        return foreach(e, node, s, KS, dom, bind, inv, havoc)
    ex.invariants[LOOP] = loop
    pre = z3.BoolVal(True); outs = ex.run(st, pre)
    run.post(ex, outs, pre, {'yields-exactly-the-required-declared-names': lambda kind, v, s: z3.And(z3.ForAll([q], s.ghost['out'][q] == spec_req(q)), z3.Not(s.ghost['twice']))})


def mk_ivc(ud):
    t = Target(f'attributes.iter_value_constraints.use_defaults_{ud}', ['C03'], F, 'XsdAttributeGroup.iter_value_constraints',
               note='yields (name, fixed) for every declared non-wildcard key with a fixed value' + (', else (name, default) when it has a default' if ud else
                    ' and nothing else (defaults are not filled)') + '; each key once; the fixed value wins over a default')

    @t.symbolic
    def _(run):
        ex, st, dom, val = setup(run, 'iter_value_constraints'); st.env['use_defaults'] = VBool(z3.BoolVal(ud))
        ktruthy = lambda k: z3.And(z3.Not(key_none(k)), z3.Length(key_str(k)) > 0)

        def spec_in(k):
            return z3.And(dom[k], ktruthy(k), z3.Or(z3.Not(fixed_none(val[k])), z3.And(ud, z3.Not(default_none(val[k])))))
        def spec_val(k): return z3.If(z3.Not(fixed_none(val[k])), fixed_v(val[k]), default_v(val[k]))
        def inv(s, seen): return z3.And(z3.ForAll([q], z3.And(s.ghost['out'][q] == z3.And(seen[q], spec_in(q)), z3.Implies(s.ghost['out'][q], s.ghost['outv'][q] == spec_val(q)))), z3.Not(s.ghost['twice']))
        def havoc(s): s.ghost['out'] = z3.FreshConst(z3.ArraySort(KS, B), 'out'); s.ghost['outv'] = z3.FreshConst(z3.ArraySort(KS, S), 'outv'); s.ghost['twice'] = z3.FreshConst(B, 'twice')

        def loop(e, node, s):
            def bind(sb, x): sb.env['k'] = VKey(x); sb.env['v'] = VRef(val[x])
            return foreach(e, node, s, KS, dom, bind, inv, havoc)
        ex.invariants[LOOP] = loop
        pre = z3.BoolVal(True); outs = ex.run(st, pre)
        run.post(ex, outs, pre, {'yields-exactly-the-value-constraints': lambda kind, v, s: z3.And(
            z3.ForAll([q], z3.And(s.ghost['out'][q] == spec_in(q), z3.Implies(s.ghost['out'][q], s.ghost['outv'][q] == spec_val(q)))), z3.Not(s.ghost['twice']))})

    @t.concrete
    def _(inp):
        # the real generator on a real attribute group: plain fixed / default declarations, a reference that adds its own fixed value to a global declaration with a default,
        # a reference that inherits one, an unconstrained attribute and a wildcard
        import xmlschema
        s = _IVC.get('s') or _IVC.setdefault('s', xmlschema.XMLSchema10('''<xs:schema xmlns:xs="http://www.w3.org/2001/XMLSchema" targetNamespace="urn:t" xmlns:t="urn:t">
 <xs:attribute name="g" type="xs:string" default="dflt"/><xs:attribute name="h" type="xs:string" fixed="hh"/><xs:attribute name="k" type="xs:string" default="kk"/>
 <xs:element name="e"><xs:complexType><xs:attribute ref="t:g" fixed="fx"/><xs:attribute ref="t:h"/><xs:attribute ref="t:k"/><xs:attribute name="f" fixed="7"/><xs:attribute name="d" default="dd"/>
  <xs:attribute name="o"/><xs:anyAttribute namespace="##other" processContents="lax"/></xs:complexType></xs:element></xs:schema>'''))
        grp = s.elements['e'].type.attributes
        got = list(grp.iter_value_constraints(ud))
        want = {'{urn:t}g': 'fx', '{urn:t}h': 'hh', 'f': '7'}
        if ud: want.update({'{urn:t}k': 'kk', 'd': 'dd'})
        ok = dict(got) == want and len(got) == len(want)
        return dict(ok=ok, observed=got, required=want, failed=[] if ok else ['yields-exactly-the-value-constraints'])

    @t.scope
    def _(tier, rng):
        yield {}
    return t


_IVC = {}
mk_ivc(True)
mk_ivc(False)


# ------------------------------------------------------------------ XsdAnyAttribute.raw_decode : the wildcard's verdict on one attribute
t = Target('wildcards.XsdAnyAttribute.raw_decode', ['C03', 'C16', 'C04', 'C19'], 'xmlschema/validators/wildcards.py', 'XsdAnyAttribute.raw_decode',
           note="an attribute that the namespace constraint does not admit is an error in every processContents mode (also 'skip'); 'skip' without process_skipped "
                "returns Empty without any lookup; 'strict' (validation other than skip) adds an error when the namespace cannot be loaded or the attribute has no "
                "global declaration; with a declaration the value is decoded by it; 'lax' without a declaration passes the value through",
           assumes=['is_matching by its own contract (wildcards.is_matching)', 'load_namespace and the global attribute map are uninterpreted'])


@t.symbolic
def _(run):
    ex = run.exec(); st = new_state()
    matching = z3.Bool('is_matching'); pc = z3.String('process_contents'); validation = z3.String('validation')
    loadable = z3.Bool('namespace_loadable'); declared = z3.Bool('globally_declared'); pskip = z3.Bool('process_skipped')
    st.objf['loader'] = {}; st.objf['maps'] = {'loader': VObj('loader'), 'attributes': VStr(SV('<attribute map>'))}
    st.objf['context'] = {'process_skipped': VBool(pskip)}
    st.objf['self'] = {'process_contents': VStr(pc), 'maps': VObj('maps')}
    st.objf['gattr'] = {}
    name, value = z3.String('name'), z3.String('value')
    st.env.update(self=VObj('self'), obj=VTuple([VStr(name), VStr(value)]), validation=VStr(validation), context=VObj('context'))
    st.ghost.update(errs=0, lookups=0, delegated=0)
    ex.callees['is_matching'] = lambda e, s, r, a, k: VBool(matching)

    def verr(e, s, r, a, k): s.ghost['errs'] += 1; return NONE
    ex.callees['validation_error'] = verr
    ex.callees['get_namespace'] = lambda e, s, r, a, k: VStr(z3.String('ns'))

    def load_ns(e, s, r, a, k): s.ghost['lookups'] += 1; return VBool(loadable)
    ex.callees['load_namespace'] = load_ns
    ex.names['Empty'] = VStr(SV('<Empty>'))
    orig_sub = ex.e_Subscript

    def e_Subscript(e, s):
        if ast.unparse(e.value) == 'self.maps.attributes':
            s.ghost['lookups'] += 1
            ex.pending_raise.append((z3.Not(declared), VExc(KeyError)))
            return VObj('gattr')
        return orig_sub(e, s)
    ex.e_Subscript = e_Subscript
    dres = z3.String('delegated_result')

    def raw_decode(e, s, r, a, k): s.ghost['delegated'] += 1; return VStr(dres)
    ex.callees['raw_decode'] = raw_decode
    ex.callees['_'] = lambda *a: OPAQUE
    ex.callees['format'] = lambda *a: OPAQUE
    pre = z3.And(z3.Or(pc == SV('strict'), pc == SV('lax'), pc == SV('skip')), z3.Or(validation == SV('strict'), validation == SV('lax'), validation == SV('skip')))
    run.inputs.update(is_matching=matching, process_contents=pc, validation=validation, namespace_loadable=loadable, globally_declared=declared, process_skipped=pskip)
    outs = ex.run(st, pre)
    skipped = z3.And(pc == SV('skip'), z3.Not(pskip))
    strict_missing = z3.And(z3.Not(skipped), pc == SV('strict'), validation != SV('skip'), z3.Or(z3.Not(loadable), z3.Not(declared)))

    def errors(kind, v, s):
        if kind != 'return': return z3.BoolVal(False)
        n = s.ghost['errs']
        want = z3.If(matching, 0, 1) + z3.If(strict_missing, 1, 0)
        return z3.IntVal(n) == want

    def result(kind, v, s):
        if kind != 'return': return z3.BoolVal(False)
        v = lift(v)
        if not isinstance(v, VStr): return z3.BoolVal(False)
        return z3.If(skipped, z3.And(v.t == SV('<Empty>'), z3.BoolVal(s.ghost['lookups'] == 0)),
                     z3.If(z3.And(loadable, declared), z3.And(v.t == dres, z3.BoolVal(s.ghost['delegated'] == 1)), z3.And(v.t == value, z3.BoolVal(s.ghost['delegated'] == 0))))
    run.post(ex, outs, pre, {'not-admitted-is-an-error-in-every-mode': errors, 'result-by-process-contents': result})


@t.concrete
def _(inp):
    import xmlschema
    XS = 'xmlns:xs="http://www.w3.org/2001/XMLSchema"'
    ns = '##other' if not inp['is_matching'] else '##any'
    decl = '<xs:attribute name="g" type="xs:int"/>' if inp['globally_declared'] else ''
    s = xmlschema.XMLSchema10(f'<xs:schema {XS} targetNamespace="urn:t" xmlns:t="urn:t">{decl}<xs:element name="e"><xs:complexType><xs:anyAttribute namespace="{ns}" processContents="{inp["process_contents"]}"/></xs:complexType></xs:element></xs:schema>')
    if not inp['namespace_loadable'] and inp['is_matching']: attr = 'xmlns:u="urn:unknown" u:g="7"'
    elif not inp['is_matching']: attr = 't:g="7"'            # target namespace is not admitted by ##other
    else: attr = 't:g="7"'
    if not inp['namespace_loadable'] and not inp['is_matching']: return dict(ok=True, observed='not constructible', required=None)
    doc = f'<t:e xmlns:t="urn:t" {attr}/>'
    errs = [e.reason for e in s.iter_errors(doc, process_skipped=inp['process_skipped']) ] if False else [e.reason for e in s.iter_errors(doc)]
    skipped = inp['process_contents'] == 'skip'
    want = (0 if inp['is_matching'] else 1) + (1 if (not skipped and inp['process_contents'] == 'strict' and (not inp['namespace_loadable'] or not inp['globally_declared'])) else 0)
    if inp['process_skipped']: return dict(ok=True, observed='process_skipped not reachable through iter_errors', required=None)
    return dict(ok=len(errs) == want, observed=errs, required=f'{want} error(s)', doc=doc)


@t.scope
def _(tier, rng):
    for m in (True, False):
        for pcv in ('strict', 'lax', 'skip'):
            for l in (True, False):
                for d in (True, False):
                    yield dict(is_matching=m, process_contents=pcv, validation='lax', namespace_loadable=l, globally_declared=d, process_skipped=False)


# ------------------------------------------------------------------ XsdAttributeGroup.raw_decode: which attributes are processed, and with which value
t = Target('attributes.XsdAttributeGroup.raw_decode', ['C03', 'C04'], F, 'XsdAttributeGroup.raw_decode', bounded_only=True,
           note='run-time contract on the real method (its main loop mixes mapping copies, exceptions and a per-context result list: outside the VC generator). With a spy on '
                'XsdAttribute.raw_decode: the attributes handed to their declarations are exactly the instance attributes plus every absent attribute with a fixed value (and, when '
                'defaults are enabled, a default value), each once and with that value - the same set in a validation-only context and in a decoding context (C04); the decoded '
                'result reports an absent fixed / default attribute with its declared value, fill_missing adds only the names that are neither present nor value-constrained, and no '
                'name is reported twice',
           assumes=['bounded stand-in over one attribute group (fixed, default, IDREF default, optional, required, prohibited) x every subset of present attributes x use_defaults x '
                    'fill_missing x filler x context kind'])

_AG = {}


def _ag_schema():
    import xmlschema
    if 's' not in _AG:
        _AG['s'] = xmlschema.XMLSchema10('''<xs:schema xmlns:xs="http://www.w3.org/2001/XMLSchema"><xs:element name="e"><xs:complexType>
 <xs:attribute name="f" type="xs:int" fixed="7"/><xs:attribute name="d" type="xs:string" default="dd"/><xs:attribute name="ref" type="xs:IDREF" default="nowhere"/>
 <xs:attribute name="o" type="xs:int"/><xs:attribute name="r" type="xs:int" use="required"/></xs:complexType></xs:element></xs:schema>''')
    return _AG['s']


@t.concrete
def _(inp):
    import xmlschema
    from xmlschema.validators.attributes import XsdAttribute
    from xmlschema.validators.validation import ValidationContext, DecodeContext
    from xmlschema.namespaces import NamespaceMapper
    s = _ag_schema(); group = s.elements['e'].type.attributes
    values = {'f': '7', 'd': 'xx', 'ref': 'nowhere', 'o': '3', 'r': '1'}
    obj = {k: values[k] for k in inp['present']}
    res = xmlschema.XMLResource('<e/>')
    filler = (lambda x: 'FILL') if inp['filler'] else None
    if inp['decode']: ctx = DecodeContext(source=res, fill_missing=inp['fill_missing'], filler=filler, use_defaults=inp['use_defaults'])
    else: ctx = ValidationContext(source=res, converter=NamespaceMapper(None, source=res), use_defaults=inp['use_defaults'])
    seen = []; real = XsdAttribute.raw_decode

    def spy(self, value, validation, context): seen.append((self.name, value)); return real(self, value, validation, context)
    XsdAttribute.raw_decode = spy
    try: result = group.raw_decode(obj, 'lax', ctx)
    finally: XsdAttribute.raw_decode = real
    constrained = {'f': '7'}
    if inp['use_defaults']: constrained.update(d='dd', ref='nowhere')
    want = dict(obj); want.update({k: v for k, v in constrained.items() if k not in obj})
    failed = []
    if sorted(seen) != sorted(want.items()): failed.append('processed-attributes-are-the-instance-ones-plus-the-absent-value-constrained-ones')
    if inp['decode']:
        names = [k for k, _ in result]
        if len(names) != len(set(names)): failed.append('no-name-reported-twice')
        got = dict(result); exp = {'f': 7, 'd': want.get('d'), 'ref': want.get('ref'), 'o': int(want['o']) if 'o' in want else None, 'r': int(want['r']) if 'r' in want else None}
        exp = {k: v for k, v in exp.items() if k in want}
        if inp['fill_missing']: exp.update({k: ('FILL' if inp['filler'] else None) for k in values if k not in want})
        if got != exp: failed.append('absent-fixed-and-default-attributes-are-reported-with-their-declared-values')
    elif result is not None: failed.append('validation-only-builds-no-result')
    return dict(ok=not failed, observed=dict(processed=sorted(seen), result=repr(result)[:200]), required=dict(processed=sorted(want.items())), failed=failed)


@t.scope
def _(tier, rng):
    import itertools
    names = ['f', 'd', 'ref', 'o', 'r']
    for k in range(len(names) + 1):
        for present in itertools.combinations(names, k):
            for ud in (True, False):
                yield dict(present=list(present), use_defaults=ud, decode=False, fill_missing=False, filler=False)
                for fm, fl in ((False, False), (True, False), (True, True)):
                    yield dict(present=list(present), use_defaults=ud, decode=True, fill_missing=fm, filler=fl)


# ------------------------------------------------------------------ XsdAttributeGroup.raw_decode: the decision taken for ONE present attribute (C03)
t = Target('attributes.XsdAttributeGroup.raw_decode.per_attribute_body', ['C03'], F, 'XsdAttributeGroup.raw_decode', anchor='for name, value in obj.items()',
           note='one iteration of the main loop of XsdAttributeGroup.raw_decode, for an arbitrary attribute name: a declared attribute is decoded by its declaration with its value; an undeclared '
                'name of the XSI namespace by the global declaration when there is one; any other undeclared name by the attribute wildcard with the pair (name, value), and when the group has '
                'no wildcard it is an error and nothing is decoded; a present attribute whose declaration is prohibited (without a fixed value, not admitted by the wildcard) is an error; exactly '
                'one decoder runs per accepted attribute, under context.attribute = name, and a non-empty item is reported under that name',
           assumes=['the mapping lookups (declared names, global attributes, wildcard key None), get_namespace and is_matching are uninterpreted relations of the name; the decoders '
                    'themselves are under their own contracts (XsdAttribute.raw_decode is exercised by the bounded C03 family, the wildcard by wildcards.XsdAnyAttribute.raw_decode)',
                    'the enumeration of obj.items() with the absent value-constrained attributes added is covered by the run-time contract attributes.XsdAttributeGroup.raw_decode'])


@t.symbolic
def _(run):
    ex = run.exec(); st = new_state()
    declared, gdecl, has_wild, is_xsi, matching, empty = (z3.Bool(n) for n in ('declared', 'globally_declared', 'has_wildcard', 'name_in_xsi_namespace', 'wildcard_matches', 'item_is_empty'))
    use = z3.String('use'); fixed_none = z3.Bool('fixed_none'); res_none = z3.Bool('validation_only'); name = z3.String('name'); value = z3.String('value')
    st.objf['decl'] = {'use': VStr(use), 'fixed': VOpt(fixed_none, VStr(z3.String('fixed')))}
    st.objf['gdecl'] = {'use': VStr(SV('optional')), 'fixed': VOpt(z3.BoolVal(True), VStr(SV('')))}
    st.objf['wild'] = {}; st.objf['context'] = {'attribute': VOpt(z3.BoolVal(True), VStr(SV('')))}; st.objf['result'] = {}
    st.env.update(self=OPAQUE, obj=OPAQUE, validation=VStr(z3.String('validation')), context=VObj('context'), name=VStr(name), value=VStr(value), result=VOpt(res_none, VObj('result')))
    st.ghost.update(errs=0, decoded=(), appended=(), attr_during=())
    XSI = 'http://www.w3.org/2001/XMLSchema-instance'
    ex.names[('nm', 'XSI_NAMESPACE')] = VStr(SV(XSI))
    ex.callees['get_namespace'] = lambda e, s, r, a, k: VStr(z3.If(is_xsi, SV(XSI), SV('urn:other')))
    ex.callees['_'] = lambda *a: OPAQUE; ex.callees['format'] = lambda *a: OPAQUE
    orig_binop = ex.e_BinOp
    ex.e_BinOp = lambda e, s: OPAQUE if isinstance(e.op, ast.Mod) else orig_binop(e, s)

    def verr(e, s, r, a, k): s.ghost['errs'] += 1; return NONE
    ex.callees['validation_error'] = verr
    ex.callees['is_matching'] = lambda e, s, r, a, k: VBool(matching)

    def raw_decode(e, s, r, a, k):
        who = r.name if isinstance(r, VObj) else '?'
        arg = a[0]; kind = 'pair' if isinstance(arg, VTuple) else 'value' if isinstance(arg, VStr) and z3.eq(arg.t, value) else 'other'
        cur = s.objf['context']['attribute']
        s.ghost['decoded'] += ((who, kind),)
        s.ghost['attr_during'] += ((cur.none, cur.val.t),)
        return VObj('item')
    ex.callees['raw_decode'] = raw_decode
    st.objf['item'] = {}
    ex.callees['isinstance'] = lambda e, s, r, a, k: VBool(empty) if ast.unparse(a[1]) == 'EmptyType' else (_ for _ in ()).throw(Unsupported('isinstance ' + ast.unparse(a[1])))
    ex.names['EmptyType'] = OPAQUE

    def append(e, s, r, a, k):
        tup = a[0]
        s.ghost['appended'] += ((tup.items[0].t if isinstance(tup, VTuple) and isinstance(tup.items[0], VStr) else None, isinstance(tup, VTuple) and isinstance(tup.items[1], VObj) and tup.items[1].name == 'item'),)
        return NONE
    ex.callees['append'] = append
    orig_sub, orig_cmp = ex.e_Subscript, ex.cmp

    def e_Subscript(e, s):
        src = ast.unparse(e)
        if src == 'self._attribute_group[name]': ex.pending_raise.append((z3.Not(declared), VExc(KeyError))); return VObj('decl')
        if src == 'self.maps.attributes[name]': ex.pending_raise.append((z3.Not(gdecl), VExc(KeyError))); return VObj('gdecl')
        if src == 'self._attribute_group[None]': ex.pending_raise.append((z3.Not(has_wild), VExc(KeyError))); return VObj('wild')
        return orig_sub(e, s)
    ex.e_Subscript = e_Subscript
    orig_compare = ex.e_Compare

    def e_Compare(e, s):
        src = ast.unparse(e)
        if src in ('None in self._attribute_group', 'None in self'): return VBool(has_wild)
        if src in ('None not in self._attribute_group', 'None not in self'): return VBool(z3.Not(has_wild))
        return orig_compare(e, s)
    ex.e_Compare = e_Compare
    ex.s_For = lambda node, s: ex.block(node.body, s)          # one iteration, for an arbitrary (name, value)
    orig_assign = ex.assign
    ex.assign = lambda tg, v, s: [('fall', None, s)] if ast.unparse(tg) == '(name, value)' else orig_assign(tg, v, s)
    v_ = st.env['validation'].t
    pre = z3.And(z3.Or(v_ == SV('strict'), v_ == SV('lax'), v_ == SV('skip')), z3.Or(use == SV('optional'), use == SV('required'), use == SV('prohibited')),
                 z3.Implies(is_xsi, z3.Not(declared)) if False else z3.BoolVal(True))
    run.inputs.update(declared=declared, globally_declared=gdecl, has_wildcard=has_wild, name_in_xsi_namespace=is_xsi, wildcard_matches=matching, use=use, fixed_none=fixed_none, validation_only=res_none)
    outs = ex.run(st, pre)
    # the decision the property states for a present attribute
    by_decl = declared
    by_global = z3.And(z3.Not(declared), is_xsi, gdecl)
    by_wild = z3.And(z3.Not(declared), z3.Not(by_global), has_wild)
    rejected = z3.And(z3.Not(declared), z3.Not(by_global), z3.Not(has_wild))
    prohibited = z3.And(declared, use == SV('prohibited'), fixed_none, z3.Or(z3.Not(has_wild), z3.Not(matching)))

    def decoder(kind, v, s):
        d = s.ghost['decoded']
        if kind == 'raise': return z3.BoolVal(False)
        want_none = z3.And(rejected, z3.BoolVal(d == () and kind == 'continue'))
        want_decl = z3.And(by_decl, z3.BoolVal(d == (('decl', 'value'),)))
        want_glob = z3.And(by_global, z3.BoolVal(d == (('gdecl', 'value'),)))
        want_wild = z3.And(by_wild, z3.BoolVal(d == (('wild', 'pair'),)))
        return z3.Or(want_none, want_decl, want_glob, want_wild)

    def errors(kind, v, s):
        if kind == 'raise': return z3.BoolVal(False)
        return z3.IntVal(s.ghost['errs']) == z3.If(rejected, 1, 0) + z3.If(prohibited, 1, 0)

    def reported(kind, v, s):
        if kind == 'raise': return z3.BoolVal(False)
        ap = s.ghost['appended']; during = s.ghost['attr_during']; after = s.objf['context']['attribute']
        if not s.ghost['decoded']: return z3.BoolVal(ap == ())
        under_name = z3.And(z3.Not(during[0][0]), during[0][1] == name) if len(during) == 1 else z3.BoolVal(False)
        rep = z3.If(z3.Or(res_none, empty), z3.BoolVal(ap == ()), z3.And(z3.BoolVal(len(ap) == 1 and ap[0][1] is True), (ap[0][0] == name) if len(ap) == 1 and ap[0][0] is not None else z3.BoolVal(False)))
        return z3.And(under_name, after.none, rep)
    run.post(ex, outs, pre, {'decoded-by-the-declaration-the-xsi-global-or-the-wildcard-else-rejected': decoder, 'an-error-exactly-for-rejected-and-prohibited-names': errors,
                             'one-item-reported-under-its-name-while-context-attribute-is-the-name': reported})
