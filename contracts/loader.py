"""Sliced loop contracts on resources/xml_loader.py: depth and element counters (C11)."""
import z3
from pyvc.core import Target
from pyvc.se import *

F = 'xmlschema/resources/xml_loader.py'
TRACKED = {'remaining_levels', 'remaining_elements'}


def assigned(node):
    return {n.id for n in ast.walk(node) if isinstance(n, ast.Name) and isinstance(n.ctx, ast.Store)}


def has_ctl(node):
    return any(isinstance(n, (ast.Raise, ast.Return, ast.Break, ast.Continue, ast.Yield, ast.YieldFrom)) for n in ast.walk(node))


def mk(fn, lazy):
    t = Target(f'loader.{fn}.limits', ['C11'], F, f'XMLResourceLoader.{fn}',
               note='sliced loop contract (tracked: remaining_levels' + ('' if lazy else ', remaining_elements') + '): invariant remaining_levels = '
                    'MAX_XML_DEPTH - open' + ('' if lazy else ' and remaining_elements = MAX_XML_ELEMENTS - started') + '; XMLResourceExceeded is '
                    'raised exactly at a start event that makes the depth' + ('' if lazy else ' or the element count') + ' exceed its limit '
                    '(a document exactly at the limit is processed)',
               assumes=['slice: statements that neither read nor assign a tracked name and contain no control flow are skipped; they are assumed not to raise',
                        'ElementTree.iterparse delivers well-nested start/end events'])

    @t.symbolic
    def _(run):
        from xmlschema.exceptions import XMLResourceExceeded
        ex = run.exec(); skipped = []
        orig_stmt = ex.stmt

        def stmt(s, st):
            if isinstance(s, (ast.Assign, ast.AugAssign, ast.AnnAssign, ast.Expr, ast.If)) and not (assigned(s) & TRACKED) and not has_ctl(s):
                names = {n.id for n in ast.walk(s) if isinstance(n, ast.Name)}
                if not (names & TRACKED):
                    skipped.append(ast.unparse(s).split('\n')[0][:50])
                    for n in assigned(s): st.env[n] = OPAQUE
                    return [('fall', None, st)]
            return orig_stmt(s, st)
        ex.stmt = stmt
        MAXD, MAXE = z3.Int('MAX_XML_DEPTH'), z3.Int('MAX_XML_ELEMENTS')
        ex.names[('_limits', 'MAX_XML_DEPTH')] = VInt(MAXD); ex.names[('_limits', 'MAX_XML_ELEMENTS')] = VInt(MAXE)
        st = new_state(); st.objf['self'] = {}; st.env.update(self=VObj('self'), fp=OPAQUE)
        st.ghost.update(open=z3.IntVal(0), started=z3.IntVal(0))
        ev = z3.String('event')

        def invs(k):
            # candidate invariants (a loop contract may list several; discharged if one is inductive and sufficient)
            def inv(s):
                c = [s.env['remaining_levels'].t == MAXD - s.ghost['open'], s.ghost['open'] >= 0, s.ghost['started'] >= s.ghost['open'], s.env['remaining_levels'].t >= k]
                if not lazy: c += [s.env['remaining_elements'].t == MAXE - s.ghost['started'], s.env['remaining_elements'].t >= k]
                return z3.And(*c)
            return inv
        inv = invs(0)

        def havoc(s):
            s.env['remaining_levels'] = VInt(z3.FreshConst(I, 'rl')); s.ghost['open'] = z3.FreshConst(I, 'open'); s.ghost['started'] = z3.FreshConst(I, 'started')
            if not lazy: s.env['remaining_elements'] = VInt(z3.FreshConst(I, 're'))

        def loop(e, node, s):
            e.oblige('loop-entry', s, inv(s)); outs = []
            sb = s.fork(); havoc(sb)
            sb.ghost['open'], sb.ghost['started'] = z3.Int('open0'), z3.Int('started0')       # named: they are the replay inputs
            sb.pc.append(inv(sb)); sb.env['event'] = VStr(ev); sb.env['node'] = OPAQUE
            sb.pc.append(z3.Implies(ev == SV('end'), sb.ghost['open'] >= 1))       # well-nested event stream
            o0, s0 = sb.ghost['open'], sb.ghost['started']
            for kind, val, s2 in e.block(node.body, sb):
                if kind in ('fall', 'continue'):
                    s2.ghost['open'] = z3.If(ev == SV('start'), o0 + 1, z3.If(ev == SV('end'), o0 - 1, o0))
                    s2.ghost['started'] = z3.If(ev == SV('start'), s0 + 1, s0)
                    e.oblige('loop-preserve', s2, inv(s2))
                    e.oblige('L1-processing-continues-only-within-depth-limit', s2, z3.Implies(ev == SV('start'), o0 + 1 <= MAXD))
                    if not lazy: e.oblige('E1-processing-continues-only-within-element-limit', s2, z3.Implies(ev == SV('start'), s0 + 1 <= MAXE))
                elif kind == 'raise' and isinstance(val, VExc) and val.cls is not None and issubclass(val.cls, XMLResourceExceeded):
                    e.oblige('L2-E2-refused-only-when-a-limit-is-exceeded', s2,
                             z3.And(ev == SV('start'), z3.Or(o0 + 1 > MAXD, (s0 + 1 > MAXE) if not lazy else False)))
                else: outs.append((kind, val, s2))
            se = s.fork(); havoc(se); se.pc.append(inv(se)); outs.append(('fall', None, se)); return outs
        ex.s_For = lambda node, s: loop(ex, node, s) if ast.unparse(node.iter).startswith('self._iterparse(') else (_ for _ in ()).throw(Unsupported('unexpected loop'))
        ex.callees['clear'] = lambda *a: NONE; ex.callees['acquire'] = lambda *a: VBool(z3.BoolVal(True)); ex.callees['release'] = lambda *a: NONE
        ex.do_yield = lambda v, s: [('fall', None, s)]
        pre = z3.And(MAXD >= 1, MAXE >= 1)
        run.inputs.update(max_depth=MAXD, max_elements=MAXE, depth=z3.Int('open0') + 1, elements=z3.Int('started0') + 1)
        outs = ex.run(st, pre)
        run.paths = len(outs)
        for i, (label, pc, goal) in enumerate(ex.obligations): run.vc(label, pre, pc, goal, f'#{i}')
        if not any(vc['clause'].startswith('L2') for vc in run.vcs): raise Unsupported('no XMLResourceExceeded path found: the limit check disappeared')

    @t.concrete
    def _(inp):
        import xmlschema, xmlschema._limits as L
        from xmlschema.exceptions import XMLResourceExceeded
        d, n, md, me = inp['depth'], inp['elements'], inp['max_depth'], inp['max_elements']
        noise = '<!-- c --><?pi x?>' * inp.get('comments', 0)
        # document of nesting depth d with n elements in total (n >= d): a chain of d plus n-d leaves under the root
        doc = (noise + '<a>') * d + '</a>' * (d - 1) + '<b/>' * (n - d) + '</a>' if d > 1 else '<a>' + noise + '<b/>' * (n - 1) + '</a>'
        depth = d if n == d or d > 1 else (2 if n > 1 else 1)
        if d == 1 and n > 1: depth = 2
        old = (L.MAX_XML_DEPTH, L.MAX_XML_ELEMENTS); L.MAX_XML_DEPTH, L.MAX_XML_ELEMENTS = md, me
        try:
            try:
                r = xmlschema.XMLResource(doc, lazy=lazy)
                if lazy: sum(1 for _ in r.iter())
                got = 'loads'
            except XMLResourceExceeded: got = 'refused'
        finally: L.MAX_XML_DEPTH, L.MAX_XML_ELEMENTS = old
        want = 'refused' if depth > md or (not lazy and n > me) else 'loads'
        return dict(ok=got == want, observed=got, required=f'{want} (depth {depth} vs {md}, elements {n} vs {me})')

    @t.scope
    def _(tier, rng):
        for md in (1, 3, 10):
            for d in (md - 1, md, md + 1):
                if d >= 1:
                    yield dict(depth=d, elements=d, max_depth=md, max_elements=1000)
                    yield dict(depth=d, elements=d, max_depth=md, max_elements=1000, comments=2)      # comments and PIs are events too: they must not move the counters
        for me in (1, 5, 12):
            for n in (me - 1, me, me + 1):
                if n >= 1: yield dict(depth=1, elements=n, max_depth=100, max_elements=me)


mk('_parse', False)
mk('_lazy_iterparse', True)
