"""Contracts on xmlschema/validators/particles.py (C01 leaf predicates, C14 occurrence restriction)."""
import itertools
from collections import Counter
import z3
from pyvc.core import Target
from pyvc.se import *
from specs import occurs as spec

F = 'xmlschema/validators/particles.py'


def particle(st, name):
    st.objf[name] = {'min_occurs': VInt(z3.Int(name + '_min')),
                     'max_occurs': VOpt(z3.Bool(name + '_maxnone'), VInt(z3.Int(name + '_max')))}
    return VObj(name)


def P(st, n):
    f = st.objf[n]; return f['min_occurs'].t, f['max_occurs'].none, f['max_occurs'].val.t


def wf(st, n):
    mn, none, mx = P(st, n); return z3.And(mn >= 0, z3.Or(none, mx >= mn))


def occ_in(x, st, n):
    mn, none, mx = P(st, n); return z3.And(mn <= x, z3.Or(none, x <= mx))


def decl_inputs(run, st, names, occ=None):
    for n in names:
        mn, none, mx = P(st, n)
        run.inputs[n + '.min_occurs'] = mn
        run.inputs[n + '.max_occurs'] = ('opt', none, mx)
    if occ is not None: run.inputs['occ'] = occ


ZSPEC = {
    'is_over': lambda st, o: z3.And(z3.Not(P(st, 'self')[1]), o >= P(st, 'self')[2]),
    'is_exceeded': lambda st, o: z3.And(z3.Not(P(st, 'self')[1]), o > P(st, 'self')[2]),
    'is_missing': lambda st, o: o < P(st, 'self')[0],
    'is_emptiable': lambda st, o: P(st, 'self')[0] == 0,
    'is_empty': lambda st, o: z3.And(z3.Not(P(st, 'self')[1]), P(st, 'self')[2] == 0),
    'is_single': lambda st, o: z3.And(z3.Not(P(st, 'self')[1]), P(st, 'self')[2] == 1),
    'is_ambiguous': lambda st, o: z3.Not(z3.And(z3.Not(P(st, 'self')[1]), P(st, 'self')[0] == P(st, 'self')[2])),
    'is_univocal': lambda st, o: z3.And(z3.Not(P(st, 'self')[1]), P(st, 'self')[0] == P(st, 'self')[2]),
    'is_multiple': lambda st, o: z3.Or(P(st, 'self')[1], P(st, 'self')[2] >= 2),
}


def real_particle(mn, mx):
    from xmlschema.validators.particles import ParticleMixin
    return ParticleMixin(mn, mx)


def small_particles():
    for mn in range(0, 4):
        for mx in (None, 0, 1, 2, 3, 5):
            if spec.wf(mn, mx): yield mn, mx


def mk_pred(fn, takes_occurs):
    t = Target(f'particles.{fn}', ['C01'], F, f'ParticleMixin.{fn}',
               note='result <=> spec predicate over (min, max, occurs[self]) for every well-formed particle')

    @t.symbolic
    def _(run):
        ex = run.exec(); st = new_state(); o = z3.Int('occ')
        st.env['self'] = particle(st, 'self')
        st.env['occurs'] = VFunc(lambda ex_, s, recv, args, kw: VInt(o))
        if fn == 'is_multiple':      # modular: callees by their own (separately discharged) contracts
            ex.callees['is_empty'] = lambda ex_, s, recv, a, k: VBool(ZSPEC['is_empty'](s, None))
            ex.callees['is_single'] = lambda ex_, s, recv, a, k: VBool(ZSPEC['is_single'](s, None))
        pre = z3.And(wf(st, 'self'), o >= 0)
        decl_inputs(run, st, ['self'], o)
        outs = ex.run(st, pre)
        run.post(ex, outs, pre, {
            'result-iff-spec': lambda kind, val, s: (val.t == ZSPEC[fn](s, o)) if kind == 'return' and isinstance(val, VBool) else z3.BoolVal(False)})

    @t.concrete
    def _(inp):
        p = real_particle(inp['self.min_occurs'], inp['self.max_occurs'])
        try:
            got = getattr(p, fn)(Counter({p: inp['occ']})) if takes_occurs else getattr(p, fn)()
        except Exception as e:
            return dict(ok=False, observed=f'raised {type(e).__name__}: {e}', required='no exception')
        want = spec.SPEC[fn](inp['self.min_occurs'], inp['self.max_occurs'], inp['occ'])
        return dict(ok=(got is want), observed=got, required=want)

    @t.scope
    def _(tier, rng):
        for mn, mx in small_particles():
            for o in range(0, 7): yield {'self.min_occurs': mn, 'self.max_occurs': mx, 'occ': o}
    return t


for _fn, _occ in [('is_emptiable', False), ('is_empty', False), ('is_single', False), ('is_multiple', False),
                  ('is_ambiguous', False), ('is_univocal', False), ('is_missing', True), ('is_over', True), ('is_exceeded', True)]:
    mk_pred(_fn, _occ)


# ---- lemma over the contracts: not missing and not exceeded <=> occ_in ; over and not exceeded => at the cap
t = Target('particles.lemma_occ_in', ['C01'], F, 'ParticleMixin', note='lemma over the contracts of is_missing/is_exceeded/is_over')


@t.symbolic
def _(run):
    st = new_state(); particle(st, 'self'); o = z3.Int('occ'); pre = z3.And(wf(st, 'self'), o >= 0)
    run.exec(qual='ParticleMixin.is_missing')
    miss, exc, over = ZSPEC['is_missing'](st, o), ZSPEC['is_exceeded'](st, o), ZSPEC['is_over'](st, o)
    run.vc('not-missing-and-not-exceeded-iff-occ_in', pre, [], z3.And(z3.Not(miss), z3.Not(exc)) == occ_in(o, st, 'self'))
    run.vc('over-and-not-exceeded-implies-at-cap', pre, [], z3.Implies(z3.And(over, z3.Not(exc)), o == P(st, 'self')[2]))
    run.paths = 1


# ---- get_expected
t = Target('particles.get_expected', ['C01'], F, 'ParticleMixin.get_expected', note='[self] iff occurs[self] < min else []')


@t.symbolic
def _(run):
    ex = run.exec(); st = new_state(); o = z3.Int('occ')
    st.env['self'] = particle(st, 'self'); st.env['occurs'] = VFunc(lambda ex_, s, recv, args, kw: VInt(o))
    ex.callees['cast'] = lambda ex_, s, recv, a, k: a[1]
    st.env['SchemaElementType'] = OPAQUE
    # list display [x] -> tuple marker so that we can test its length
    ex.e_List = lambda e, s: VTuple([ex.ev(x, s) for x in e.elts])
    pre = z3.And(wf(st, 'self'), o >= 0); decl_inputs(run, st, ['self'], o)
    outs = ex.run(st, pre)

    def post(kind, val, s):
        if kind != 'return': return z3.BoolVal(False)
        if isinstance(val, VTuple):
            if len(val.items) == 1 and isinstance(val.items[0], VObj) and val.items[0].name == 'self': return o < P(s, 'self')[0]
            if len(val.items) == 0: return z3.Not(o < P(s, 'self')[0])
        return z3.BoolVal(False)
    run.post(ex, outs, pre, {'expected-iff-missing': post})


@t.concrete
def _(inp):
    p = real_particle(inp['self.min_occurs'], inp['self.max_occurs'])
    got = p.get_expected(Counter({p: inp['occ']}))
    want = [p] if inp['occ'] < inp['self.min_occurs'] else []
    return dict(ok=(len(got) == len(want) and all(a is b for a, b in zip(got, want))), observed=len(got), required=len(want))


@t.scope
def _(tier, rng):
    for mn, mx in small_particles():
        for o in range(0, 5): yield {'self.min_occurs': mn, 'self.max_occurs': mx, 'occ': o}


# ---- has_occurs_restriction (C14: implication only)
t = Target('particles.has_occurs_restriction', ['C14', 'C01'], F, 'ParticleMixin.has_occurs_restriction',
           note='True => every count admitted by self is admitted by other (for all n >= 0)')


@t.symbolic
def _(run):
    ex = run.exec(); st = new_state(); n = z3.Int('n')
    st.env['self'] = particle(st, 'self'); st.env['other'] = particle(st, 'other')
    pre = z3.And(wf(st, 'self'), wf(st, 'other'), n >= 0); decl_inputs(run, st, ['self', 'other']); run.inputs['n'] = n
    outs = ex.run(st, pre)
    run.post(ex, outs, pre, {
        'true-implies-subset': lambda kind, val, s: z3.Implies(val.t, z3.Implies(occ_in(n, s, 'self'), occ_in(n, s, 'other'))) if kind == 'return' else z3.BoolVal(False),
        # completeness for the non-degenerate case keeps the predicate from being weakened to `False`
        'subset-implies-true': lambda kind, val, s: z3.Implies(
            z3.And(P(s, 'self')[0] >= P(s, 'other')[0], z3.Or(P(s, 'other')[1], z3.And(z3.Not(P(s, 'self')[1]), P(s, 'self')[2] <= P(s, 'other')[2]))), val.t) if kind == 'return' else None})


@t.concrete
def _(inp):
    a = real_particle(inp['self.min_occurs'], inp['self.max_occurs']); b = real_particle(inp['other.min_occurs'], inp['other.max_occurs'])
    got = a.has_occurs_restriction(b)
    A, B = (inp['self.min_occurs'], inp['self.max_occurs']), (inp['other.min_occurs'], inp['other.max_occurs'])
    subset = all(spec.occ_in(n, *B) for n in range(0, 12) if spec.occ_in(n, *A))
    interval_nested = A[0] >= B[0] and (B[1] is None or (A[1] is not None and A[1] <= B[1]))
    ok = (not got or subset) and (not interval_nested or got)
    failed = (['true-implies-subset'] if got and not subset else []) + (['subset-implies-true'] if interval_nested and not got else [])
    return dict(ok=ok, observed=got, required=f'subset={subset} nested={interval_nested}', failed=failed)


@t.scope
def _(tier, rng):
    for (a, b), (c, d) in itertools.product(list(small_particles()), repeat=2):
        yield {'self.min_occurs': a, 'self.max_occurs': b, 'other.min_occurs': c, 'other.max_occurs': d, 'n': 0}


# ---- OccursCalculator arithmetic on N u {inf}
def mk_calc(fn, op):
    t = Target(f'particles.OccursCalculator.{fn}', ['C14', 'C01'], F, f'OccursCalculator.{fn}',
               note='(min, max) arithmetic on N u {unbounded}; inf*0 = 0; monus for __sub__; returns self; other unchanged')

    @t.symbolic
    def _(run):
        ex = run.exec(); st = new_state()
        st.env['self'] = particle(st, 'self'); st.env['other'] = particle(st, 'other')
        a_min, a_none, a_max = P(st, 'self'); b_min, b_none, b_max = P(st, 'other')
        pre = z3.And(wf(st, 'self'), wf(st, 'other')); decl_inputs(run, st, ['self', 'other'])
        outs = ex.run(st, pre)

        def post(kind, val, s):
            if kind != 'return' or not (isinstance(val, VObj) and val.name == 'self'): return z3.BoolVal(False)
            mn, none, mx = P(s, 'self')
            if fn == '__add__':
                return z3.And(mn == a_min + b_min, none == z3.Or(a_none, b_none), z3.Implies(z3.Not(none), mx == a_max + b_max))
            if fn == '__mul__':
                zero = z3.Or(z3.And(z3.Not(a_none), a_max == 0), z3.And(z3.Not(b_none), b_max == 0))
                return z3.And(mn == a_min * b_min, z3.If(zero, z3.And(z3.Not(none), mx == 0),
                              z3.And(none == z3.Or(a_none, b_none), z3.Implies(z3.Not(none), mx == a_max * b_max))))
            return z3.And(mn == z3.If(a_min - b_min > 0, a_min - b_min, 0),
                          z3.If(a_none, none, z3.And(z3.Not(none), mx == z3.If(b_none, 0, z3.If(a_max - b_max > 0, a_max - b_max, 0)))))

        def frame(kind, val, s):
            o = P(s, 'other'); return z3.And(o[0] == b_min, o[1] == b_none, z3.Implies(z3.Not(b_none), o[2] == b_max))
        run.post(ex, outs, pre, {'result-is-spec-arithmetic': post, 'frame-other-unchanged': frame})

    @t.concrete
    def _(inp):
        from xmlschema.validators.particles import OccursCalculator
        c = OccursCalculator(); c.min_occurs, c.max_occurs = inp['self.min_occurs'], inp['self.max_occurs']
        o = real_particle(inp['other.min_occurs'], inp['other.max_occurs'])
        r = getattr(c, fn)(o)
        want = op((inp['self.min_occurs'], inp['self.max_occurs']), (inp['other.min_occurs'], inp['other.max_occurs']))
        ok = r is c and (c.min_occurs, c.max_occurs) == want and (o.min_occurs, o.max_occurs) == (inp['other.min_occurs'], inp['other.max_occurs'])
        return dict(ok=ok, observed=(c.min_occurs, c.max_occurs), required=want)

    @t.scope
    def _(tier, rng):
        for (a, b), (c, d) in itertools.product(list(small_particles()), repeat=2):
            yield {'self.min_occurs': a, 'self.max_occurs': b, 'other.min_occurs': c, 'other.max_occurs': d}


for _fn, _op in (('__add__', spec.add), ('__mul__', spec.mul), ('__sub__', spec.sub)):
    mk_calc(_fn, _op)


t = Target('particles.OccursCalculator.reset', ['C14'], F, 'OccursCalculator.reset', note='min = max = 0 afterwards')


@t.symbolic
def _(run):
    ex = run.exec(); st = new_state(); st.env['self'] = particle(st, 'self'); pre = wf(st, 'self')
    outs = ex.run(st, pre)
    run.post(ex, outs, pre, {'zeroed': lambda kind, val, s: z3.And(P(s, 'self')[0] == 0, z3.Not(P(s, 'self')[1]), P(s, 'self')[2] == 0) if kind in ('fall', 'return') else z3.BoolVal(False)})
