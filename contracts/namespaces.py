"""Contracts on namespaces.py (NamespaceMapper) and utils/qnames.py (C17).

R-INV(m): for every uri in dom(m._reverse), with p = m._reverse[uri] minus the trailing ':':
          p in dom(m.namespaces) and m.namespaces[p] = uri.
Under R-INV, unmap_qname(map_qname('{uri}local')) = '{uri}local'.
"""
import itertools
import z3
from pyvc.core import Target
from pyvc.se import *

F = 'xmlschema/namespaces.py'
SS = z3.ArraySort(S, S); SB = z3.ArraySort(S, B)


def mapper_state():
    st = new_state()
    ns_dom, ns_val, rv_dom, rv_val = z3.Const('ns_dom', SB), z3.Const('ns_val', SS), z3.Const('rv_dom', SB), z3.Const('rv_val', SS)
    c_ns = st.alloc(kind='dict', dom=ns_dom, val=ns_val, ksort=S, default=None, wrap=lambda t: VStr(t))
    c_rv = st.alloc(kind='dict', dom=rv_dom, val=rv_val, ksort=S, default=None, wrap=lambda t: VStr(t))
    st.objf['self'] = {'_use_namespaces': VBool(z3.BoolVal(True)), 'strip_namespaces': VBool(z3.BoolVal(False)),
                       'namespaces': VDict(c_ns), '_reverse': VDict(c_rv)}
    st.env['self'] = VObj('self')
    return st, (ns_dom, ns_val, rv_dom, rv_val), (c_ns, c_rv)


u, l = z3.Strings('u l')
Q = z3.Concat(SV('{'), u, SV('}'), l)
no = lambda s, ch: z3.Not(z3.Contains(s, SV(ch)))
shape = z3.And(no(u, '}'), no(l, '}'), no(l, ':'), no(l, '{'), z3.Length(l) > 0, z3.Length(u) > 0)


def pref_of(r): return z3.If(r == SV(''), SV(''), z3.SubString(r, 0, z3.Length(r) - 1))


def rinv(ns_dom, ns_val, rv_dom, rv_val):
    k = z3.Const('k', S)
    return z3.ForAll([k], z3.Implies(rv_dom[k], z3.And(
        z3.Or(rv_val[k] == SV(''), z3.SuffixOf(SV(':'), rv_val[k])),
        ns_dom[pref_of(rv_val[k])], ns_val[pref_of(rv_val[k])] == k,
        no(pref_of(rv_val[k]), ':'), z3.Not(z3.PrefixOf(SV('{'), pref_of(rv_val[k]))))))


def py_rinv(m):
    for uri, p in m._reverse.items():
        pre = p[:-1] if p else ''
        if (p and not p.endswith(':')) or pre not in m.namespaces or m.namespaces[pre] != uri: return False
    return True


t = Target('namespaces.map_qname', ['C17'], F, 'NamespaceMapper.map_qname', strings=True,
           note="for '{u}l' well shaped: result = _reverse[u] + l when u is registered, else the name unchanged; nothing is raised")


@t.symbolic
def _(run):
    ex = run.exec(); st, (ns_dom, ns_val, rv_dom, rv_val), _c = mapper_state()
    st.env['qname'] = VStr(Q)
    pre = z3.And(shape, rinv(ns_dom, ns_val, rv_dom, rv_val))
    outs = ex.run(st, pre)

    def post_map(kind, v, s):
        if kind == 'raise': return z3.BoolVal(False)
        return z3.If(z3.And(rv_dom[u], nonempty_arr(ns_dom)), v.t == z3.Concat(rv_val[u], l), v.t == Q)
    run.post(ex, outs, pre, {'mapped-with-the-registered-prefix': post_map})
    # round trip: unmap_qname(map_qname(Q)) == Q
    n = 0
    for kind, v, s in outs:
        if kind != 'return': continue
        ex2 = run.exec(qual='NamespaceMapper.unmap_qname'); st2, _x, _y = mapper_state()
        st2.pc = list(s.pc); st2.trail = list(s.trail) + ['|unmap']
        st2.env.update(qname=VStr(v.t), name_table=NONE, xmlns=NONE)
        outs2 = ex2.run(st2, pre)
        run.post(ex2, outs2, pre, {'roundtrip-unmap(map(Q))=Q': lambda k2, v2, s2: z3.BoolVal(False) if k2 == 'raise' else (v2.t == Q)})
        n += 1
    if n == 0: raise Unsupported('map_qname has no returning path')


def real_mapper(ns):
    from xmlschema.namespaces import NamespaceMapper
    return NamespaceMapper(dict(ns))


@t.concrete
def _(inp):
    m = real_mapper(inp['ns'])
    if not py_rinv(m): return dict(ok=False, observed='R-INV broken after __init__', required='R-INV')
    bad = []
    for uri in set(m.namespaces.values()) | {'urn:unmapped'}:
        if not uri: continue
        q = '{%s}local' % uri
        mq = m.map_qname(q); back = m.unmap_qname(mq)
        if back != q: bad.append((q, mq, back))
        if uri in m._reverse and mq != m._reverse[uri] + 'local': bad.append((q, mq, 'expected prefix ' + m._reverse[uri]))
    return dict(ok=not bad, observed=bad[:3], required='unmap(map(q)) == q')


NSPOOL = [('', 'urn:a'), ('p', 'urn:a'), ('p', 'urn:b'), ('q', 'urn:a'), ('q', 'urn:c'), ('', 'urn:c'), ('r', '')]


@t.scope
def _(tier, rng):
    for r in range(0, 4):
        for c in itertools.permutations(NSPOOL, r):
            if len({p for p, _ in c}) == len(c): yield dict(ns=list(c))


# ------------------------------------------------------------------ unmap_qname on prefixed / local names
t = Target('namespaces.unmap_qname', ['C17'], F, 'NamespaceMapper.unmap_qname', strings=True,
           note="'p:l' with p registered -> '{ns[p]}l' (or 'l' when ns[p] is empty); unregistered prefix -> unchanged; a local name gets "
                "the default namespace unless the name table contains it")


@t.symbolic
def _(run):
    from xmlschema.exceptions import XMLSchemaValueError
    ex = run.exec(); st, (ns_dom, ns_val, rv_dom, rv_val), _c = mapper_state()
    p, n = z3.Strings('p n'); qn = z3.Concat(p, SV(':'), n)
    st.env.update(qname=VStr(qn), name_table=NONE, xmlns=NONE)
    pre = z3.And(no(p, ':'), no(n, ':'), z3.Not(z3.PrefixOf(SV('{'), p)), nonempty_arr(ns_dom))
    outs = ex.run(st, pre)

    def post(kind, v, s):
        if kind == 'raise': return z3.BoolVal(False)
        return z3.If(ns_dom[p], z3.If(ns_val[p] == SV(''), v.t == n, v.t == z3.Concat(SV('{'), ns_val[p], SV('}'), n)), v.t == qn)
    run.post(ex, outs, pre, {'prefixed-name-resolved-by-the-map': post})
    # local name
    ex = run.exec(); st, (ns_dom, ns_val, rv_dom, rv_val), _c = mapper_state()
    st.env.update(qname=VStr(n), name_table=NONE, xmlns=NONE)
    pre2 = z3.And(no(n, ':'), z3.Not(z3.PrefixOf(SV('{'), n)), z3.Length(n) > 0, nonempty_arr(ns_dom))
    outs = ex.run(st, pre2)
    dflt = z3.And(ns_dom[SV('')], ns_val[SV('')] != SV(''))
    run.post(ex, outs, pre2, {'local-name-gets-default-namespace': lambda kind, v, s: z3.BoolVal(False) if kind == 'raise' else
                              z3.If(dflt, v.t == z3.Concat(SV('{'), ns_val[SV('')], SV('}'), n), v.t == n)})


# ------------------------------------------------------------------ R-INV preservation of the mutators (bounded: loops / comprehensions)
def ops_scope(tier, rng):
    uris = ['urn:a', 'urn:b', '']
    prefixes = ['', 'p', 'q']
    n = 400 if tier == 'thorough' else 120
    # exhaustive short sequences, then seeded longer ones
    atoms = [('set', p, u_) for p in prefixes for u_ in uris] + [('del', p, None) for p in prefixes]
    for a in atoms:
        for b in atoms: yield dict(ops=[a, b])
    for _ in range(n): yield dict(ops=[rng.choice(atoms) for _ in range(rng.randint(3, 6))])


t = Target('namespaces.mutators_preserve_rinv', ['C17'], F, 'NamespaceMapper.__setitem__', bounded_only=True,
           note='bounded run-time contract: after every __setitem__/__delitem__ in a sequence, R-INV holds and every registered '
                'namespace still round-trips')


@t.concrete
def _(inp):
    m = real_mapper([])
    for i, (op, p, uri) in enumerate(inp['ops']):
        try:
            if op == 'set': m[p] = uri
            elif p in m: del m[p]
        except Exception as e:
            return dict(ok=False, observed=f'op {i} {op} {p!r}: raised {type(e).__name__}: {e}', required='no exception')
        if not py_rinv(m): return dict(ok=False, observed=f'after op {i} {(op, p, uri)}: namespaces={dict(m.namespaces)} reverse={m._reverse}', required='R-INV')
        for uri2 in set(m.namespaces.values()):
            if uri2 and m.unmap_qname(m.map_qname('{%s}x' % uri2)) != '{%s}x' % uri2:
                return dict(ok=False, observed=f'after op {i}: {uri2} does not round-trip; namespaces={dict(m.namespaces)} reverse={m._reverse}', required='round trip')
    return dict(ok=True, observed='ok', required='R-INV after every operation')


t.scope(ops_scope)


# ------------------------------------------------------------------ set_xmlns_context (stacked): bounded
t = Target('namespaces.set_xmlns_context', ['C17', 'C11', 'C05'], F, 'NamespaceMapper.set_xmlns_context', bounded_only=True,
           note='bounded run-time contract on the real method in stacked mode over generated element trees: after entering a node, '
                'namespaces = in-scope declarations of the node, R-INV holds, and every in-scope namespace round-trips; '
                'after leaving a scope the saved pair is restored')


def _walk_docs(tier, rng):
    pre = ['', 'p', 'q']; uris = ['urn:a', 'urn:b', 'urn:c']
    def decls(): return [(rng.choice(pre), rng.choice(uris)) for _ in range(rng.choice([0, 0, 1, 1, 2]))]
    def node(depth):
        d = dict(decls()); kids = [node(depth + 1) for _ in range(rng.choice([0, 1, 2]) if depth < 3 else 0)]
        return (list(d.items()), kids)
    for _ in range(600 if tier == 'thorough' else 150):
        yield dict(tree=node(0))
    # exhaustive two-level part: every declaration map over 3 prefixes x 3 URIs on the root (64) x every map on a child (64), followed by a
    # sibling without declarations (the saved pair must be restored); quick takes a seeded quarter
    import itertools
    maps = [[(p, u_) for p, u_ in zip(pre, c) if u_] for c in itertools.product([None] + uris, repeat=3)]
    r = rng.randrange(4)
    for i, (a, b) in enumerate(itertools.product(maps, maps)):
        if tier == 'thorough' or ((i * 2654435761 + 12345) >> 7) % 4 == r:
            yield dict(tree=(a, [(b, [([], [])]), ([], [])]))


@t.concrete
def _(inp):
    import xmlschema
    from xmlschema.namespaces import NamespaceMapper
    from xml.etree.ElementTree import Element
    # build a real XMLResource so that the mapper runs in its default 'stacked' mode with the real xmlns getter
    def ser(n, top=False):
        decl = ''.join(' xmlns%s="%s"' % ((':' + p) if p else '', u_) for p, u_ in n[0])
        return '<e%s>%s</e>' % (decl, ''.join(ser(k) for k in n[1]))
    text = ser(inp['tree'])
    res = xmlschema.XMLResource(text)
    m = NamespaceMapper(source=res)
    def visit(elem, level, inscope):
        xmlns = res.get_xmlns(elem) or []
        scope = dict(inscope); scope.update(xmlns)
        try: m.set_xmlns_context(elem, level)
        except Exception as e: return f'level {level}: set_xmlns_context raised {type(e).__name__}: {e}'      # the contract allows no exception
        if dict(m.namespaces) != {k: v for k, v in scope.items()} and level > 0:
            return f'level {level}: namespaces={dict(m.namespaces)} expected {scope}'
        if not py_rinv(m): return f'level {level}: R-INV broken namespaces={dict(m.namespaces)} reverse={m._reverse}'
        for uri in set(m.namespaces.values()):
            if uri and m.unmap_qname(m.map_qname('{%s}x' % uri)) != '{%s}x' % uri:
                return f'level {level}: {uri} does not round-trip namespaces={dict(m.namespaces)} reverse={m._reverse}'
        for child in elem:
            r = visit(child, level + 1, scope)
            if r: return r
        return None
    root_scope = {}
    r = visit(res.root, 0, root_scope)
    return dict(ok=r is None, observed=r or 'ok', required='in-scope map, R-INV and round trip at every node', doc=text if r else None)


t.scope(_walk_docs)
