"""C20 kernel (syntactic, back end `ast`): lists that a resource iterator mutates in place are never aliased.

XMLSchemaBase.iter_errors / iter_decode hand a local list to resource.iterfind / iter_depth as `ancestors=`; the iterator keeps that one list
up to date in place while it yields.  Every other local that is meant to remember an earlier state of it (prev_ancestors) must therefore be
bound to a COPY: an assignment `y = ancestors` would make `prev_ancestors != ancestors` false for ever, and the identity counters of
the ancestors would be set up for the first selected element only (partial validation then differs from the whole-document run).
"""
import ast
import z3
from pyvc.core import Target
from pyvc.se import find_def, Unsupported

F = 'xmlschema/validators/schemas.py'
t = Target('schemas.path_loops.no_alias_of_iterator_owned_lists', ['C20'], F, 'XMLSchemaBase.iter_errors',
           note='in iter_errors and iter_decode a list passed to the resource iterator as ancestors= is owned by the iterator: no other name is bound to the list itself '
                '(only to copies: slices, list(...), .copy()), it is not stored in a container or an attribute, and the loop body does not rebind it',
           assumes=['syntactic obligation on the real AST (no solver)', 'the in-place update of the list by XMLResource.iterfind / iter_depth is the documented behaviour of their ancestors argument'])


@t.symbolic
def _(run):
    ex = run.exec(); cls = find_def(ex.tree, 'XMLSchemaBase'); n = 0
    for fname in ('iter_errors', 'iter_decode'):
        fn = find_def(cls, fname)
        if fn is None: raise Unsupported(fname + ' not found')
        owned = {kw.value.id for c in ast.walk(fn) if isinstance(c, ast.Call) for kw in c.keywords if kw.arg == 'ancestors' and isinstance(kw.value, ast.Name)}
        if fname == 'iter_errors' and not owned: raise Unsupported('no list is handed to the resource iterator: the scan is broken')
        for name in sorted(owned):
            n += 1
            aliases = [ast.unparse(s) for s in ast.walk(fn) if isinstance(s, (ast.Assign, ast.AnnAssign)) and s.value is not None
                       and any(isinstance(x, ast.Name) and x.id == name for x in ([s.value] if isinstance(s.value, ast.Name) else
                               (s.value.elts if isinstance(s.value, (ast.Tuple, ast.List, ast.Set)) else (list(s.value.values) if isinstance(s.value, ast.Dict) else []))))]
            rebinds = [ast.unparse(s) for s in ast.walk(fn) if isinstance(s, (ast.Assign, ast.AugAssign, ast.AnnAssign))
                       for tg in (s.targets if isinstance(s, ast.Assign) else [s.target]) if isinstance(tg, ast.Name) and tg.id == name]
            run.vc('iterator-owned-list-is-never-aliased', z3.BoolVal(True), [], z3.BoolVal(not aliases), f'{fname}:{name}' + (' alias=' + ';'.join(aliases) if aliases else ''))
            run.vc('iterator-owned-list-is-bound-once', z3.BoolVal(True), [], z3.BoolVal(len(rebinds) == 1), f'{fname}:{name} bindings={len(rebinds)}')
    run.paths = n
