"""C20 kernel (syntactic, back end `ast`): lists that a resource iterator mutates in place are never aliased.

XMLSchemaBase.iter_errors / iter_decode hand a local list to resource.iterfind / iter_depth as `ancestors=`; the iterator keeps that one list
up to date in place while it yields.  Every other local that is meant to remember an earlier state of it (prev_ancestors) must therefore be
bound to a COPY: an assignment `y = ancestors` would make `prev_ancestors != ancestors` false for ever, and the identity counters of
the ancestors would be set up for the first selected element only (partial validation then differs from the whole-document run).
"""
import ast
import z3
from pyvc.core import Target
from pyvc.se import find_def, Unsupported

F = 'xmlschema/validators/schemas.py'
t = Target('schemas.path_loops.no_alias_of_iterator_owned_lists', ['C20', 'C04', 'C08', 'C06'], F, 'XMLSchemaBase.iter_errors',
           note='in iter_errors and iter_decode a list passed to the resource iterator as ancestors= is owned by the iterator: no other name is bound to the list itself '
                '(only to copies: slices, list(...), .copy()), it is not stored in a container or an attribute, and the loop body does not rebind it',
           assumes=['syntactic obligation on the real AST (no solver)', 'the in-place update of the list by XMLResource.iterfind / iter_depth is the documented behaviour of their ancestors argument'])


@t.symbolic
def _(run):
    ex = run.exec(); cls = find_def(ex.tree, 'XMLSchemaBase'); n = 0
    for fname in ('iter_errors', 'iter_decode'):
        fn = find_def(cls, fname)
        if fn is None: raise Unsupported(fname + ' not found')
        owned = {kw.value.id for c in ast.walk(fn) if isinstance(c, ast.Call) for kw in c.keywords if kw.arg == 'ancestors' and isinstance(kw.value, ast.Name)}
        if fname == 'iter_errors' and not owned: raise Unsupported('no list is handed to the resource iterator: the scan is broken')
        for name in sorted(owned):
            n += 1
            aliases = [ast.unparse(s) for s in ast.walk(fn) if isinstance(s, (ast.Assign, ast.AnnAssign)) and s.value is not None
                       and any(isinstance(x, ast.Name) and x.id == name for x in ([s.value] if isinstance(s.value, ast.Name) else
                               (s.value.elts if isinstance(s.value, (ast.Tuple, ast.List, ast.Set)) else (list(s.value.values) if isinstance(s.value, ast.Dict) else []))))]
            rebinds = [ast.unparse(s) for s in ast.walk(fn) if isinstance(s, (ast.Assign, ast.AugAssign, ast.AnnAssign))
                       for tg in (s.targets if isinstance(s, ast.Assign) else [s.target]) if isinstance(tg, ast.Name) and tg.id == name]
            run.vc('iterator-owned-list-is-never-aliased', z3.BoolVal(True), [], z3.BoolVal(not aliases), f'{fname}:{name}' + (' alias=' + ';'.join(aliases) if aliases else ''))
            run.vc('iterator-owned-list-is-bound-once', z3.BoolVal(True), [], z3.BoolVal(len(rebinds) == 1), f'{fname}:{name} bindings={len(rebinds)}')
    run.paths = n


# ------------------------------------------------------------------ XMLSchemaBase.get_element: the declaration a (tag, schema path) pair denotes
from pyvc.se import *
t = Target('schemas.get_element', ['C20', 'C06', 'C04'], F, 'XMLSchemaBase.get_element', strings=True,
           note='the declaration returned for (tag, path): without a path (or a path that is the tag) the global element; for a path the declaration find() yields there '
                'when it is an element named tag - a local declaration takes precedence over a global one of the same name; for a wildcard path `.../*` the step is '
                'replaced by the tag first; otherwise the global element of that name (a substitute) or None; the result is never a declaration with another name',
           assumes=['path=None is represented by the empty string: the body tests only the truthiness of path before any other use', 'find(path) (XPath on the schema, elementpath) and the global map are uninterpreted functions; isinstance(x, XsdElement) is an uninterpreted predicate'])


@t.symbolic
def _(run):
    ex = run.exec(); st = new_state()
    tag = z3.String('tag'); path = z3.String('path'); pnone = z3.Bool('path_none')
    find = z3.Function('find', S, Ref); fnone = z3.Function('find_none', S, B); is_elem = z3.Function('is_XsdElement', Ref, B); name = z3.Function('name', Ref, S)
    glob = z3.Function('global_element', S, Ref); gnone = z3.Function('no_global_element', S, B)
    st.objf['elements'] = {}; st.objf['maps'] = {'elements': VObj('elements')}; st.objf['self'] = {'maps': VObj('maps')}
    st.env.update(self=VObj('self'), tag=VStr(tag), path=VStr(path), namespaces=OPAQUE)
    ex.callees['find'] = lambda e, s, r, a, k: VOpt(fnone(lift(a[0]).t), VRef(find(lift(a[0]).t)))
    ex.callees['get'] = lambda e, s, r, a, k: VOpt(gnone(lift(a[0]).t), VRef(glob(lift(a[0]).t)))

    def isinstance_(e, s, r, a, k):
        x = a[0]
        if isinstance(x, VOpt): return VBool(z3.And(z3.Not(x.none), is_elem(x.val.t)))
        if isinstance(x, VRef): return VBool(is_elem(x.t))
        if isinstance(x, VNone): return VBool(z3.BoolVal(False))
        raise Unsupported('isinstance')
    ex.callees['isinstance'] = isinstance_
    ex.names['XsdElement'] = OPAQUE
    orig_attr = ex.e_Attribute

    def e_Attribute(e, s):
        if ast.unparse(e) == 'xsd_element.name':
            x = s.env['xsd_element']; x = x.val if isinstance(x, VOpt) else x
            return VStr(name(x.t))
        return orig_attr(e, s)
    ex.e_Attribute = e_Attribute
    pre = z3.And(z3.Length(tag) > 0, z3.Not(z3.Contains(tag, SV('/'))), z3.Not(pnone),
                 z3.ForAll([z3.Const('g', S)], z3.Implies(z3.Not(gnone(z3.Const('g', S))), z3.And(is_elem(glob(z3.Const('g', S))), name(glob(z3.Const('g', S))) == z3.Const('g', S)))))
    run.inputs.update(tag=tag, path=path)
    outs = ex.run(st, pre)
    plain = z3.Or(pnone, z3.Length(path) == 0, path == tag, path == z3.Concat(SV('/'), tag))
    star = z3.And(z3.Not(plain), z3.SuffixOf(SV('*'), path))
    eff = z3.If(star, z3.Concat(z3.SubString(path, 0, z3.Length(path) - 1), tag), path)
    found_ok = z3.And(z3.Not(fnone(eff)), is_elem(find(eff)), name(find(eff)) == tag)
    found_elem = z3.And(z3.Not(fnone(eff)), is_elem(find(eff)))

    def res(v): return (v.none, v.val.t) if isinstance(v, VOpt) else ((z3.BoolVal(True), None) if isinstance(v, VNone) else (z3.BoolVal(False), v.t))

    def spec(kind, v, s):
        if kind != 'return': return z3.BoolVal(False)
        none, ref = res(v)
        is_glob = (none == gnone(tag)) if ref is None else z3.And(none == gnone(tag), z3.Implies(z3.Not(none), ref == glob(tag)))
        is_found = z3.BoolVal(False) if ref is None else z3.And(z3.Not(none), ref == find(eff))
        is_none = none
        return z3.If(plain, is_glob, z3.If(found_ok, is_found, z3.If(z3.Or(star, found_elem), is_glob, is_none)))

    def never_other_name(kind, v, s):
        if kind != 'return': return z3.BoolVal(False)
        none, ref = res(v)
        return z3.BoolVal(True) if ref is None else z3.Implies(z3.Not(none), z3.And(is_elem(ref), name(ref) == tag))
    run.post(ex, outs, pre, {'result-is-the-declaration-at-the-path-else-the-global-one': spec, 'result-is-an-element-named-tag': never_other_name})


_GE = {}


@t.concrete
def _(inp):
    import xmlschema
    from xmlschema.validators import XsdElement
    s = _GE.get('s')
    if s is None:
        s = _GE['s'] = xmlschema.XMLSchema10('''<xs:schema xmlns:xs="http://www.w3.org/2001/XMLSchema" targetNamespace="urn:t" xmlns:t="urn:t" elementFormDefault="qualified">
 <xs:element name="code" type="xs:int"/><xs:element name="head" type="xs:token"/><xs:element name="member" type="xs:NCName" substitutionGroup="t:head"/>
 <xs:element name="r"><xs:complexType><xs:sequence><xs:element name="code" type="xs:string" maxOccurs="unbounded"/><xs:element ref="t:head" minOccurs="0"/>
   <xs:element name="only" type="xs:date" minOccurs="0"/></xs:sequence></xs:complexType></xs:element></xs:schema>''')
    ns = {'t': 'urn:t'}; tag, path = inp['tag'], inp['path'] or None
    got = s.get_element(tag, path, ns)
    glob = s.maps.elements.get(tag)
    if not path or path == tag or path == '/' + tag: want = glob
    else:
        eff = path[:-1] + tag if path.endswith('*') else path
        try: found = s.find(eff, ns)
        except Exception: return dict(ok=True, observed='path not evaluable', required='-')
        if isinstance(found, XsdElement) and found.name == tag: want = found
        elif path.endswith('*') or isinstance(found, XsdElement): want = glob
        else: want = None
    failed = []
    if got is not want: failed.append('result-is-the-declaration-at-the-path-else-the-global-one')
    if got is not None and got.name != tag: failed.append('result-is-an-element-named-tag')
    return dict(ok=not failed, observed=repr(got), required=repr(want), failed=failed)


@t.scope
def _(tier, rng):
    T = '{urn:t}'
    for tag in (T + 'code', T + 'head', T + 'member', T + 'only', T + 'r', T + 'nope'):
        for path in ('', tag, '/' + tag, '/t:r/*', '/t:r/t:code', '/t:r/t:head', '/t:r/t:only', '/t:r', '/t:r/t:nope', '/t:nope/*', 't:r/*', '/t:r/t:code/*'):
            yield dict(tag=tag, path=path)
