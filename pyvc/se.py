"""pyvc symbolic executor: forward, path-splitting execution of the *real* function ASTs
read from /repo on every run (DESIGN.md section 2).  Values, heap cells, exceptions against the
real class hierarchy, dict/Counter, lists, loops by invariant rule, generators, strings,
statement anchors.  Anything outside the supported subset raises Unsupported, which makes the
target undecided (never discharged, never a violation).
"""
import ast, builtins, hashlib, itertools, subprocess, tempfile, time, os
import z3

REPO = os.environ.get('VERIF_REPO', '/repo')
FEAS_MS = int(os.environ.get('PYVC_FEAS_MS', '150'))   # budget of a path-feasibility query; unknown keeps the path

S, B, I = z3.StringSort(), z3.BoolSort(), z3.IntSort()
Ref = z3.DeclareSort('Ref')
SV = z3.StringVal


# ---------------------------------------------------------------- values
class V: pass
class VInt(V):
    def __init__(s, t): s.t = t
class VBool(V):
    def __init__(s, t): s.t = t
class VStr(V):
    def __init__(s, t): s.t = t
class VNone(V): pass
NONE = VNone()
class VOpt(V):      # Optional[inner]; inner is a V whose term is meaningful when not none
    def __init__(s, none, val): s.none, s.val = none, val
class VSet(V):
    def __init__(s, cell): s.cell = cell
class VDict(V):
    def __init__(s, cell): s.cell = cell
class VList(V):
    def __init__(s, cell): s.cell = cell
class VTuple(V):
    def __init__(s, items): s.items = list(items)
class VObj(V):      # named concrete object
    def __init__(s, name): s.name = name
class VRef(V):      # symbolic reference with field functions
    def __init__(s, t, cls=None): s.t, s.cls = t, cls
class VExc(V):
    def __init__(s, cls, obj=None, args=()): s.cls, s.obj, s.args = cls, obj, args
class VFunc(V):
    def __init__(s, fn): s.fn = fn
class VOpaque(V):   # message strings and other irrelevant values
    pass
OPAQUE = VOpaque()


def lift(x):
    if isinstance(x, V): return x
    if isinstance(x, bool): return VBool(z3.BoolVal(x))
    if isinstance(x, int): return VInt(z3.IntVal(x))
    if isinstance(x, str): return VStr(SV(x))
    if x is None: return NONE
    if isinstance(x, tuple): return VTuple([lift(i) for i in x])
    if z3.is_bool(x): return VBool(x)
    if z3.is_int(x): return VInt(x)
    if z3.is_string(x): return VStr(x)
    raise TypeError(x)


class Unsupported(Exception): pass


def find_def(node, name):
    """Direct definition `name` in the body of node (also inside if/try/with blocks, not inside
    other defs)."""
    stack = list(getattr(node, 'body', []))
    while stack:
        n = stack.pop(0)
        if isinstance(n, (ast.ClassDef, ast.FunctionDef, ast.AsyncFunctionDef)):
            if n.name == name and not any(ast.unparse(d).endswith('overload') for d in n.decorator_list): return n
            continue
        for fld in ('body', 'orelse', 'finalbody', 'handlers'):
            stack.extend(x for x in getattr(n, fld, []) if isinstance(x, ast.AST))
    return None


class State:
    def __init__(s, pc, env, heap, objf, ghost, counter, trail=None):
        s.pc, s.env, s.heap, s.objf, s.ghost, s.counter = pc, env, heap, objf, ghost, counter
        s.trail = list(trail or [])
    def fork(s, cond=None, mark=None):
        n = State(list(s.pc), dict(s.env), {k: dict(v) for k, v in s.heap.items()},
                  {k: dict(v) for k, v in s.objf.items()}, dict(s.ghost), s.counter, s.trail)
        if cond is not None: n.pc.append(cond)
        if mark is not None: n.trail.append(mark)
        return n
    def alloc(s, **payload):
        c = next(s.counter); s.heap[c] = payload; return c
    def new_set(s, arr=None): return VSet(s.alloc(kind='set', arr=arr if arr is not None else z3.K(S, False)))
    def new_list(s, seq, esort): return VList(s.alloc(kind='list', seq=seq, esort=esort))


def nonempty_arr(a, sort=S):
    q = z3.FreshConst(sort, 'e'); return z3.Exists([q], a[q])


class Exec:
    def __init__(self, path, qual=None, anchor=None, source=None, anchor_end=None):
        """path: file below REPO (or absolute); qual: 'Class.method' / 'function'; anchor: unparsed
        prefix of the first statement of a block inside the function (statement contract); the
        block is that statement alone, or the statements from it up to (excluding) the sibling
        statement starting with anchor_end.  source: in-memory text replacing the file (mutants)."""
        if not os.path.isabs(path): path = os.path.join(REPO, path)
        self.src = source if source is not None else open(path, encoding='utf-8-sig').read()
        self.tree = ast.parse(self.src); self.path = path
        node = self.tree
        if qual:
            for part in qual.split('.'):
                node = find_def(node, part)
                if node is None: raise Unsupported(f'target {qual!r} not found in {path}')
        self.fn = node
        self.body = node.body
        self.src_hash = hashlib.sha256(ast.unparse(node).encode()).hexdigest()[:16]
        if anchor:
            hits = []
            for n in ast.walk(node):
                for fld in ('body', 'orelse', 'finalbody'):
                    seq = getattr(n, fld, None)
                    if isinstance(seq, list):
                        for i, x in enumerate(seq):
                            if isinstance(x, ast.stmt) and ast.unparse(x).startswith(anchor): hits.append((seq, i))
            if len(hits) != 1: raise Unsupported(f'anchor {anchor!r}: {len(hits)} hits')
            seq, i = hits[0]
            if anchor_end is None: self.body = [seq[i]]
            elif anchor_end == '$': self.body = seq[i:]
            else:
                ends = [j for j in range(i + 1, len(seq)) if ast.unparse(seq[j]).startswith(anchor_end)]
                if len(ends) != 1: raise Unsupported(f'anchor_end {anchor_end!r}: {len(ends)} hits')
                self.body = seq[i:ends[0]]
            self.src_hash = hashlib.sha256('\n'.join(ast.unparse(x) for x in self.body).encode()).hexdigest()[:16]
        self.inlines = {}       # callee name -> ast.FunctionDef executed from its real AST at statement level
        self.callees = {}       # attr/func name -> handler(ex, st, recv, args, kwargs) -> outcomes list or V
        self.names = {}         # global names -> V
        self.invariants = {}    # loop header text -> dict(modifies=[names], inv=fn(st, it) -> z3 Bool)
        self.obligations = []   # (label, pc, goal)
        self.pre = z3.BoolVal(True)
        self.loop_no = 0
        self.is_generator = any(isinstance(n, (ast.Yield, ast.YieldFrom)) for n in ast.walk(node))
        self.exc_lookup = {}

    # ------------------------------------------------------------ helpers
    def truthy(self, st, v):
        v = lift(v)
        if isinstance(v, VBool): return v.t
        if isinstance(v, VInt): return v.t != 0
        if isinstance(v, VStr): return z3.Length(v.t) > 0
        if isinstance(v, VNone): return z3.BoolVal(False)
        if isinstance(v, VOpt): return z3.And(z3.Not(v.none), self.truthy(st, v.val))
        if isinstance(v, VSet): return nonempty_arr(st.heap[v.cell]['arr'])
        if isinstance(v, VDict): return nonempty_arr(st.heap[v.cell]['dom'], st.heap[v.cell]['ksort'])
        if isinstance(v, VList): return z3.Length(st.heap[v.cell]['seq']) > 0
        if isinstance(v, VTuple): return z3.BoolVal(len(v.items) > 0)
        if isinstance(v, (VObj, VRef, VFunc)): return z3.BoolVal(True)
        if isinstance(v, VOpaque): return z3.FreshConst(B, 'opaque')
        raise Unsupported(('truthy', v))

    def eq(self, st, a, b):
        a, b = lift(a), lift(b)
        if isinstance(a, VOpt) or isinstance(b, VOpt):
            ao = a if isinstance(a, VOpt) else (VOpt(z3.BoolVal(True), None) if isinstance(a, VNone) else VOpt(z3.BoolVal(False), a))
            bo = b if isinstance(b, VOpt) else (VOpt(z3.BoolVal(True), None) if isinstance(b, VNone) else VOpt(z3.BoolVal(False), b))
            both = z3.And(ao.none, bo.none)
            if ao.val is None or bo.val is None: return both
            return z3.Or(both, z3.And(z3.Not(ao.none), z3.Not(bo.none), self.eq(st, ao.val, bo.val)))
        if type(a) is not type(b):
            if isinstance(a, VBool) and isinstance(b, VInt): return z3.If(a.t, 1, 0) == b.t
            if isinstance(a, VInt) and isinstance(b, VBool): return a.t == z3.If(b.t, 1, 0)
            if (isinstance(a, VRef) or isinstance(b, VRef)) and isinstance(a, (VRef, VInt, VStr, VBool)) and isinstance(b, (VRef, VInt, VStr, VBool)):
                # a reference stands for an arbitrary Python object: whether it equals a scalar is not known (e.g. a decoded value that is the text itself)
                return z3.Function(f'py_eq_{a.t.sort()}_{b.t.sort()}', a.t.sort(), b.t.sort(), B)(a.t, b.t)
            return z3.BoolVal(False)
        if isinstance(a, (VInt, VBool, VStr, VRef)): return a.t == b.t
        if isinstance(a, VNone): return z3.BoolVal(True)
        if isinstance(a, VSet): return st.heap[a.cell]['arr'] == st.heap[b.cell]['arr']
        if isinstance(a, VTuple):
            if len(a.items) != len(b.items): return z3.BoolVal(False)
            return z3.And(*[self.eq(st, x, y) for x, y in zip(a.items, b.items)]) if a.items else z3.BoolVal(True)
        if isinstance(a, VObj): return z3.BoolVal(a.name == b.name)
        raise Unsupported(('eq', a, b))

    def oblige(self, label, st, goal):
        self.obligations.append((label, list(st.pc), goal))

    def feasible(self, st):
        s = z3.Solver(); s.set('timeout', FEAS_MS); s.add(self.pre, *st.pc)
        return s.check() != z3.unsat

    def resolve_exc(self, name):
        if name in self.exc_lookup: return self.exc_lookup[name]
        if hasattr(builtins, name): return getattr(builtins, name)
        import xmlschema, xmlschema.validators.exceptions as ve, xmlschema.exceptions as xe
        for m in (ve, xe, xmlschema):
            if hasattr(m, name): return getattr(m, name)
        raise Unsupported(('exception class', name))

    # ------------------------------------------------------------ expressions -> list[(V, State)] would be fully general;
    # the spike keeps expressions non-forking except for explicitly raising primitives handled via `pending`.
    def ev(self, e, st):
        m = getattr(self, 'e_' + type(e).__name__, None)
        if m is None: raise Unsupported(ast.unparse(e)[:80])
        return m(e, st)

    def e_Constant(self, e, st): return lift(e.value)
    def e_Name(self, e, st):
        if e.id in st.env: return st.env[e.id]
        if e.id in self.names: return self.names[e.id]
        raise Unsupported(('name', e.id))
    def e_JoinedStr(self, e, st):
        parts = []
        for v in e.values:
            if isinstance(v, ast.Constant): parts.append(SV(v.value))
            else:
                x = lift(self.ev(v.value, st))
                if isinstance(x, VOpt) and isinstance(x.val, VStr):
                    self.oblige('safety:formatting None into a name', st, z3.Not(x.none)); x = x.val
                if isinstance(x, VOpaque): return OPAQUE
                if not isinstance(x, VStr): return OPAQUE
                parts.append(x.t)
        return VStr(z3.Concat(*parts) if len(parts) > 1 else parts[0])
    def e_Attribute(self, e, st):
        if isinstance(e.value, ast.Name) and (e.value.id, e.attr) in self.names: return self.names[(e.value.id, e.attr)]
        o = self.ev(e.value, st)
        if isinstance(o, VObj):
            f = st.objf[o.name]
            if e.attr in f: return f[e.attr]
            if e.attr == '__class__': return VOpaque()
            raise Unsupported(('field', o.name, e.attr))
        if isinstance(o, VRef):
            ff = st.ghost['ff']
            if e.attr in ff: return ff[e.attr](o.t)
            raise Unsupported(('ref field', e.attr))
        if isinstance(o, VOpt) and isinstance(o.val, (VObj, VRef)):
            # attribute on an Optional: the AttributeError path becomes a safety obligation (must be excluded by the path condition)
            self.oblige('safety:AttributeError(attribute of None)', st, z3.Not(o.none))
            inner = o.val
            if isinstance(inner, VObj):
                f = st.objf[inner.name]
                if e.attr in f: return f[e.attr]
                raise Unsupported(('field', inner.name, e.attr))
            ff = st.ghost['ff']
            if e.attr in ff: return ff[e.attr](inner.t)
            raise Unsupported(('ref field', e.attr))
        if isinstance(o, VOpt):
            raise Unsupported(('attr on optional', e.attr))
        raise Unsupported(('attr', ast.unparse(e)))
    def e_UnaryOp(self, e, st):
        v = self.ev(e.operand, st)
        if isinstance(e.op, ast.Not): return VBool(z3.Not(self.truthy(st, v)))
        if isinstance(e.op, ast.USub): return VInt(-lift(v).t)
        raise Unsupported(ast.unparse(e))
    def e_BinOp(self, e, st):
        l, r = lift(self.ev(e.left, st)), lift(self.ev(e.right, st))
        if isinstance(l, VOpaque) or isinstance(r, VOpaque): return OPAQUE
        if isinstance(l, VOpt) and isinstance(l.val, VInt):
            self.oblige('safety:TypeError(None in arithmetic)', st, z3.Not(l.none)); l = l.val
        if isinstance(r, VOpt) and isinstance(r.val, VInt):
            self.oblige('safety:TypeError(None in arithmetic)', st, z3.Not(r.none)); r = r.val
        if isinstance(l, VInt) and isinstance(r, VInt):
            if isinstance(e.op, ast.Pow):
                a, b = z3.simplify(l.t), z3.simplify(r.t)
                return VInt(z3.IntVal(a.as_long() ** b.as_long()))
            if isinstance(e.op, ast.Mod): return VInt(l.t % r.t)        # divisor > 0 assumed by contract
            if isinstance(e.op, ast.FloorDiv): return VInt(l.t / r.t)
            return VInt({ast.Add: l.t + r.t, ast.Sub: l.t - r.t, ast.Mult: l.t * r.t}[type(e.op)])
        if isinstance(l, VStr) and isinstance(r, VStr) and isinstance(e.op, ast.Add): return VStr(z3.Concat(l.t, r.t))
        if isinstance(l, VStr) and isinstance(e.op, ast.Mod): return OPAQUE
        if isinstance(l, VSet) and isinstance(r, VSet):
            a, b = st.heap[l.cell]['arr'], st.heap[r.cell]['arr']; q = z3.FreshConst(S, 'e')
            if isinstance(e.op, ast.BitAnd): return st.new_set(z3.Lambda([q], z3.And(a[q], b[q])))
            if isinstance(e.op, ast.Sub): return st.new_set(z3.Lambda([q], z3.And(a[q], z3.Not(b[q]))))
            if isinstance(e.op, ast.BitOr): return st.new_set(z3.Lambda([q], z3.Or(a[q], b[q])))
        raise Unsupported(ast.unparse(e))
    def e_BoolOp(self, e, st):
        # value semantics: `a and b` -> b if truthy(a) else a ; supported when both are same kind or used as bool
        vals = []; ts = []; sti = st.fork()
        sti.heap, sti.objf, sti.env = st.heap, st.objf, st.env      # share effects, private pc (short-circuit guards)
        for sub in e.values:
            if vals and not self.feasible(sti): break       # short-circuit: rest is unreachable
            n_pending = len(self.pending_raise)
            v = lift(self.ev(sub, sti)); t = self.truthy(sti, v); vals.append(v); ts.append(t)
            guard = z3.And(*sti.pc[len(st.pc):]) if len(sti.pc) > len(st.pc) else z3.BoolVal(True)
            self.pending_raise[n_pending:] = [(z3.And(guard, c), x) for c, x in self.pending_raise[n_pending:]]
            sti.pc.append(t if isinstance(e.op, ast.And) else z3.Not(t))
        if True:
            # If all operands share a scalar kind keep value semantics, else boolean
            kinds = {type(v) for v in vals}
            if kinds == {VStr} or kinds == {VInt}:
                K_ = VStr if kinds == {VStr} else VInt
                acc = vals[-1].t
                for v, t in zip(reversed(vals[:-1]), reversed(ts[:-1])):
                    acc = z3.If(t, acc, v.t) if isinstance(e.op, ast.And) else z3.If(t, v.t, acc)
                return K_(acc)
            return VBool(z3.And(*ts) if isinstance(e.op, ast.And) else z3.Or(*ts))
    def e_IfExp(self, e, st):
        c = self.truthy(st, self.ev(e.test, st))
        # only the selected operand is evaluated: exceptions an operand may raise are guarded by the condition
        n0 = len(self.pending_raise); a = lift(self.ev(e.body, st))
        self.pending_raise[n0:] = [(z3.And(c, g), x) for g, x in self.pending_raise[n0:]]
        n1 = len(self.pending_raise); b = lift(self.ev(e.orelse, st))
        self.pending_raise[n1:] = [(z3.And(z3.Not(c), g), x) for g, x in self.pending_raise[n1:]]
        if isinstance(a, VOpaque) or isinstance(b, VOpaque): return OPAQUE
        if type(a) is type(b) and isinstance(a, (VInt, VBool, VStr)): return type(a)(z3.If(c, a.t, b.t))
        if isinstance(b, VNone) and isinstance(a, (VInt, VStr)): return VOpt(z3.Not(c), a)
        if isinstance(a, VNone) and isinstance(b, (VInt, VStr)): return VOpt(c, b)
        raise Unsupported(ast.unparse(e))
    def cmp(self, op, l, r, st):
        l, r = lift(l), lift(r)
        if isinstance(op, (ast.Is, ast.IsNot)):
            if isinstance(r, VNone):
                res = l.none if isinstance(l, VOpt) else z3.BoolVal(isinstance(l, VNone))
            elif isinstance(l, VRef) and isinstance(r, VRef): res = l.t == r.t
            elif isinstance(l, VObj) and isinstance(r, VObj): res = z3.BoolVal(l.name == r.name)
            elif isinstance(l, VBool) and isinstance(r, VBool): res = l.t == r.t
            else: raise Unsupported(('is', l, r))
            return res if isinstance(op, ast.Is) else z3.Not(res)
        if isinstance(op, (ast.In, ast.NotIn)):
            if isinstance(r, VSet): res = st.heap[r.cell]['arr'][self.key(l)]
            elif isinstance(r, VDict): res = st.heap[r.cell]['dom'][self.key(l)]
            elif isinstance(r, VTuple): res = z3.Or(*[self.eq(st, l, x) for x in r.items]) if r.items else z3.BoolVal(False)
            elif isinstance(r, VStr) and isinstance(l, VStr): res = z3.Contains(r.t, l.t)
            elif isinstance(r, VList):
                seq = st.heap[r.cell]['seq']; res = z3.Contains(seq, z3.Unit(self.key(l)))
            else: raise Unsupported(('in', r))
            return res if isinstance(op, ast.In) else z3.Not(res)
        if isinstance(op, ast.Eq): return self.eq(st, l, r)
        if isinstance(op, ast.NotEq): return z3.Not(self.eq(st, l, r))
        for x, nm in ((l, 'left'), (r, 'right')):
            if isinstance(x, VOpt):
                self.oblige('safety:TypeError(None in ordering)', st, z3.Not(x.none))
        lt = l.val.t if isinstance(l, VOpt) else l.t; rt = r.val.t if isinstance(r, VOpt) else r.t
        return {ast.Lt: lt < rt, ast.LtE: lt <= rt, ast.Gt: lt > rt, ast.GtE: lt >= rt}[type(op)]
    def key(self, v):
        v = lift(v)
        if isinstance(v, (VInt, VStr, VBool, VRef)): return v.t
        raise Unsupported(('key', v))
    def e_Compare(self, e, st):
        res = []; l = self.ev(e.left, st)
        for op, c in zip(e.ops, e.comparators):
            r = self.ev(c, st); res.append(self.cmp(op, l, r, st)); l = r
        return VBool(z3.And(*res) if len(res) > 1 else res[0])
    def e_Tuple(self, e, st): return VTuple([lift(self.ev(x, st)) for x in e.elts])
    def e_List(self, e, st):
        if not e.elts: return st.new_list(z3.Empty(z3.SeqSort(S)), S)
        raise Unsupported('list literal')
    def e_Set(self, e, st):
        arr = z3.K(S, False)
        for x in e.elts: arr = z3.Store(arr, self.key(self.ev(x, st)), True)
        return st.new_set(arr)
    def e_SetComp(self, e, st):
        gen = e.generators[0]; it = self.ev(gen.iter, st)
        if not isinstance(it, VSet) or not (isinstance(e.elt, ast.Name) and e.elt.id == gen.target.id): raise Unsupported('setcomp')
        q = z3.FreshConst(S, gen.target.id); st2 = st.fork(); st2.heap, st2.objf = st.heap, st.objf; st2.env = dict(st.env); st2.env[gen.target.id] = VStr(q)
        guard = st.heap[it.cell]['arr'][q]
        for c in gen.ifs: guard = z3.And(guard, self.truthy(st2, self.ev(c, st2)))
        return st.new_set(z3.Lambda([q], guard))
    def e_GeneratorExp(self, e, st):
        return ('genexp', e)
    def e_Subscript(self, e, st):
        o = self.ev(e.value, st)
        if isinstance(o, VOpt):
            self.oblige('safety:TypeError(subscript on None)', st, z3.Not(o.none)); o = o.val
        if isinstance(o, VFunc): return o.fn(self, st, None, [self.ev(e.slice, st)], {})
        if isinstance(o, VDict):
            h = st.heap[o.cell]; k = self.key(self.ev(e.slice, st))
            if h.get('default') is None:
                self.pending_raise.append((z3.Not(h['dom'][k]), VExc(KeyError)))
            return h['wrap'](h['val'][k])
        if isinstance(o, VTuple) and isinstance(e.slice, ast.Constant): return o.items[e.slice.value]
        if isinstance(o, VList):
            h = st.heap[o.cell]; idx = lift(self.ev(e.slice, st))
            if not isinstance(idx, VInt): raise Unsupported('list index')
            n = z3.Length(h['seq']); pos = z3.If(idx.t < 0, n + idx.t, idx.t)
            self.pending_raise.append((z3.Or(pos < 0, pos >= n), VExc(IndexError)))
            t = h['seq'][pos]
            return VRef(t) if h['esort'] == Ref else VStr(t) if h['esort'] == S else VInt(t) if h['esort'] == I else (_ for _ in ()).throw(Unsupported('list element sort'))
        if isinstance(o, VStr) and isinstance(e.slice, ast.Constant) and e.slice.value == 0:
            self.pending_raise.append((z3.Length(o.t) == 0, VExc(IndexError)))
            return VStr(z3.SubString(o.t, 0, 1))
        if isinstance(o, VStr) and not isinstance(e.slice, ast.Slice):
            idx = lift(self.ev(e.slice, st))
            if not isinstance(idx, VInt): raise Unsupported('string index')
            n = z3.Length(o.t); pos = z3.simplify(z3.If(idx.t < 0, n + idx.t, idx.t))
            self.pending_raise.append((z3.Or(pos < 0, pos >= n), VExc(IndexError)))
            return VStr(z3.SubString(o.t, pos, 1))
        if isinstance(o, VStr) and isinstance(e.slice, ast.Slice):
            if e.slice.step is not None: raise Unsupported('string slice with a step')
            n = z3.Length(o.t)
            def bound(x, dflt):
                # Python clamps slice bounds to [0, len]; negative bounds count from the end
                if x is None: return dflt
                v = lift(self.ev(x, st)).t
                if z3.is_int_value(z3.simplify(v)) and z3.simplify(v).as_long() >= 0: return z3.If(v > n, n, v)
                w = z3.If(v < 0, n + v, v)
                return z3.If(w < 0, z3.IntVal(0), z3.If(w > n, n, w))
            lo = bound(e.slice.lower, z3.IntVal(0)); hi = bound(e.slice.upper, n)
            return VStr(z3.SubString(o.t, lo, z3.If(hi - lo < 0, z3.IntVal(0), hi - lo)))
        raise Unsupported(ast.unparse(e))
    def genexp(self, g, st, quant):
        gen = g.generators[0]; it = self.ev(gen.iter, st)
        if isinstance(it, VSet): sort, member = S, (lambda q: st.heap[it.cell]['arr'][q])
        elif isinstance(it, VDict): sort, member = st.heap[it.cell]['ksort'], (lambda q: st.heap[it.cell]['dom'][q])
        else: raise Unsupported(('genexp over', it))
        q = z3.FreshConst(sort, getattr(gen.target, 'id', 'q'))
        st2 = st.fork(); st2.env[gen.target.id] = lift(q) if sort != Ref else VRef(q)
        guard = member(q)
        for c in gen.ifs: guard = z3.And(guard, self.truthy(st2, self.ev(c, st2)))
        body = self.truthy(st2, self.ev(g.elt, st2))
        return VBool(z3.ForAll([q], z3.Implies(guard, body)) if quant == 'all' else z3.Exists([q], z3.And(guard, body)))
    def e_Call(self, e, st):
        f = e.func
        kwargs = {k.arg: self.ev(k.value, st) for k in e.keywords}
        if isinstance(f, ast.Name):
            n = f.id
            if n in ('any', 'all') and isinstance(e.args[0], ast.GeneratorExp): return self.genexp(e.args[0], st, n)
            if n == 'isinstance': return self.callees.get('isinstance', lambda *a: VBool(z3.BoolVal(True)))(self, st, None, [self.ev(e.args[0], st), e.args[1]], {})
            if n in self.callees: return self.callees[n](self, st, None, [self.ev(a, st) for a in e.args], kwargs)
            if n == '_': return OPAQUE
            if n == 'len':
                v = self.ev(e.args[0], st)
                if isinstance(v, VStr): return VInt(z3.Length(v.t))
                if isinstance(v, VList): return VInt(z3.Length(st.heap[v.cell]['seq']))
                if isinstance(v, VTuple): return VInt(z3.IntVal(len(v.items)))
                if isinstance(v, VFunc): return v.fn(self, st, None, ['__len__'], {})
                raise Unsupported('len')
            if n == 'set' and not e.args: return st.new_set()
            if n == 'bool' and len(e.args) == 1: return VBool(self.truthy(st, self.ev(e.args[0], st)))
            if n == 'copy':
                v = self.ev(e.args[0], st)
                if isinstance(v, VObj): return self.copy_obj(st, v)
                if isinstance(v, VTuple): return v
                return st.new_set(st.heap[v.cell]['arr'])
            if n in ('min', 'max') and len(e.args) == 2:
                a, b = lift(self.ev(e.args[0], st)).t, lift(self.ev(e.args[1], st)).t
                return VInt(z3.If(a <= b, a, b) if n == 'min' else z3.If(a >= b, a, b))
            if n[0].isupper():   # exception / class construction
                try: cls = self.resolve_exc(n)
                except Unsupported: cls = None
                if cls is not None and isinstance(cls, type) and issubclass(cls, BaseException):
                    return VExc(cls, args=[self.ev(a, st) for a in e.args])
            raise Unsupported(('call', n))
        if isinstance(f, ast.Attribute):
            if f.attr in ('format',): return OPAQUE
            if isinstance(f.value, ast.Name) and (f.value.id, f.attr) in self.callees:
                return self.callees[(f.value.id, f.attr)](self, st, None, [self.ev(a, st) for a in e.args], kwargs)
            o = self.ev(f.value, st); args = [self.ev(a, st) for a in e.args]
            if isinstance(o, VOpt):
                self.oblige('safety:AttributeError(method on None)', st, z3.Not(o.none)); o = o.val
            if isinstance(o, VSet): return self.set_method(st, o, f.attr, args)
            if isinstance(o, VList):
                h = st.heap[o.cell]
                if f.attr == 'append': h['seq'] = z3.Concat(h['seq'], z3.Unit(self.key(args[0]))); return NONE
                if f.attr == 'clear': h['seq'] = z3.Empty(h['seq'].sort()); return NONE
            if isinstance(o, VDict):
                h = st.heap[o.cell]
                if f.attr == 'get':
                    k = self.key(args[0]); dflt = lift(args[1]) if len(args) > 1 else NONE
                    inner = h['wrap'](h['val'][k])
                    if isinstance(dflt, VNone): return VOpt(z3.Not(h['dom'][k]), inner)
                    if isinstance(inner, VStr) and isinstance(dflt, VStr): return VStr(z3.If(h['dom'][k], inner.t, dflt.t))
                if f.attr == 'clear': h['dom'] = z3.K(h['ksort'], False); return NONE
                if f.attr == 'pop' and len(args) == 1:
                    k = self.key(args[0])
                    if h.get('default') is None: self.pending_raise.append((z3.Not(h['dom'][k]), VExc(KeyError)))
                    old = h['wrap'](h['val'][k]); h['dom'] = z3.Store(h['dom'], k, False); return old
            if isinstance(o, VStr):
                a0 = lift(args[0]) if args else None
                if f.attr == 'startswith':
                    if isinstance(a0, VTuple): return VBool(z3.Or(*[z3.PrefixOf(x.t, o.t) for x in a0.items]))
                    return VBool(z3.PrefixOf(a0.t, o.t))
                if f.attr == 'endswith': return VBool(z3.SuffixOf(a0.t, o.t))
                if f.attr in self.callees: return self.callees[f.attr](self, st, o, args, kwargs)
            if f.attr in self.callees: return self.callees[f.attr](self, st, o, args, kwargs)
        raise Unsupported(ast.unparse(e)[:100])
    def copy_obj(self, st, v):
        """copy.copy of a named object whose __copy__ duplicates its set-valued fields (XsdWildcard.__copy__)"""
        st.ghost['ncopy'] = st.ghost.get('ncopy', 0) + 1
        name = f"{v.name}#copy{st.ghost['ncopy']}"; f = {}
        for k, x in st.objf[v.name].items():
            f[k] = st.new_set(st.heap[x.cell]['arr']) if isinstance(x, VSet) else x
        st.objf[name] = f
        return VObj(name)
    def inline_use(self, name, qual, file=None):
        """Execute calls to `name` from the real AST of `qual` (same file unless given)."""
        tree = self.tree if file is None else ast.parse(open(os.path.join(REPO, file), encoding='utf-8-sig').read())
        node = tree
        for part in qual.split('.'):
            node = find_def(node, part)
            if node is None: raise Unsupported(f'inline target {qual!r} not found')
        self.inlines[name] = node
    def inline_name(self, e):
        if isinstance(e, ast.Call):
            n = e.func.attr if isinstance(e.func, ast.Attribute) else getattr(e.func, 'id', None)
            if n in self.inlines: return n
        return None
    def inline_call(self, e, st):
        fnode = self.inlines[self.inline_name(e)]
        args = [self.ev(a, st) for a in e.args]; kwargs = {k.arg: self.ev(k.value, st) for k in e.keywords}
        params = [a.arg for a in fnode.args.args]; env = {}
        if isinstance(e.func, ast.Attribute) and params and params[0] in ('self', 'cls'):
            env[params[0]] = self.ev(e.func.value, st); params = params[1:]
        defaults = fnode.args.defaults; nd = len(defaults)
        for i, pn in enumerate(params):
            if i < len(args): env[pn] = args[i]
            elif pn in kwargs: env[pn] = kwargs[pn]
            else:
                j = i - (len(params) - nd)
                if j < 0: raise Unsupported(('inline: missing argument', pn))
                env[pn] = self.ev(defaults[j], st)
        saved = st.env; st.env = env; res = []
        depth = st.ghost.get('inline_depth', 0)
        if depth > 6: raise Unsupported('inline depth')
        st.ghost['inline_depth'] = depth + 1
        for kind, val, s2 in self.block(fnode.body, st):
            s2.env = dict(saved); s2.ghost['inline_depth'] = depth
            if kind == 'return': res.append(('ok', val, s2))
            elif kind == 'fall': res.append(('ok', NONE, s2))
            elif kind == 'raise': res.append(('raise', val, s2))
            else: raise Unsupported(('inline outcome', kind))
        return res
    def set_method(self, st, o, name, args):
        h = st.heap[o.cell]; a = h['arr']; q = z3.FreshConst(S, 'e')
        def arr_of(x):
            if isinstance(x, tuple) and len(x) == 2 and x[0] == 'genexp':
                g = x[1]; gen = g.generators[0]; it = self.ev(gen.iter, st)
                q2 = z3.FreshConst(S, gen.target.id); st2 = st.fork(); st2.heap, st2.objf = st.heap, st.objf; st2.env = dict(st.env); st2.env[gen.target.id] = VStr(q2)
                guard = st.heap[it.cell]['arr'][q2]
                for c in gen.ifs: guard = z3.And(guard, self.truthy(st2, self.ev(c, st2)))
                return z3.Lambda([q2], guard)
            x = lift(x)
            if isinstance(x, VSet): return st.heap[x.cell]['arr']
            if isinstance(x, VTuple):
                t = z3.K(S, False)
                for y in x.items: t = z3.Store(t, self.key(y), True)
                return t
            raise Unsupported(('arr_of', x))
        if name == 'add': h['arr'] = z3.Store(a, self.key(args[0]), True); return NONE
        if name == 'discard': h['arr'] = z3.Store(a, self.key(args[0]), False); return NONE
        if name == 'clear': h['arr'] = z3.K(S, False); return NONE
        if name == 'copy': return st.new_set(a)
        b = arr_of(args[0])
        if name == 'update': h['arr'] = z3.Lambda([q], z3.Or(a[q], b[q])); return NONE
        if name == 'intersection_update': h['arr'] = z3.Lambda([q], z3.And(a[q], b[q])); return NONE
        if name == 'difference_update': h['arr'] = z3.Lambda([q], z3.And(a[q], z3.Not(b[q]))); return NONE
        if name == 'issubset': return VBool(z3.ForAll([q], z3.Implies(a[q], b[q])))
        raise Unsupported(('set method', name))

    # ------------------------------------------------------------ statements
    def eval_forking(self, e, st):
        """Evaluate expression; returns list of ('ok', V, st) / ('raise', VExc, st)."""
        self.pending_raise = []
        v = self.ev(e, st)
        outs = []; ok = st
        for cond, exc in self.pending_raise:
            s2 = st.fork(cond, mark='!' + getattr(exc.cls, '__name__', 'exc'))
            if self.feasible(s2): outs.append(('raise', exc, s2))
            ok.pc.append(z3.Not(cond))
        self.pending_raise = []
        outs.append(('ok', v, ok))
        return outs

    def block(self, stmts, st):
        outs = [('fall', None, st)]
        for s in stmts:
            nxt = []
            for kind, val, s0 in outs:
                if kind != 'fall': nxt.append((kind, val, s0)); continue
                nxt.extend(self.stmt(s, s0))
            outs = nxt
        return outs

    def stmt(self, s, st):
        m = getattr(self, 's_' + type(s).__name__, None)
        if m is None: raise Unsupported(('stmt', ast.unparse(s)[:80]))
        return m(s, st)

    def with_value(self, e, st, k):
        outs = []
        for kind, v, s2 in (self.inline_call(e, st) if self.inline_name(e) else self.eval_forking(e, st)):
            if kind == 'raise': outs.append(('raise', v, s2))
            else: outs.extend(k(v, s2))
        return outs

    def s_Expr(self, s, st):
        if isinstance(s.value, ast.Constant): return [('fall', None, st)]
        if isinstance(s.value, ast.Yield):
            return self.with_value(s.value.value, st, lambda v, s2: self.do_yield(v, s2))
        if isinstance(s.value, ast.YieldFrom):
            return self.with_value(s.value.value, st, lambda v, s2: self.do_yield_from(v, s2))
        return self.with_value(s.value, st, lambda v, s2: v if isinstance(v, list) else [('fall', None, s2)])
    def do_yield(self, v, st):
        st.ghost['yielded'] = st.ghost['yielded'] + [lift(v)]; return [('fall', None, st)]
    def do_yield_from(self, v, st):
        st.ghost['yielded'] = st.ghost['yielded'] + [('from', v)]; return [('fall', None, st)]
    def desugar_ifexp(self, s, st, make):
        """`return a if c else b` / `x = a if c else b` as an if statement (path split) when the
        branches are not scalars of one kind."""
        node = ast.If(test=s.value.test, body=[make(s.value.body)], orelse=[make(s.value.orelse)])
        ast.copy_location(node, s); ast.fix_missing_locations(node)
        return self.s_If(node, st)
    def s_Return(self, s, st):
        if s.value is None: return [('return', NONE, st)]
        if isinstance(s.value, ast.IfExp):
            try: return self.with_value(s.value, st.fork(), lambda v, s2: [('return', lift(v), s2)])
            except Unsupported: return self.desugar_ifexp(s, st, lambda v: ast.Return(value=v))
        return self.with_value(s.value, st, lambda v, s2: [('return', lift(v), s2)])
    def s_Raise(self, s, st):
        if s.exc is None: return [('raise', st.env['__exc__'], st)]
        return self.with_value(s.exc, st, lambda v, s2: [('raise', v if isinstance(v, VExc) else VExc(None, obj=v), s2)])
    def s_Pass(self, s, st): return [('fall', None, st)]
    def s_Assert(self, s, st): return [('fall', None, st)]
    def s_AnnAssign(self, s, st):
        if s.value is None: return [('fall', None, st)]
        return self.with_value(s.value, st, lambda v, s2: self.assign(s.target, v, s2))
    def s_Continue(self, s, st): return [('continue', None, st)]
    def s_Break(self, s, st): return [('break', None, st)]
    def s_If(self, s, st):
        def k(v, s2):
            c = z3.simplify(self.truthy(s2, v)); outs = []
            txt = ast.unparse(s.test)
            for cond, body, tag in ((c, s.body, '+'), (z3.Not(c), s.orelse, '-')):
                s3 = s2.fork(cond, mark=tag + txt)
                if self.feasible(s3): outs.extend(self.block(body, s3))
            return outs
        return self.with_value(s.test, st, k)
    def split_unpack(self, s, st):
        call = s.value; recv = lift(self.ev(call.func.value, st)); sep = call.args[0].value
        if isinstance(recv, VOpaque) or not isinstance(recv, VStr): raise Unsupported('split receiver')
        x, c = recv.t, SV(sep); outs = []
        s0 = st.fork(z3.Not(z3.Contains(x, c)))
        if self.feasible(s0): outs.append(('raise', VExc(ValueError), s0))
        a, b = z3.FreshConst(S, 'sp_a'), z3.FreshConst(S, 'sp_b')
        base = [x == z3.Concat(a, c, b), z3.Not(z3.Contains(a, c))]
        s1 = st.fork(z3.And(*base, z3.Contains(b, c)))
        if self.feasible(s1): outs.append(('raise', VExc(ValueError), s1))
        s2 = st.fork(z3.And(*base, z3.Not(z3.Contains(b, c))))
        if self.feasible(s2):
            self.assign(s.targets[0], VTuple([VStr(a), VStr(b)]), s2); outs.append(('fall', None, s2))
        return outs
    def s_Assign(self, s, st):
        if (isinstance(s.value, ast.Call) and isinstance(s.value.func, ast.Attribute) and s.value.func.attr == 'split'
                and len(s.value.args) == 1 and isinstance(s.value.args[0], ast.Constant) and isinstance(s.targets[0], ast.Tuple)
                and len(s.targets[0].elts) == 2):
            return self.split_unpack(s, st)
        if isinstance(s.value, ast.IfExp):
            try: self.ev(s.value, st.fork())
            except Unsupported: return self.desugar_ifexp(s, st, lambda v: ast.Assign(targets=s.targets, value=v))
            finally: self.pending_raise = []
        def k(v, s2):
            outs = [('fall', None, s2)]
            for t in s.targets:
                outs = [o for kind, _, s3 in outs for o in (self.assign(t, v, s3) if kind == 'fall' else [(kind, _, s3)])]
            return outs
        return self.with_value(s.value, st, k)
    def s_AugAssign(self, s, st):
        # `x |= y`, `x &= y`, `x -= y` on a set mutate the object in place (every alias sees the change)
        if isinstance(s.op, (ast.BitOr, ast.BitAnd, ast.Sub)):
            try: cur = self.ev(self.target_as_expr(s.target), st.fork())
            except Unsupported: cur = None
            finally: self.pending_raise = []
            if isinstance(cur, VSet):
                meth = {ast.BitOr: 'update', ast.BitAnd: 'intersection_update', ast.Sub: 'difference_update'}[type(s.op)]
                def k(v, s2):
                    tgt = self.ev(self.target_as_expr(s.target), s2)
                    self.set_method(s2, tgt, meth, [v]); return [('fall', None, s2)]
                return self.with_value(s.value, st, k)
        bin_ = ast.BinOp(left=self.target_as_expr(s.target), op=s.op, right=s.value)
        return self.with_value(bin_, st, lambda v, s2: self.assign(s.target, v, s2))
    def target_as_expr(self, t):
        import copy as _c
        t2 = _c.deepcopy(t)
        for n in ast.walk(t2):
            if hasattr(n, 'ctx'): n.ctx = ast.Load()
        return t2
    def assign(self, t, v, st):
        v = lift(v) if not isinstance(v, list) else v
        if isinstance(t, ast.Name): st.env[t.id] = v
        elif isinstance(t, ast.Attribute):
            o = self.ev(t.value, st)
            if isinstance(o, VObj):
                old = st.objf[o.name].get(t.attr)
                if isinstance(old, VOpt) and isinstance(v, VNone): v = VOpt(z3.BoolVal(True), old.val)
                elif isinstance(old, VOpt) and not isinstance(v, VOpt): v = VOpt(z3.BoolVal(False), v)
                st.objf[o.name][t.attr] = v
            elif isinstance(o, VRef) and ('set', t.attr) in st.ghost['ff']: st.ghost['ff'][('set', t.attr)](st, o.t, v)
            else: raise Unsupported(('assign attr', ast.unparse(t)))
        elif isinstance(t, ast.Subscript):
            o = self.ev(t.value, st)
            if isinstance(o, VDict):
                h = st.heap[o.cell]; k = self.key(self.ev(t.slice, st))
                h['dom'] = z3.Store(h['dom'], k, True); h['val'] = z3.Store(h['val'], k, self.key(v))
            else: raise Unsupported(('assign subscript', ast.unparse(t)))
        elif isinstance(t, ast.Tuple):
            if not isinstance(v, VTuple) or len(v.items) != len(t.elts): raise Unsupported('unpack')
            for tt, vv in zip(t.elts, v.items): self.assign(tt, vv, st)
        else: raise Unsupported(('assign', ast.unparse(t)))
        return [('fall', None, st)]
    def s_Try(self, s, st):
        outs = []
        for kind, val, s2 in self.block(s.body, st):
            if kind == 'raise' and isinstance(val, VExc) and val.cls is not None:
                handled = False
                for h in s.handlers:
                    names = [h.type] if not isinstance(h.type, ast.Tuple) else h.type.elts
                    classes = [self.resolve_exc(ast.unparse(n).split('.')[-1]) for n in names] if h.type else [BaseException]
                    if issubclass(val.cls, tuple(classes)):
                        s3 = s2
                        if h.name: s3.env[h.name] = val
                        s3.env['__exc__'] = val
                        outs.extend(self.block(h.body, s3)); handled = True; break
                if not handled: outs.append((kind, val, s2))
            elif kind == 'fall' and s.orelse: outs.extend(self.block(s.orelse, s2))
            else: outs.append((kind, val, s2))
        if s.finalbody:
            fin = []
            for kind, val, s2 in outs:
                for k2, v2, s3 in self.block(s.finalbody, s2):
                    fin.append((kind, val, s3) if k2 == 'fall' else (k2, v2, s3))
            outs = fin
        return outs
    def s_With(self, s, st):
        """`with expr as name:` -- the context manager protocol is abstracted: the value of expr is bound to the name and the body runs
        (no __exit__ suppression of exceptions is modelled: library context managers here do not swallow)"""
        outs = [('fall', None, st)]
        for item in s.items:
            nxt = []
            for kind, val, s0 in outs:
                if kind != 'fall': nxt.append((kind, val, s0)); continue
                def k(v, s2, item=item):
                    if item.optional_vars is not None: return self.assign(item.optional_vars, v, s2)
                    return [('fall', None, s2)]
                nxt.extend(self.with_value(item.context_expr, s0, k))
            outs = nxt
        res = []
        for kind, val, s0 in outs:
            res.extend(self.block(s.body, s0) if kind == 'fall' else [(kind, val, s0)])
        return res
    def s_For(self, s, st):
        header = f'for {ast.unparse(s.target)} in {ast.unparse(s.iter)}'
        spec = self.invariants.get(header)
        if spec is None: raise Unsupported(('loop without invariant', header))
        return spec(self, s, st)

    # ------------------------------------------------------------ running
    def run(self, st, pre):
        self.pre = pre; self.pending_raise = []
        st.ghost.setdefault('yielded', [])
        return self.block(self.body, st)


def new_state(env=None, ghost=None):
    return State([], dict(env or {}), {}, {}, dict(ghost or {}), itertools.count())


def solve(pre, pc, goal, timeout=20000, strings=False):
    s = z3.Solver(); s.set('timeout', timeout); s.add(pre, *pc, z3.Not(goal))
    t = time.time()
    if strings:
        r = cvc5_check(s)
        if r in ('unsat', 'sat'): return r, round(time.time() - t, 3), None
    r = s.check()
    return str(r), round(time.time() - t, 3), (s.model() if r == z3.sat else None)


def cvc5_check(solver, timeout=30):
    smt = '(set-logic ALL)\n' + solver.to_smt2()
    with tempfile.NamedTemporaryFile('w', suffix='.smt2', delete=False) as f: f.write(smt); name = f.name
    try:
        r = subprocess.run(['/usr/bin/cvc5', '--strings-exp', f'--tlimit={timeout*1000}', name], capture_output=True, text=True)
        return r.stdout.strip().split('\n')[0] if r.stdout.strip() else 'unknown'
    finally:
        os.unlink(name)


def report(name, ex, outs, pre, post, strings=False, verbose=False):
    """post(kind, val, st) -> z3 goal or None (skip)."""
    tot = {}; t0 = time.time(); bad = []
    for kind, val, st in outs:
        g = post(kind, val, st)
        if g is None: continue
        r, dt, m = solve(pre, st.pc, g, strings=strings); tot[r] = tot.get(r, 0) + 1
        if r != 'unsat': bad.append((kind, val, st, m))
    for label, pc, goal in ex.obligations:
        r, dt, m = solve(pre, pc, goal, strings=strings); key = 'safety-' + r; tot[key] = tot.get(key, 0) + 1
        if r != 'unsat': bad.append((label, None, None, m))
    print(f'{name}: paths={len(outs)} {tot} {round(time.time()-t0, 2)}s')
    return bad


def foreach(ex, node, st, sort, member, bind, inv, havoc):
    """Invariant rule for `for x in <collection>` (arbitrary order). member: z3 array sort->Bool (entry state)."""
    empty = z3.K(sort, False)
    ex.oblige('loop-entry:' + ast.unparse(node.target), st, inv(st, empty))
    outs = []
    sb = st.fork(); havoc(sb)
    seen = z3.FreshConst(z3.ArraySort(sort, B), 'seen'); x = z3.FreshConst(sort, 'x'); q = z3.FreshConst(sort, 'q')
    sb.pc += [inv(sb, seen), member[x], z3.Not(seen[x]), z3.ForAll([q], z3.Implies(seen[q], member[q]))]
    bind(sb, x)
    for kind, val, s2 in ex.block(node.body, sb):
        if kind in ('fall', 'continue'):
            ex.oblige('loop-preserve:' + ast.unparse(node.target), s2, inv(s2, z3.Store(seen, x, True)))
        elif kind == 'break': outs.append(('fall', None, s2))
        else: outs.append((kind, val, s2))
    se = st.fork(); havoc(se); se.pc.append(inv(se, member))
    outs.extend(ex.block(node.orelse, se) if node.orelse else [('fall', None, se)])
    return outs


def forany(ex, node, st, bind, inv, havoc):
    """Invariant rule for loops whose invariant does not mention which elements were seen."""
    ex.oblige('loop-entry', st, inv(st)); outs = []
    sb = st.fork(); havoc(sb); sb.pc.append(inv(sb)); bind(sb)
    for kind, val, s2 in ex.block(node.body, sb):
        if kind in ('fall', 'continue'): ex.oblige('loop-preserve', s2, inv(s2))
        elif kind == 'break': outs.append(('fall', None, s2))
        else: outs.append((kind, val, s2))
    se = st.fork(); havoc(se); se.pc.append(inv(se))
    outs.extend(ex.block(node.orelse, se) if node.orelse else [('fall', None, se)])
    return outs
