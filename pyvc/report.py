"""Verdict aggregation, known-findings filter, VIOLATION / KNOWN-FINDING lines, evidence, exit code."""
import glob, importlib, json, os, sys, time, traceback
from . import core

HERE = os.path.dirname(os.path.dirname(os.path.abspath(__file__)))
PROOF_PROPS = {'C12', 'C16'}

GLOBAL_TRUSTED = [
    'pyvc encoding of Python semantics (DESIGN.md 2.3), mitigated by sentinels and the CPython cross-check',
    'z3 5.1 / cvc5 1.0.3',
    'A-FRESH: sets are finite, the universe of strings is infinite',
    'A-ITER: set iteration order arbitrary, dict iteration in insertion order',
    'A-ID: distinct parameters denote distinct objects unless the contract says otherwise',
    'A-CACHE: memoising decorators are transparent',
    'A-MSG: building a message string neither raises nor has effects',
    'A-STR: CPython str/int/re semantics for the listed builtins',
    'integers are mathematical (true for Python int); floating point is not reasoned about',
    'single-threaded execution',
]


def jsonable(x, depth=0):
    if depth > 12: return str(x)
    if isinstance(x, dict): return {str(k): jsonable(v, depth + 1) for k, v in x.items()}
    if isinstance(x, (list, tuple, set, frozenset)): return [jsonable(v, depth + 1) for v in (sorted(x, key=repr) if isinstance(x, (set, frozenset)) else x)]
    if isinstance(x, (str, int, float, bool)) or x is None: return x
    return str(x)


def bounded_module(prop):
    try:
        return importlib.import_module('bounded.' + prop)
    except ModuleNotFoundError as e:
        if e.name == 'bounded.' + prop: return None
        raise


def bounded_replay(mod, prop, check, case):
    if check.endswith('.corpus_arrangements'):
        from bounded import corpus_schemas
        return corpus_schemas.replay(case)
    if '.corpus_' in check:
        from bounded import corpus
        return corpus.replay(prop, case)
    return mod.replay(check, case)


def run_bounded(prop, tier, seed, findings, only=None):
    mod = bounded_module(prop)
    if mod is None: return []
    open_f = {f['id']: f for f in findings if f.get('status') == 'open' and f.get('property') == prop and f.get('kind') == 'B'}
    try:
        out = mod.run(tier, seed, open_f)
        from bounded import corpus
        if prop in corpus.FAMILY: out = list(out) + [corpus.family(prop, tier, seed, open_f)]
        if prop == 'C09':
            from bounded import corpus_schemas
            out = list(out) + [corpus_schemas.family(tier, seed, open_f)]
    except Exception:
        return [dict(name=f'{prop}.bounded', crash=traceback.format_exc()[-2500:], cases=0, failures=[], known={}, scope='', exhaustive=False)]
    if only: out = [b for b in out if only in b['name']]
    return out


def load_ledger():
    p = os.path.join(HERE, 'baseline', 'obligations.json')
    return json.load(open(p)) if os.path.exists(p) else {}


def _replay_path(prop, n):
    d = os.path.join(HERE, 'replay'); os.makedirs(d, exist_ok=True)
    return os.path.join(d, f'{prop}-{n}.json')


def finish(prop, tier, seed, results, bounded, findings, wall, write=True):
    ledger = load_ledger()
    lines = []; violations = []; fault = []; undecided = []
    n_ob = n_dis = 0; by_backend = {}; solver_s = 0.0
    functions = []; samples = []; assumptions = set(); conc_cases = 0
    bounded_this_run = []
    for r in results:
        solver_s += r.get('solver_s', 0)
        for a in r.get('assumes', []): assumptions.add(f"{r['target']}: {a}")
        fn = dict(target=r['target'], where=r.get('where'), src_hash=r.get('src_hash'), paths=r.get('paths'), status=r['status'],
                  obligations=len(r['obligations']), discharged=sum(1 for o in r['obligations'] if o['verdict'] == 'unsat'),
                  wall_s=r.get('wall_s'))
        if r['status'] == 'crash':
            fault.append(f"{r['target']}: worker crash\n{r.get('trace', '')}")
        elif r['status'] == 'undecided':
            fn['reason'] = r.get('reason')
            bounded_this_run.append(r['target'])
        elif r['status'] == 'bounded-only':
            fn['kind'] = 'B (run-time contract on the real function over an enumerated scope; never counted as proved)'
        for o in r['obligations']:
            n_ob += 1
            by_backend[o['backend']] = by_backend.get(o['backend'], 0) + (1 if o['verdict'] == 'unsat' else 0)
            if o['verdict'] == 'unsat':
                n_dis += 1
                if len(samples) < 3: samples.append(dict(kind='P-obligation', id=o['id'], verdict='discharged', backend=o['backend'], ms=o['ms']))
            elif o['verdict'] == 'violation':
                violations.append(dict(kind='P', obligation=o['id'], target=r['target'], where=r.get('where'), inputs=o.get('inputs'),
                                       replay=o.get('replay'), src_hash=r.get('src_hash')))
            elif o['verdict'] in ('refuted-unreplayed', 'encoding-mismatch') and ledger.get(f"{r['target']}.{o['clause']}") == 'discharged':
                # the verifier refutes an obligation that was discharged on the baseline tree, but no input replays:
                # reported as a violation of that named obligation, without a failing input (brief: no-failing-input-found)
                violations.append(dict(kind='P', obligation=o['id'], target=r['target'], where=r.get('where'), inputs=o.get('inputs'),
                                       no_input=True, replay=o.get('replay'), solver=dict(verdict='sat', model=o.get('solver_model'), replay_error=o.get('replay_error'),
                                                                 concretise_error=o.get('concretise_error')), src_hash=r.get('src_hash')))
            elif o['verdict'] == 'disagree':
                fault.append(f"{o['id']}: solvers disagree")
            else:   # unknown / encoding-mismatch
                undecided.append(dict(id=o['id'], verdict=o['verdict'], inputs=o.get('inputs')))
                if r['target'] not in bounded_this_run: bounded_this_run.append(r['target'])
        s = r.get('sentinel')
        if s and s.get('ok') is False:
            fault.append(f"{r['target']}: sentinel not refuted for {[k for k, v in s['per_clause'].items() if not v]} (vacuous contract)")
        fn['sentinel'] = s.get('ok') if s else None
        c = r.get('concrete')
        if c:
            conc_cases += c['cases']
            fn['concrete_cases'] = c['cases']; fn['concrete_known'] = c.get('known')
            if c.get('error'):
                fn['concrete_error'] = c['error']
                if r['status'] != 'ok' or any(o['verdict'] != 'unsat' for o in r['obligations']):
                    undecided.append(dict(id=r['target'] + '.bounded', verdict='fallback-error', error=c['error']))
            for f in c['failing']:
                violations.append(dict(kind='P-concrete', obligation=r['target'] + '.runtime-contract', target=r['target'],
                                       where=r.get('where'), inputs=f.get('inputs'), replay={k: v for k, v in f.items() if k != 'inputs'},
                                       src_hash=r.get('src_hash')))
            if c['samples'] and len(samples) < 6: samples.append(dict(kind='concrete-case', target=r['target'], **c['samples'][0]))
        elif r['status'] in ('undecided', 'bounded-only'):
            undecided.append(dict(id=r['target'], verdict='no-bounded-fallback', reason=r.get('reason')))
        functions.append(fn)
    b_cases = 0; b_distinct = 0; b_summ = []
    for b in bounded:
        if b.get('crash'):
            fault.append(f"{b['name']}: bounded check crashed\n{b['crash']}"); continue
        b_cases += b['cases']; b_distinct += b.get('distinct', b['cases'])
        b_summ.append({k: b[k] for k in ('name', 'scope', 'cases', 'exhaustive', 'known', 'notes', 'reported') if k in b} | {'failures': len(b['failures'])})
        for f in b['failures'][:5]:
            violations.append(dict(kind='B', obligation=b['name'], check=b['name'], case=f.get('case'), replay={k: v for k, v in f.items() if k != 'case'}))
        for smp in b.get('samples', [])[:2]:
            if len(samples) < 10: samples.append(dict(kind='bounded-case', check=b['name'], case=smp))
    # ---- known findings: replay each witness, print it if it still fails
    known_printed = []
    for f in findings:
        if f.get('property') != prop or f.get('status') != 'open': continue
        still = None
        try:
            if f['kind'] == 'P':
                t = core.REGISTRY.get(f['target'])
                if t and t._conc: still = not t._conc(dict(f['witness']))['ok']
            else:
                mod = bounded_module(prop)
                if mod: still = not bounded_replay(mod, prop, f['check'], f['witness'])['ok']
        except Exception as e:
            still = None; f = dict(f, replay_error=str(e)[:200])
        if still or still is None:
            lines.append(f"KNOWN-FINDING: property={prop} {f['id']}: {f['what']}" + ('' if still else ' (witness replay failed to run)'))
            known_printed.append(f['id'])
    # ---- violations
    for i, v in enumerate(violations):
        path = _replay_path(prop, i)
        v = dict(v, property=prop, tier=tier, seed=seed, cmd=f'./check {prop} --replay {os.path.relpath(path, HERE)}')
        json.dump(jsonable(v), open(path, 'w'), indent=1)
        tail = ' no-failing-input-found' if v.get('no_input') else ''
        lines.append(f"VIOLATION property={prop} replay={path} obligation={v['obligation']}{tail}")
    total_ob = n_ob
    if not results and not bounded: fault.append('zero obligations and no bounded check for this property')
    elif results and n_ob == 0 and not any(r.get('concrete') for r in results): fault.append('zero obligations generated')
    level = 'proof' if (prop in PROOF_PROPS and n_ob > 0 and n_dis == n_ob and not bounded_this_run) else 'other'
    hard_undecided = [u for u in undecided if u['verdict'] in ('no-bounded-fallback', 'fallback-error')]
    code = 1 if violations else 3 if fault else 2 if hard_undecided else 0
    ev = dict(property_id=prop, tier=tier, seed=seed, level=level, wall_s=round(wall, 2), violations=len(violations),
              assumptions=sorted(assumptions) + GLOBAL_TRUSTED,
              coverage=dict(
                  explanation=(f'{n_dis} of {n_ob} deductive obligations (P) discharged over {len(functions)} real functions/blocks of /repo '
                               f're-read this run; {conc_cases} concrete run-time contract cases on those same functions and {b_cases} bounded '
                               f'cases in {len(b_summ)} bounded checks (B, never counted as proved). '
                               f'Undecided this run: {len(undecided)}.'),
                  obligations=n_ob, discharged=n_dis, by_backend=by_backend, solver_seconds=round(solver_s, 2),
                  checker_cmd=f'./check {prop} --tier {tier}', trusted_base=GLOBAL_TRUSTED,
                  functions=functions, undecided=undecided[:40], bounded_this_run=bounded_this_run,
                  bounded=b_summ, concrete_cases=conc_cases,
                  evaluations=n_ob + conc_cases + b_cases,
                  distinct_nontrivial=n_dis + b_distinct,
                  rule=('P: one obligation per (feasible path x contract clause) of each function under contract, distinct by '
                        'target+clause+path, non-trivial = path condition satisfiable together with the precondition (dead paths are '
                        'pruned before counting); B: distinct enumerated cases as counted by each bounded check'),
                  samples=samples or [dict(note='no sample')], exhaustive=False,
                  known_findings_printed=known_printed, faults=fault[:10]))
    ev = jsonable(ev)
    if write:
        os.makedirs(os.path.join(HERE, 'evidence'), exist_ok=True)
        try:
            import jsonschema
            jsonschema.validate(ev, json.load(open('/root/.vp/EVIDENCE.schema.json')))
        except FileNotFoundError: pass
        except Exception as e:
            fault.append('evidence does not validate: ' + str(e)[:300]); code = code or 3
        json.dump(ev, open(os.path.join(HERE, 'evidence', prop + '.json'), 'w'), indent=1)
    print(f'[{prop}] tier={tier} P: {n_dis}/{n_ob} discharged over {len(functions)} targets ({solver_s:.1f}s solver); '
          f'concrete {conc_cases}; bounded {b_cases} cases in {len(b_summ)} checks; undecided {len(undecided)}; {wall:.1f}s wall')
    for u in undecided[:15]: print('  undecided:', json.dumps(u, default=str)[:300])
    for fn in functions:
        if fn['status'] not in ('ok', 'bounded-only'): print('  target', fn['target'], fn['status'], fn.get('reason'))
    for f in fault: print('CHECKER-FAULT:', f)
    for l in lines: print(l)
    return code


def replay_file(path):
    v = json.load(open(path if os.path.isabs(path) else os.path.join(HERE, path)))
    if v['kind'] in ('P', 'P-concrete'):
        t = core.REGISTRY[v['target']]
        if v.get('inputs') is None:
            print('no failing input was found for this obligation; solver output:', json.dumps(v.get('solver'))[:2000]); return 1
        r = t._conc(dict(v['inputs']))
    else:
        mod = bounded_module(v['property'])
        r = bounded_replay(mod, v['property'], v['check'], v['case'])
    print(json.dumps(r, indent=1, default=str))
    print('REPLAY', 'still fails' if not r['ok'] else 'passes now')
    return 1 if not r['ok'] else 0
