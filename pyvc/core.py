"""Targets, obligations, verdicts (DESIGN.md section 3).

A *target* is one real function (or anchored statement block) of /repo under a sidecar contract.
It has a symbolic side (builds VCs by executing the real AST), a concrete side (calls the real
function on concrete inputs and evaluates the same clause in Python) and a small scope of concrete
inputs.  The concrete side serves three purposes: replay of solver counterexamples, the bounded
run-time contract check that stands in when a VC is undecided, and the cross-check that keeps the
encoding honest.
"""
import hashlib, itertools, json, os, random, time, traceback
import z3
from . import solve
from .se import Unsupported

REGISTRY = {}          # target id -> Target


class BoundedOnly(Exception): pass


class Target:
    def __init__(self, tid, props, file, qual, anchor=None, anchor_end=None, strings=False, note='',
                 assumes=(), bounded_only=False):
        self.id, self.props, self.file, self.qual = tid, list(props), file, qual
        self.anchor, self.anchor_end, self.strings, self.note = anchor, anchor_end, strings, note
        self.assumes = list(assumes); self.bounded_only = bounded_only
        self._sym = self._conc = self._scope = self._decode = None
        self.regions = {}      # finding id -> (sym fn(run) -> z3 Bool, conc fn(inputs) -> bool)
        assert tid not in REGISTRY, tid
        REGISTRY[tid] = self

    # decorators ------------------------------------------------------------
    def symbolic(self, fn): self._sym = fn; return fn
    def concrete(self, fn): self._conc = fn; return fn
    def scope(self, fn): self._scope = fn; return fn
    def decode(self, fn): self._decode = fn; return fn
    def region(self, fid, conc=None):
        def deco(fn): self.regions[fid] = (fn, conc); return fn
        return deco

    @property
    def where(self):
        return f'{self.file}::{self.qual}' + (f' @ {self.anchor!r}' if self.anchor else '')


class Run:
    """State of one symbolic run of a target: collected VCs and the symbolic inputs."""
    def __init__(self, target, tier, source=None):
        self.target, self.tier, self.source = target, tier, source
        self.vcs = []          # dict(clause, path, pre, pc, goal, sentinel)
        self.inputs = {}       # name -> z3 term | ('set', array term) | ('opt', none, val)
        self.universe = []     # candidate string terms for finite concretisation of sets
        self.src_hash = None
        self.paths = 0
        self.extra_assumes = []

    def exec(self, qual=None, anchor=None, anchor_end=None, file=None):
        from .se import Exec
        t = self.target
        ex = Exec(file or t.file, qual or t.qual, anchor if anchor is not None else t.anchor,
                  source=self.source, anchor_end=anchor_end if anchor_end is not None else t.anchor_end)
        self.src_hash = ex.src_hash
        return ex

    def vc(self, clause, pre, pc, goal, path=''):
        self.vcs.append(dict(clause=clause, path=path, pre=pre, pc=list(pc), goal=goal))

    def post(self, ex, outs, pre, clauses, safety=True):
        """clauses: {name: fn(kind, val, st) -> z3 Bool | None}.  One VC per path x clause, plus
        the safety obligations the executor collected (None-ordering, loop entry/preserve, ...)."""
        self.paths += len(outs)
        for kind, val, st in outs:
            path = '/'.join(st.trail) or '-'
            for name, fn in clauses.items():
                g = fn(kind, val, st)
                if g is None: continue
                self.vc(name, pre, st.pc, g, path + '=>' + kind)
        if safety:
            for i, (label, pc, goal) in enumerate(ex.obligations):
                self.vc(label, pre, pc, goal, f'#{i}')
            ex.obligations = []


def path_id(p):
    return p if len(p) <= 120 else p[:80] + '~' + hashlib.sha1(p.encode()).hexdigest()[:10]


def concretise(run, vc, model_assertions, tier):
    """Second query restricting every set-valued input to a finite candidate universe, then read
    the inputs off the model (DESIGN 2.3a: array interpretations of quantified models cannot be
    trusted for display)."""
    extra = []
    cands = list(run.universe)
    def cands_of(spec):
        cs = spec[2] if len(spec) > 2 else cands
        return [c for c in cs if c.sort() == spec[1].sort().domain()]
    for name, spec in run.inputs.items():
        if isinstance(spec, tuple) and spec[0] == 'set':
            q = z3.FreshConst(spec[1].sort().domain(), 'u'); cs = cands_of(spec)
            if cs:
                extra.append(z3.ForAll([q], z3.Implies(spec[1][q], z3.Or(*[q == c for c in cs]))))
    verdict, backend, secs, m = solve.check(model_assertions + extra, tier, strings=False)
    if verdict != 'sat' or m is None:
        return None
    ev = lambda e: m.eval(e, model_completion=True)
    def py(v):
        v = z3.simplify(v)
        if z3.is_int_value(v): return v.as_long()
        if z3.is_true(v): return True
        if z3.is_false(v): return False
        if z3.is_string_value(v): return v.as_string()
        return str(v)
    out = {}
    for name, spec in run.inputs.items():
        if isinstance(spec, tuple) and spec[0] == 'set':
            vals = set()
            for c in cands_of(spec):
                if z3.is_true(ev(spec[1][c])): vals.add(py(ev(c)))
            out[name] = sorted(vals, key=repr)
        elif isinstance(spec, tuple) and spec[0] == 'map':
            out[name] = {py(ev(c)): py(ev(spec[1](c))) for c in spec[2]}
        elif isinstance(spec, tuple) and spec[0] == 'opt':
            out[name] = None if z3.is_true(ev(spec[1])) else py(ev(spec[2]))
        else:
            out[name] = py(ev(spec))
    return out


def run_target(tid, tier='quick', seed=0, open_findings=(), source=None, do_concrete=True):
    """Runs in a worker process.  Returns a plain-data result record."""
    t = REGISTRY[tid]
    res = dict(target=tid, where=t.where, props=t.props, obligations=[], status='ok', note=t.note,
               assumes=t.assumes, src_hash=None, paths=0, solver_s=0.0, concrete=None, sentinel=None,
               crosscheck=None, wall_s=0.0)
    t0 = time.time()
    run = Run(t, tier, source)
    # ---- symbolic side
    try:
        if t._sym is None:
            if t.bounded_only: raise BoundedOnly()
            raise Unsupported('no symbolic contract')
        t._sym(run)
        res['src_hash'], res['paths'] = run.src_hash, run.paths
        if not run.vcs: raise Unsupported('zero obligations generated')
    except BoundedOnly:
        res['status'] = 'bounded-only'
    except Unsupported as e:
        res['status'] = 'undecided'; res['reason'] = f'Unsupported: {e}'
    except Exception as e:
        res['status'] = 'undecided'; res['reason'] = 'executor: ' + ''.join(traceback.format_exception_only(type(e), e)).strip()
        res['trace'] = traceback.format_exc()[-1500:]
    if res['status'] == 'ok':
        regions = [fn(run) for fid, (fn, _) in t.regions.items() if fid in open_findings]
        notreg = [z3.Not(r) for r in regions]
        by_clause_refuted = {}
        for vc in run.vcs:
            assertions = [vc['pre'], *vc['pc'], *notreg, z3.Not(vc['goal'])]
            try:
                verdict, backend, secs, model = solve.check(assertions, tier, strings=t.strings, both=(tier == 'thorough'))
            except z3.Z3Exception as e:
                verdict, backend, secs, model = 'unknown', 'z3-error:' + str(e)[:80], 0.0, None
            res['solver_s'] += secs
            ob = dict(id=f'{t.id}.{vc["clause"]}@{path_id(vc["path"])}', clause=vc['clause'], verdict=verdict,
                      backend=backend, ms=round(secs * 1000, 1))
            if verdict == 'sat':
                inp = None; block = []
                for attempt in range(4):      # a model that the real code happens to satisfy is blocked and another one is asked for
                    try:
                        inp = concretise(run, vc, assertions + block, tier) if run.inputs else None
                    except Exception as e:
                        ob['concretise_error'] = str(e)[:200]; inp = None
                    if inp is None: break
                    ob['inputs'] = inp
                    if t._conc is None: break
                    try:
                        r = t._conc(dict(inp)); ob['replay'] = r
                    except Exception as e:
                        ob['replay_error'] = ''.join(traceback.format_exception_only(type(e), e)).strip()[:300]; r = None; break
                    if not r['ok']: break
                    diff = blocking_clause(run, inp)
                    if diff is None: break
                    block.append(diff)
                if inp is not None and t._conc is not None and 'replay_error' not in ob:
                    ob['verdict'] = 'violation' if not ob['replay']['ok'] else 'encoding-mismatch'
                else:
                    ob['verdict'] = 'refuted-unreplayed'
                if model is not None and inp is None:
                    ob['solver_model'] = str(model)[:1500]
            res['obligations'].append(ob)
        # ---- sentinel: the negated clause must be refutable on some path of the function
        try:
            bad = {o['clause'] for o in res['obligations'] if o['verdict'] != 'unsat'}
            res['sentinel'] = sentinel(run, t, tier, skip=bad)
        except Exception as e:
            res['sentinel'] = dict(ok=None, error=str(e)[:200])
    # ---- concrete side: bounded run-time contract + cross-check
    if do_concrete and t._conc is not None and t._scope is not None:
        rng = random.Random(seed)
        cases = fails = 0; failing = []; known = {}; samples = []
        try:
            for inp in t._scope(tier, rng):
                cases += 1
                r = t._conc(dict(inp))
                if len(samples) < 2: samples.append(dict(inputs=inp, observed=r.get('observed')))
                if not r['ok']:
                    fid = next((f for f, (_, cf) in t.regions.items() if f in open_findings and cf and cf(inp)), None)
                    if fid: known[fid] = known.get(fid, 0) + 1; continue
                    fails += 1
                    if len(failing) < 2: failing.append(dict(inputs=inp, **r))
            res['concrete'] = dict(cases=cases, failures=fails, failing=failing, known=known, samples=samples)
        except Exception as e:
            res['concrete'] = dict(cases=cases, failures=0, failing=[], known=known, samples=samples,
                                   error=''.join(traceback.format_exception_only(type(e), e)).strip()[:300],
                                   trace=traceback.format_exc()[-1200:])
    res['wall_s'] = round(time.time() - t0, 2)
    return res


def blocking_clause(run, inp):
    """some scalar input differs from the given concrete value"""
    lits = []
    for name, spec in run.inputs.items():
        v = inp.get(name)
        if isinstance(spec, tuple):
            if spec[0] == 'opt':
                lits.append(z3.Not(spec[1]) if v is None else z3.Or(spec[1], spec[2] != (z3.StringVal(v) if isinstance(v, str) else v)))
            continue
        try: lits.append(spec != (z3.StringVal(v) if isinstance(v, str) else v))
        except Exception: pass
    return z3.Or(*lits) if lits else None


def clause_matches(clause, failed):
    return any(clause == f or clause.startswith(f) or f.startswith(clause) for f in failed)


def sentinel(run, t, tier, skip=()):
    """For each non-safety clause family: is there a path on which `goal` itself can be false AND one
    on which it can be true?  We pose the *negated* postcondition as a goal; if every path proved it
    too, the encoding proves anything."""
    clauses = {}
    for vc in run.vcs:
        if vc['clause'].startswith(('safety', 'loop-')) or vc['clause'] in skip: continue
        clauses.setdefault(vc['clause'], []).append(vc)
    out = {}
    for name, vcs in clauses.items():
        refuted = False
        for vc in vcs[:6]:
            # sentinel goal: not goal.  VC: pre /\ pc /\ not(not goal) = pre /\ pc /\ goal must be SAT
            verdict, _, _, _ = solve.check([vc['pre'], *vc['pc'], vc['goal']], 'quick', strings=t.strings)
            if verdict in ('sat', 'unknown'): refuted = True; break
        out[name] = refuted
    return dict(ok=all(out.values()) if out else None, per_clause=out)
