"""./check <property id> [--tier quick|thorough] [--replay FILE] [--only TARGET] [--list]

Exit codes: 0 everything explored held (KNOWN-FINDING lines allowed); 1 at least one VIOLATION line;
2 an obligation could be neither discharged nor bounded-checked; 3 checker fault.
"""
import argparse, glob, importlib, json, multiprocessing as mp, os, pkgutil, sys, time, traceback

HERE = os.path.dirname(os.path.dirname(os.path.abspath(__file__)))
sys.path.insert(0, HERE)
os.environ.setdefault('PYTHONDONTWRITEBYTECODE', '1')
sys.dont_write_bytecode = True

from pyvc import core  # noqa: E402


def load_contracts():
    import contracts
    for m in pkgutil.iter_modules(contracts.__path__):
        importlib.import_module('contracts.' + m.name)


def load_findings():
    p = os.path.join(HERE, 'known_findings.json')
    return json.load(open(p)) if os.path.exists(p) else []


def _worker(args):
    tid, tier, seed, open_f = args
    try:
        return core.run_target(tid, tier, seed, open_f)
    except Exception:
        return dict(target=tid, status='crash', trace=traceback.format_exc()[-2000:], obligations=[], props=[], wall_s=0,
                    solver_s=0, paths=0, concrete=None, sentinel=None, assumes=[], where=tid, note='')


def run_targets(tids, tier, seed, open_f, procs=None):
    procs = procs or min(16, max(1, len(tids)))
    if not tids: return []
    ctx = mp.get_context('fork')
    with ctx.Pool(procs, maxtasksperchild=8) as pool:
        jobs = [(tid, pool.apply_async(_worker, ((tid, tier, seed, open_f),))) for tid in tids]
        out = []
        limit = 900 if tier == 'thorough' else 300
        for tid, j in jobs:
            try: out.append(j.get(timeout=limit))
            except mp.TimeoutError:
                out.append(dict(target=tid, status='undecided', reason=f'target exceeded {limit}s', obligations=[], props=[],
                                wall_s=limit, solver_s=0, paths=0, concrete=None, sentinel=None, assumes=[], where=tid, note=''))
        return out


def main(argv=None):
    ap = argparse.ArgumentParser()
    ap.add_argument('prop')
    ap.add_argument('--tier', default=os.environ.get('VERIF_TIER', 'quick'))
    ap.add_argument('--replay')
    ap.add_argument('--only')
    ap.add_argument('--list', action='store_true')
    ap.add_argument('--no-bounded', action='store_true')
    ap.add_argument('--no-proof', action='store_true')
    ap.add_argument('--no-evidence', action='store_true')
    a = ap.parse_args(argv)
    tier = 'thorough' if a.tier == 'thorough' else 'quick'
    seed = int(os.environ.get('VERIF_SEED', '0') or 0)
    load_contracts()
    from pyvc import report
    if a.replay:
        return report.replay_file(a.replay)
    prop = a.prop
    tids = sorted(t for t, T in core.REGISTRY.items() if prop in T.props and (not a.only or a.only in t))
    if a.list:
        for t in tids: print(t, '|', core.REGISTRY[t].where)
        return 0
    findings = load_findings()
    open_f = tuple(f['id'] for f in findings if f.get('status') == 'open')
    t0 = time.time()
    if not a.no_proof and tids:
        # guard of the verifier itself (DESIGN.md 4): the executor is cross-checked against CPython on a fixed set of snippets before any VC is believed
        import io, contextlib, importlib.util
        spec = importlib.util.spec_from_file_location('selftest_se', os.path.join(os.path.dirname(os.path.dirname(os.path.abspath(__file__))), 'tools', 'selftest_se.py'))
        mod = importlib.util.module_from_spec(spec); spec.loader.exec_module(mod)
        buf = io.StringIO()
        with contextlib.redirect_stdout(buf): rc = mod.main()
        if rc != 0:
            print(buf.getvalue()); print('CHECKER-FAULT: the symbolic executor disagrees with CPython on its self-test: no obligation of this run is believed')
            return 3
    results = [] if a.no_proof else run_targets(tids, tier, seed, open_f)
    bounded = []
    if not a.no_bounded:
        bounded = report.run_bounded(prop, tier, seed, findings, only=a.only)
    return report.finish(prop, tier, seed, results, bounded, findings, time.time() - t0, write=not a.no_evidence and not a.only)


if __name__ == '__main__':
    try:
        sys.exit(main())
    except SystemExit:
        raise
    except Exception:
        traceback.print_exc()
        sys.exit(3)
