"""Back ends: z3 in process, cvc5 through SMT-LIB text (DESIGN.md 2.4).

A VC is `pre /\\ pc /\\ not goal`; `unsat` = discharged, `sat` = refuted (model), anything else
= unknown.  unknown/timeout is never turned into a verdict.
"""
import os, subprocess, tempfile, time
import z3

QUICK_MS = int(os.environ.get('PYVC_VC_MS', '20000'))
THOROUGH_MS = 60000


def budget(tier):
    return THOROUGH_MS if tier == 'thorough' else QUICK_MS


def cvc5_text(smt2, timeout_ms):
    with tempfile.NamedTemporaryFile('w', suffix='.smt2', delete=False, dir=os.environ.get('TMPDIR')) as f:
        f.write('(set-logic ALL)\n' + smt2)
        name = f.name
    try:
        r = subprocess.run(['/usr/bin/cvc5', '--strings-exp', f'--tlimit={timeout_ms}', name],
                           capture_output=True, text=True, timeout=timeout_ms / 1000 + 5)
        out = r.stdout.strip().split('\n')[0] if r.stdout.strip() else 'unknown'
        return out if out in ('sat', 'unsat') else 'unknown'
    except subprocess.TimeoutExpired:
        return 'unknown'
    finally:
        os.unlink(name)


def check(assertions, tier='quick', strings=False, both=False):
    """-> (verdict, backend, seconds, model|None).  `both`: re-check a z3 verdict with cvc5
    (thorough tier); a sat/unsat disagreement is reported as verdict 'disagree'."""
    ms = budget(tier)
    s = z3.Solver(); s.set('timeout', ms); s.add(*assertions)
    t = time.time()
    if strings:
        r = cvc5_text(s.to_smt2(), ms)
        if r == 'unsat':
            return 'unsat', 'cvc5', time.time() - t, None
        # sat from cvc5: fall through to z3 for a model (z3 may still say unknown)
        rz = s.check()
        if str(rz) == 'sat':
            return 'sat', 'z3', time.time() - t, s.model()
        if r == 'sat' and str(rz) == 'unsat':
            return 'disagree', 'cvc5/z3', time.time() - t, None
        if r == 'sat':
            return 'sat', 'cvc5', time.time() - t, None
        return str(rz) if str(rz) == 'unsat' else 'unknown', 'z3', time.time() - t, None
    rz = str(s.check())
    if rz == 'unknown':
        r = cvc5_text(s.to_smt2(), ms)
        if r == 'unsat':
            return 'unsat', 'cvc5', time.time() - t, None
        if r == 'sat':
            return 'sat', 'cvc5', time.time() - t, None
        return 'unknown', 'z3+cvc5', time.time() - t, None
    if both:
        r = cvc5_text(s.to_smt2(), ms)
        if r in ('sat', 'unsat') and r != rz:
            return 'disagree', 'z3/cvc5', time.time() - t, None
        return rz, 'z3+cvc5' if r == rz else 'z3', time.time() - t, (s.model() if rz == 'sat' else None)
    return rz, 'z3', time.time() - t, (s.model() if rz == 'sat' else None)
