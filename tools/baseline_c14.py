#!/usr/bin/env python3
"""Exhaustive run of the C14 model-restriction deciding scope on the unchanged tree -> baseline/C14_instances.json"""
import json, os, sys
HERE = os.path.dirname(os.path.dirname(os.path.abspath(__file__)))
sys.path.insert(0, HERE)
from bounded import C14, cm
from bounded.common import pmap
bases = [m for i, m in enumerate(cm.two_level_models()) if i % 12 == 0]
res = pmap(C14.evaluate, [(m, v) for m in bases for v in ('1.0', '1.1')])
inst = {}
for r in res:
    for w in r['widening']: inst[f"{r['version']}|{r['base']}|{w['derived']}"] = w['word']
# group redefinitions (a.xsd <- b.xsd <- c.xsd): accepted non-restrictions that the type family does not list (there the derived model is refused for another reason, e.g. it is
# ambiguous, while an intermediate level of a chain of redefinitions is not model-checked) - same root cause, own keys
pb = [m for m in bases if m[0] in ('seq', 'cho') and tuple(m[2]) == (1, 1)]
rres = pmap(C14.eval_redefine, [(m, v) for m in pb for v in ('1.0', '1.1')])
nr = 0
for r in rres:
    for w in r['widening']:
        if f"{r['version']}|{r['base']}|{w['derived']}" not in inst: inst[f"redefine:{r['version']}|{r['base']}|{w['derived']}|{w['top']}"] = w['word']; nr += 1
print(nr, 'redefinition-only instances')
# a sequence over some branches of a choice (own family, own keys)
ns = 0
for ver in ('1.0', '1.1'):
    for w in C14.eval_seq_over_choice(ver)[1]: inst[w['key']] = w['word']; ns += 1
print(ns, 'sequence-over-choice instances')
json.dump(inst, open(os.path.join(HERE, 'baseline', 'C14_instances.json'), 'w'), indent=0, sort_keys=True)
print(len(inst), 'instances;', sum(r['accepted'] for r in res), 'accepted restrictions;', {v: sum(1 for k in inst if k.startswith(v)) for v in ('1.0', '1.1')})
