#!/usr/bin/env python3
"""Exhaustive run of the C14 model-restriction deciding scope on the unchanged tree -> baseline/C14_instances.json"""
import json, os, sys
HERE = os.path.dirname(os.path.dirname(os.path.abspath(__file__)))
sys.path.insert(0, HERE)
from bounded import C14, cm
from bounded.common import pmap
bases = [m for i, m in enumerate(cm.two_level_models()) if i % 12 == 0]
res = pmap(C14.evaluate, [(m, v) for m in bases for v in ('1.0', '1.1')])
inst = {}
for r in res:
    for w in r['widening']: inst[f"{r['version']}|{r['base']}|{w['derived']}"] = w['word']
json.dump(inst, open(os.path.join(HERE, 'baseline', 'C14_instances.json'), 'w'), indent=0, sort_keys=True)
print(len(inst), 'instances;', sum(r['accepted'] for r in res), 'accepted restrictions;', {v: sum(1 for k in inst if k.startswith(v)) for v in ('1.0', '1.1')})
