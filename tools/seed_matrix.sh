#!/bin/bash
# usage: tools/seed_matrix.sh [name...]   - applies every stored seeded change to /repo in turn, runs the quick check of its property, reverts,
# and writes seeded/MATRIX.md (which named obligations report it).  /repo must be clean; nothing is committed there.
cd /verif
[ -z "$(git -C /repo status --porcelain)" ] || { echo "/repo is not clean"; exit 2; }
names="${@:-$(ls seeded | grep -v MATRIX | sort)}"
out=seeded/MATRIX.md
[ $# -eq 0 ] && { echo "| seeded | property | quick check | reported by (distinct obligations, first four) |" > $out; echo "|---|---|---|---|" >> $out; }
for n in $names; do
  p=$(echo $n | cut -c1-3)
  git -C /repo apply /verif/seeded/$n/patch.diff || { echo "| $n | $p | patch does not apply | |" >> $out; continue; }
  ./check $p --no-evidence > /tmp/seedm_$n.txt 2>&1; rc=$?
  git -C /repo checkout -- .
  obl=$(grep '^VIOLATION' /tmp/seedm_$n.txt | sed -e 's/.*obligation=//' -e 's/@.*no-failing-input-found/ (no-failing-input-found)/' -e 's/@.*//' | sort | uniq -c | sort -rn | head -4 | awk '{c=$1; $1=""; printf "%s x%s; ", $0, c}')
  echo "| $n | $p | exit $rc, $(grep -c '^VIOLATION' /tmp/seedm_$n.txt) VIOLATION lines | $obl |" | tee -a $out
  rm -f /tmp/seedm_$n.txt
done
