#!/bin/bash
# usage: tools/eval_seed.sh <Cxx> [<name>] [extra property ids to run...]
# Confirms a sub-agent's seeded change (demo fails with it / passes without / suite unchanged), runs the registered checks against it, stores it under seeded/.
pid="$1"; name="${2:-$1}"; shift; shift
wt=/tmp/wt-$name; out=/tmp/seed-out/$name
[ -f $out/patch.diff ] || { echo "no patch for $name"; exit 2; }
echo "== confirm on the agent's worktree ($wt)"
( cd $wt && PYTHONPATH=$wt /venv/bin/python $out/demo.py >/tmp/seed-out/$name/with.txt 2>&1; echo "demo with change: exit $?"; tail -1 /tmp/seed-out/$name/with.txt | cut -c1-200 )
( cd /tmp && /venv/bin/python $out/demo.py >/tmp/seed-out/$name/without.txt 2>&1; echo "demo on /repo (unchanged): exit $?"; tail -1 /tmp/seed-out/$name/without.txt | cut -c1-200 )
( cd $wt && PYTHONPATH=$wt /venv/bin/python -m pytest -q -p no:cacheprovider -n 12 --timeout=900 2>&1 | tail -1 )
echo "== checks against the change applied to /repo"
git -C /repo apply $out/patch.diff || { echo "patch does not apply to /repo"; exit 2; }
res=""
for p in $pid "$@"; do
  /verif/check $p --no-evidence > /tmp/seed-out/$name/check_$p.txt 2>&1; rc=$?
  n=$(grep -c '^VIOLATION' /tmp/seed-out/$name/check_$p.txt)
  echo "check $p: exit $rc, $n VIOLATION lines"; grep '^VIOLATION' /tmp/seed-out/$name/check_$p.txt | head -3 | cut -c1-220
  res="$res $p:exit$rc:$n"
done
git -C /repo checkout -- .
mkdir -p /verif/seeded/$name && cp $out/patch.diff $out/demo.py /verif/seeded/$name/ 
/venv/bin/python - "$name" "$res" <<'PY'
import json, sys
name, res = sys.argv[1], sys.argv[2]
m = json.load(open(f'/tmp/seed-out/{name}/meta.json'))
m['confirmed'] = dict(demo_with_change=open(f'/tmp/seed-out/{name}/with.txt').read().strip().split('\n')[-1][:300],
                      demo_without_change=open(f'/tmp/seed-out/{name}/without.txt').read().strip().split('\n')[-1][:300])
m['checks_run'] = res.split()
json.dump(m, open(f'/verif/seeded/{name}/meta.json', 'w'), indent=1)
PY
echo "stored in /verif/seeded/$name"
