#!/bin/bash
# usage: tools/eval_seed_wt.sh <Cxx> <name> [extra property ids...]
# Like eval_seed.sh, but runs the checks against the sub-agent's own worktree (VERIF_REPO / PYTHONPATH), leaving /repo untouched - usable while other checks run on /repo.
pid="$1"; name="${2:-$1}"; shift; shift
wt=/tmp/wt-$name; out=/tmp/seed-out/$name
[ -f $out/patch.diff ] || { echo "no patch for $name"; exit 2; }
( cd $wt && git diff --quiet && git apply $out/patch.diff )
( cd $wt && PYTHONPATH=$wt /venv/bin/python $out/demo.py >$out/with.txt 2>&1; echo "demo with change: exit $?"; tail -1 $out/with.txt | cut -c1-200 )
( cd /tmp && /venv/bin/python $out/demo.py >$out/without.txt 2>&1; echo "demo on /repo (unchanged): exit $?"; tail -1 $out/without.txt | cut -c1-200 )
( cd $wt && PYTHONPATH=$wt /venv/bin/python -m pytest -q -p no:cacheprovider -n 12 --timeout=900 2>&1 | tail -1 )
res=""
for p in $pid "$@"; do
  VERIF_REPO=$wt PYTHONPATH=$wt /verif/check $p --no-evidence > $out/check_$p.txt 2>&1; rc=$?
  n=$(grep -c '^VIOLATION' $out/check_$p.txt)
  echo "check $p: exit $rc, $n VIOLATION lines"; grep '^VIOLATION' $out/check_$p.txt | head -3 | cut -c1-220
  res="$res $p:exit$rc:$n"
done
mkdir -p /verif/seeded/$name && cp $out/patch.diff $out/demo.py /verif/seeded/$name/
/venv/bin/python - "$name" "$res" <<'PY'
import json, sys
name, res = sys.argv[1], sys.argv[2]
m = json.load(open(f'/tmp/seed-out/{name}/meta.json'))
m['confirmed'] = dict(demo_with_change=open(f'/tmp/seed-out/{name}/with.txt').read().strip().split('\n')[-1][:300],
                      demo_without_change=open(f'/tmp/seed-out/{name}/without.txt').read().strip().split('\n')[-1][:300])
m['checks_run'] = res.split()
json.dump(m, open(f'/verif/seeded/{name}/meta.json', 'w'), indent=1)
PY
echo "stored in /verif/seeded/$name"
