#!/usr/bin/env python3
"""Exhaustive enumeration of the C01/C15 deciding scopes on the unchanged tree; writes baseline/C01_instances.json and
baseline/C15_instances.json (committed; never written by ./check)."""
import json, os, sys, time
HERE = os.path.dirname(os.path.dirname(os.path.abspath(__file__)))
sys.path.insert(0, HERE)
from bounded import cm, C01
from bounded.common import pmap
t0 = time.time()
c01 = {'1.0': {}, '1.1': {}}; c15 = {'1.0': {}, '1.1': {}}; stats = {}
for label, models, ws in (('two_level', list(cm.two_level_models()), 2), ('two_level_rev', list(cm.two_level_models_rev()), 2), ('variants', list(cm.variant_models()), 3)):
    jobs = [(m, ver, ws) for m in models for ver in ('1.0', '1.1')]
    res = pmap(C01.evaluate, jobs)
    m_by_name = {cm.show(m): m for m in models}
    for name, ver, built, det, mism, badloc in res:
        k = (label, ver); s = stats.setdefault(k, dict(models=0, det=0, built=0, c01_bad=0, c15_missed=0, c15_false=0, other=0)); s['models'] += 1
        s['det'] += bool(det); s['built'] += built is True
        if mism or badloc: c01[ver][name] = dict(mismatches=[[w, g] for w, g in mism], badloc=badloc); s['c01_bad'] += 1
        det = cm.upa_ok(C01._tuplify(m_by_name[name]), ver)
        if built is True and not det: c15[ver][name] = 'accepted-but-ambiguous'; s['c15_missed'] += 1
        elif built is False and det: c15[ver][name] = 'rejected-but-deterministic'; s['c15_false'] += 1
        elif built not in (True, False): c15[ver][name] = str(built); s['other'] += 1
os.makedirs(os.path.join(HERE, 'baseline'), exist_ok=True)
json.dump(c01, open(os.path.join(HERE, 'baseline', 'C01_instances.json'), 'w'), indent=0, sort_keys=True)
json.dump(c15, open(os.path.join(HERE, 'baseline', 'C15_instances.json'), 'w'), indent=0, sort_keys=True)
for k, v in stats.items(): print(k, v)
print(round(time.time() - t0, 1), 's')
