# Claimed properties (exec'd by gen_manifest.py).  claim(id, category, text, note, design_ref)
NA['C18'] = ('quantifies over thread schedules: sequential function contracts cannot express interleavings of the unprotected shared '
             'state (xsi_types, scratch context, selector widening); a lock-discipline lemma is provable but does not imply the property '
             '(DESIGN.md section 5, C18)')

claim('C01', 'other',
      'Proved kernel + bounded: every ParticleMixin occurrence predicate and the OccursCalculator arithmetic are proved equal to the '
      'XSD occurrence spec for all integers (deductive, unbounded), and XsdGroup.is_missing (missing iff below the minimum and not completable by empty iterations); the content-model interpreter itself (ModelVisitor/XsdGroup.raw_decode) '
      'is out of reach of the VC generator and is covered only by a bounded run-time contract (is_valid(doc(w)) <=> w in L(m)) over two exhaustively enumerated, baselined '
      'scopes of models (nested group first / sibling first, 141 344 models) and all words up to length 5, plus families for wildcard and all-group leaves, references to substitution-group '
      'heads (multi-level, abstract members), group references with their own occurrence, and - for XSD 1.1 - element particles competing with wildcards (judged where the two readings of the '
      'priority rule agree), xs:all groups with repeating particles and open content (interleave / suffix / default, each with its own counting or splitting oracle); all labelled bounded.',
      'Trusted: pyvc encoding, z3/cvc5, spec functions as a reading of XSD Structures 3.8/3.9; the bounded part proves nothing beyond its scope.',
      'DESIGN.md 5/C01')

claim('C16', 'proof',
      'Every operation of the wildcard algebra in validators/wildcards.py (is_namespace_allowed, is_matching, deny_qnames, is_restriction, '
      'union and intersection for XSD 1.0 and 1.1, XsdAnyElement.is_overlap) is proved against the set reading denote(w) for all '
      'well-formed constraints - arbitrary finite sets of namespaces and names, same and different target namespaces - by VCs generated '
      'from the real function bodies; the sentences of the property (admits <=> in the set; extension = union; attribute groups = '
      'intersection; restriction only if included; overlap <=> sets intersect) are exactly the discharged postconditions. A bounded '
      'cross-check runs the same clauses on the real objects and through real schemas.',
      'Trusted: pyvc encoding (sets as arrays String->Bool, A-FRESH), z3/cvc5, get_namespace as an uninterpreted function, XsdWildcard.__copy__ '
      'duplicating the three sets (a run-time contract on the real copy, not a proof), well-formedness of parsed constraints (checked for _parse by the bounded part), XSI namespace outside the universe.',
      'DESIGN.md 5/C16')

claim('C15', 'other',
      'Proved leaves + bounded: XsdAnyElement.is_overlap is proved to answer exactly "the two denoted sets intersect" (shared with C16); the pairwise body of '
      'check_model is under a statement contract (an inconsistent pair always ends in a model error whatever the UPA shortcuts; an XSD 1.1 wildcard/element '
      'pair is never an error; separable consistent pairs pass silently). The UPA decision itself (distinguishable_paths) has no per-function specification other '
      'than the property and is covered by a bounded run-time contract on the real builder: XMLSchema10/11 raises XMLSchemaModelError <=> an independent Glushkov '
      'position-automaton decides the model violates UPA, over exhaustively enumerated scopes of 143 416 models per class (quick: a quarter), plus an EDC family '
      '(x:T1, y, x:T2 in three nestings, every type pair), a family of references to substitution-group heads and members, and the independence of the verdict from the place where the type holding the model is declared (six places). Disagreements of the unchanged tree are listed one by one in baseline/C15_instances.json; any other disagreement is a violation.',
      'Trusted: the independent UPA oracle (bounded/cm.py); the element relations are uninterpreted in the pair-body contract. The UPA part is bounded, not proved.',
      'DESIGN.md 5/C15')

claim('C14', 'other',
      'Proved kernels + bounded: has_occurs_restriction (True => every admitted count is admitted by the base), OccursCalculator arithmetic, '
      'XsdWildcard.is_restriction (True => denoted set included, processContents not weakened; same and different target namespaces) and '
      'XsdGroup.has_occurs_restriction against an element / wildcard particle (True => group occurrence x sum - or min/max for a choice - of the particle '
      'occurrences lies inside the other range, for any number of particles) are proved '
      'for all inputs. The group restriction checkers proper are out of reach and covered by a bounded contract on the real builder: accepted '
      'restriction => L(derived) subset of L(base) on all words <= 5, for 5 955 bases x <= 40 systematic candidates x 2 classes; facet pairs '
      'and attribute-use pairs exhaustively over boundary catalogues; open content of a restriction against default / base open content (XSD 1.1).',
      'Trusted: the independent language matcher; words up to length 5. XSD 1.1 widening restrictions of the unchanged tree are listed in baseline/C14_instances.json.',
      'DESIGN.md 5/C14')

claim('C02', 'other',
      'Proved kernel + bounded: the 12 integer range validators are proved to accept exactly the XSD value ranges (all integers), the boolean '
      'codec to decode exactly {true,false,1,0} and to round-trip; the bound, length and digit facet validators (raise exactly outside the facet set), '
      'XsdAtomicRestriction.raw_decode (validators applied once; patterns applied here, or - for a union - added to the patterns the restriction steps above have pushed, all of which the union applies) and raw_encode (the patterns are checked once on the text that is written, whatever the value), first-match union / item-wise list decoding as listed in '
      'the evidence. The built-in lexical spaces, whitespace normalisation, count_digits and derived restriction/list/union types are covered by '
      'bounded run-time contracts through the real schema API against reference functions written from XSD Part 2 (boundary catalogue exhaustive, '
      'seeded mutations), including decode value and decode(encode(decode(t))) = decode(t), and the typed decoding options (decimal_type / datetime_types / binary_types, every combination, with the typed round trip); encoding typed values of derived types fails or returns a text of the type.',
      'Trusted: reference lexical functions (bounded/C02.py), elementpath datatypes as a dependency (two of its defects are listed findings), '
      'years beyond 9 digits and BCE leap days outside the deciding scope.',
      'DESIGN.md 5/C02')

claim('C03', 'other',
      'Proved kernel + bounded: XsdAttributeGroup.iter_required and iter_value_constraints (both use_defaults values) are proved by loop '
      'invariant to yield exactly the required names and exactly the fixed (and, when enabled, default) values; the wildcard leaf '
      'is_namespace_allowed / is_matching is proved under C16. The per-attribute decision loop of XsdAttributeGroup.raw_decode is covered by a '
      'bounded run-time contract through the real API: is_valid <=> attrs_valid and decoded absent attributes = fixed (+ defaults iff enabled), '
      'over 13 034 configurations x name subsets x values (quick: one sixteenth, ~870 000 cases), and a run-time contract on the real method with a spy on the attribute decoders '
      '(the decision for ONE present attribute is also a statement contract discharged by the solver: declaration / XSI global / wildcard / rejected); (processed attributes = instance attributes + absent value-constrained ones, in validation-only and decoding contexts; decoded result under fill_missing / filler); '
      'wildcards of shared attribute groups intersected by several consumers (a copy never aliases the shared wildcard: run-time contract on XsdWildcard.__copy__).',
      'Trusted: the set-based reference attrs_valid; the corner "prohibited declaration that the wildcard admits" is outside the deciding scope (reported).',
      'DESIGN.md 5/C03')

claim('C04', 'other',
      'Proved kernel + bounded: ValidationContext.raise_or_collect (strict raises the very error, lax appends, skip neither; never raises in lax), '
      'get_resource_schema (a given schema instance that knows the root namespace is the schema that is used), '
      'is_valid/validate of components and of schemas over the ghost sequence of iter_errors (verdict = that of the first error, all arguments '
      'forwarded), and the CLI exit status (loop invariant; exit status 0 iff all files valid, for every error count) are proved. Agreement of '
      'all entry points, modes and 10 source kinds, package-level functions included, is a bounded run-time contract on generated faulty documents, '
      'lxml trees and documents with comments, inheritable attributes (XSD 1.1 context copies), a strict wildcard; verdict agreement on eight small schemas run on one schema object in sequence (mixed content with a fixed value, '
      'list enumerations and fixed lists, an IDREF default, a blocked xsi:type); plus the CLI as a subprocess for 0, 1, 255, 256, 512 errors.',
      'Trusted: POSIX 8-bit exit status; the non-interference of the validation mode before the first error is a 2-safety property outside this family and only bounded-checked.',
      'DESIGN.md 5/C04')
claim('C05', 'other',
      'Bounded-dominated: the proved part is the boolean codec round trip (python_to_boolean / boolean_to_python) shared with C02; decode/encode '
      'round trip for 5 lossless converters and strict-encode soundness on mutated data (drop, duplicate, retype, reorder, rename, truncate; JsonML text insertions; a fixed attribute) are '
      'bounded run-time contracts over generated documents (nested declaration scopes included); the stacked set_xmlns_context is under a run-time contract (exhaustive two-level declaration maps).',
      'Thin proved kernel (stated as such). Encoding performs no identity-constraint checks; namespace declarations on a child of the root are taken as root declarations: listed findings.', 'DESIGN.md 5/C05')
claim('C06', 'other',
      'Proved kernel + bounded: loop-body equivalence of the eager and the lazy loader - for every event kind and every pre-state both loop bodies leave equal '
      'namespace stack, pending declarations and per-node maps (container operations uninterpreted), hence both attach the same in-scope namespaces to every node; '
      'the limit counter contract of _lazy_iterparse shared with C11; a statement contract on one parser event of XMLResource.iterfind over a lazy resource (yield exactly at the path depth, release the chunk at the lazy depth for every path depth, test deeper elements against rebuilt XPath nodes). The equality lazy = eager of errors (in order), data and iteration multiset, thin and non-thin, '
      'is a bounded run-time contract over generated documents (two schema templates, nested and redundant namespace declarations, childless roots, documents beyond the parser block, path-based selection / validation / decoding, paths deeper than the lazy depth, interleaved child names). Depth 2 reported only.',
      'The order in which a lazy resource yields the descendants of a chunk is pinned by the test-suite and differs from document order: compared as multisets.', 'DESIGN.md 5/C06')
claim('C07', 'other',
      'Proved kernel + bounded: statement contracts on the xsi:nil block and the xsi:type block of XsdElement.raw_decode (nilled <=> nillable and true and no '
      'fixed and empty; error <=> lookup fails or the named type is blocked) and XsdType.is_blocked are proved for all inputs; derivation, abstract, block '
      'defaults, substitution groups are covered by a bounded contract against a reference decision procedure over flag products (mixed two-step derivation chains included); '
      'XsdComplexType.is_derived is under contract for the complex-content chain (a step of the other method never ends the search); XsdElement.get_attributes is under contract (a simple governing type gets the attribute group of the declaration only when it IS the declared type); XSD 1.1 type alternatives on inherited attributes and the attribute sets admitted under every xsi:type are bounded families.',
      'is_derived and get_instance_type are uninterpreted in the proofs and exercised only by the bounded part; XPath tests of type alternatives are elementpath.', 'DESIGN.md 5/C07')
claim('C08', 'other',
      'Proved kernel + bounded: IdentityCounter.increase (exactly one duplicate error per repeated tuple), KeyrefCounter.increase, reset and '
      'KeyrefCounter.iter_errors (loop invariant: an error exactly for complete dangling tuples) and the ID/IDREF block of XsdAtomicBuiltin.raw_decode (duplicate '
      'exactly when registered as an ID before) are proved; selection of nodes and fields is XPath (elementpath) and is covered by a bounded contract against '
      'key_table_ok over exhaustive small tables with lexical variants (seven field types, three of them unions), a keyref referring to a key declared on a repeated '
      'descendant (0-2 instances), a keyref on a repeated element with the key on its optional child (every instance against its own table), QName-typed fields under prefix rebinding, and ID/IDREF documents. '
      'XMLSchemaBase._validate_references (one error per unresolved IDREF, exactly the enabled keyrefs checked and forwarded) is proved by loop invariants.',
      'xs:unique over incomplete tuples is outside the deciding scope; the table propagation across repeated descendants is a listed finding; elements that exist only through xsi:type are invisible to selectors (observation in DESIGN.md).', 'DESIGN.md 5/C08')
claim('C09', 'other',
      'Thin proved kernel + bounded: StagedMap (__getitem__ builds on demand and returns the built component, load refuses a second declaration of a name and '
      'commutes for distinct names, _build_global) and XsdGlobals.clear (every derived map is emptied on every path: a rebuild starts from nothing) are under contract; '
      'permutations, include splits, location spellings, rebuild, copy of the maps, pickle, import order are a bounded contract - each arrangement gives the same '
      'global components, errors and data on nine probes (a keyref referring to a key declared on another element, XSD 1.1 defaultAttributes, attribute groups with wildcards shared by several consumers); a sub-process builds a schema with vc: conditional inclusion twice as the first two schemas of a fresh interpreter.',
      'Thin: one hand-written family of 14 forward-referencing globals, not the corpus.', 'DESIGN.md 5/C09')
claim('C10', 'other',
      'Proved kernel + bounded: ValidationContext.clear resets every status slot (slot list read from the real class) and IdentityCounter.reset are proved; a frame '
      'obligation over the 113 validation-path methods (writes to self within the stated frame; writes through component-holding locals only on objects created in '
      'the same statement list) is decided syntactically on the real AST; absence of residue between calls is a bounded contract over seeded call histories compared with a fresh schema (xsi:type on fixed / referenced / blocked declarations, unions, on-demand namespace loads), and over every ordered pair of documents of two small families (xsi:type met under two identity scopes; a local declaration beside a wildcard that resolves to a same-named global).',
      'A-CACHE (memo caches are transparent) is assumed by the encoding. A namespace loaded on demand in the middle of a run rebuilds the components in use: listed finding.', 'DESIGN.md 5/C10')
claim('C11', 'other',
      'Proved kernel + bounded: the depth / element counters of both loaders (XMLResourceExceeded raised exactly when a limit is exceeded; a document at '
      'the limit is processed), LimitsModule.__setattr__, raise_or_collect never raising in lax mode are proved; "verdict or library error" on '
      'mutated / truncated documents, extreme lexical values in identity fields and facets, blocked substitutions in lax / skip mode and the limit sweep are bounded; the handler that '
      'collects the errors of the dynamic-context helper is a syntactic obligation; XMLResourceManager.__exit__ never swallows an exception (proved); the limit sweep runs over six source kinds (open files included).',
      'RecursionError for deep nesting and an elementpath assertion on odd namespace names in lazy mode are listed findings.', 'DESIGN.md 5/C11')
claim('C12', 'proof',
      'XMLResource.access_control is proved for all strings: returning normally implies allowed(mode, url, base) with segment-wise containment for '
      'sandbox; only XMLResourceBlocked is raised; is_local_scheme and the local/remote classification are proved exact (exactly one class per URL-like string). '
      'Canonicalisation of spellings (normalize_url, urlsplit, pathlib) is assumed in the proof and exercised by an exhaustive bounded catalogue with an '
      'audit hook: 5 modes x include/import/redefine/instance hint x 14 spellings, sandbox without an explicit base_url (for the main schema, for the package-level functions that build the schema from an instance hint, for namespaces loaded on demand from the locations argument), dotted absolute file URLs, parse() on resource / document objects, schemas built through from_settings() with a per-call mode, location hints on inner elements of documents without a base URL and hints that name a namespace of the meta-schema (evaluated in a worker process: the class-level meta-schema must not change). the first block of XMLResource.__init__ is proved to leave a sandboxed resource with a base URL or to refuse it, whatever the source kind; XMLResource.get_url is proved to return normalize_url of the mapped location. Propagation obligations '
      '(the base URL of the referring schema reaches every load; get_arguments returns every Argument of the class hierarchy) are decided on the real AST / real objects.',
      'Proved: the decision kernel. Assumed: normalize_url canonicalises, no symlinks, every fetch goes through access_control (dominance is checked by the bounded catalogue, not proved).',
      'DESIGN.md 5/C12')
claim('C13', 'other',
      'Proved kernel + bounded: the defuse truth table of XMLResource.is_defused and the URL classes it uses are proved; refusal before expansion for 11 '
      'payloads x 4 modes x 21 source kinds (UTF-8, BOM, UTF-16) and for main / included schemas is a bounded contract with an audit hook on the secret file; the reset contract requires '
      'parameter-entity parsing ALWAYS (external subset of standalone documents), and no return of open() precedes the defuse decision (syntactic); the document-level API forwards the resource options to the schema it builds (propagation obligations on get_context).',
      'expat calls the declaration handlers before any expansion (assumed). Large prolog on a non-seekable stream: listed finding.', 'DESIGN.md 5/C13')
claim('C17', 'other',
      'Proved kernel + bounded: under the representation invariant R-INV, unmap_qname(map_qname(Q(u,l))) = Q(u,l) for all strings, map_qname and '
      'unmap_qname against their case specifications (cvc5/z3 strings); R-INV preservation by __setitem__/__delitem__ and by stacked '
      'set_xmlns_context, and "every decoded key resolves to the expanded name of its node" are bounded run-time contracts.',
      'set_xmlns_context is not within reach of the VC generator (loops over contexts): bounded stand-in (exhaustive over two-level declaration maps of 3 prefixes x 3 URIs). Encoding an xmlns="" undeclaration is a listed finding.', 'DESIGN.md 5/C17')
claim('C19', 'other',
      'Proved kernel + bounded: the positional step of etree_getpath (loop invariant with a counting function: position and sibling count are exact, a predicate '
      'is emitted iff there are same-tag siblings), error.elem defaulting in raise_or_collect and the consumption of pushed pattern facets on every exit of '
      'XsdUnion.raw_decode (no stale facet reaches a later node) and the fixed-value block of XsdElement.raw_decode (an error iff the text differs from the fixed value in the value space) are proved; "a single fault is reported at the node or its '
      'parent, every path selects exactly error.elem" is a bounded contract over every node x 7 fault kinds.',
      'XPath evaluation of the path (elementpath) assumed.', 'DESIGN.md 5/C19')
claim('C20', 'other',
      'Thin proved kernel + bounded: schema.find(path(e)) is the declaration that governed e (observed through the public validation_hook); iter_errors(path=p) equals the '
      'whole-document errors restricted to the selected subtree(s), positional and non-positional paths with a unique constraint on a repeated intermediate element, '
      'prefixed and default-namespace forms, a no-namespace schema written with the XSD namespace as default; errors above a max_depth cut are unchanged. '
      'Decided on the code itself: XMLSchemaBase.get_element against the uninterpreted find() / global map (the declaration at the path when it is an element named tag, a local one before a '
      'global one of the same name; proved with cvc5/z3 strings) and, syntactically, that the list the resource iterator updates in place is never aliased in the path loop of iter_errors.',
      'The property is about XPath selection on the schema (elementpath): no per-function contract in /repo decides it.', 'DESIGN.md 5/C20')
