# Claimed properties (exec'd by gen_manifest.py).  claim(id, category, text, note, design_ref)
NA['C18'] = ('quantifies over thread schedules: sequential function contracts cannot express interleavings of the unprotected shared '
             'state (xsi_types, scratch context, selector widening); a lock-discipline lemma is provable but does not imply the property '
             '(DESIGN.md section 5, C18)')

claim('C01', 'other',
      'Proved kernel + bounded: every ParticleMixin occurrence predicate and the OccursCalculator arithmetic are proved equal to the '
      'XSD occurrence spec for all integers (deductive, unbounded); the content-model interpreter itself (ModelVisitor/XsdGroup.raw_decode) '
      'is out of reach of the VC generator and is covered only by a bounded run-time contract (is_valid(doc(w)) <=> w in L(m)) over an exhaustively enumerated, baselined '
      'enumerated scope of models and words, labelled bounded.',
      'Trusted: pyvc encoding, z3/cvc5, spec functions as a reading of XSD Structures 3.8/3.9; the bounded part proves nothing beyond its scope.',
      'DESIGN.md 5/C01')

claim('C16', 'proof',
      'Every operation of the wildcard algebra in validators/wildcards.py (is_namespace_allowed, is_matching, deny_qnames, is_restriction, '
      'union and intersection for XSD 1.0 and 1.1, XsdAnyElement.is_overlap) is proved against the set reading denote(w) for all '
      'well-formed constraints - arbitrary finite sets of namespaces and names, same and different target namespaces - by VCs generated '
      'from the real function bodies; the sentences of the property (admits <=> in the set; extension = union; attribute groups = '
      'intersection; restriction only if included; overlap <=> sets intersect) are exactly the discharged postconditions. A bounded '
      'cross-check runs the same clauses on the real objects and through real schemas.',
      'Trusted: pyvc encoding (sets as arrays String->Bool, A-FRESH), z3/cvc5, get_namespace as an uninterpreted function, XsdWildcard.__copy__ '
      'duplicating the three sets, well-formedness of parsed constraints (checked for _parse by the bounded part), XSI namespace outside the universe.',
      'DESIGN.md 5/C16')

claim('C15', 'other',
      'Proved leaves + bounded: XsdAnyElement.is_overlap is proved to answer exactly "the two denoted sets intersect" (shared with C16); the decision '
      'itself (check_model / distinguishable_paths) has no per-function specification other than the property and is covered by a bounded '
      'run-time contract on the real builder: XMLSchema10/11 raises XMLSchemaModelError <=> an independent Glushkov position-automaton decides '
      'the model violates UPA, over an exhaustively enumerated scope of 73 528 models per class (quick: a quarter of it). Disagreements of the '
      'unchanged tree are listed one by one in baseline/C15_instances.json; any other disagreement is a violation.',
      'Trusted: the independent UPA oracle (bounded/cm.py), untyped leaves (EDC trivially true in scope). Bounded, not proved.',
      'DESIGN.md 5/C15')

claim('C14', 'other',
      'Proved kernels + bounded: has_occurs_restriction (True => every admitted count is admitted by the base), OccursCalculator arithmetic, '
      'XsdWildcard.is_restriction (True => denoted set included, processContents not weakened; same and different target namespaces) are proved '
      'for all inputs. The group restriction checkers are out of reach and covered by a bounded contract on the real builder: accepted '
      'restriction => L(derived) subset of L(base) on all words <= 5, for 5 955 bases x <= 40 systematic candidates x 2 classes; facet pairs '
      'and attribute-use pairs exhaustively over boundary catalogues.',
      'Trusted: the independent language matcher; words up to length 5. XSD 1.1 widening restrictions of the unchanged tree are listed in baseline/C14_instances.json.',
      'DESIGN.md 5/C14')

claim('C02', 'other',
      'Proved kernel + bounded: the 12 integer range validators are proved to accept exactly the XSD value ranges (all integers), the boolean '
      'codec to decode exactly {true,false,1,0} and to round-trip; facet validators and first-match union / item-wise list decoding as listed in '
      'the evidence. The built-in lexical spaces, whitespace normalisation, count_digits and derived restriction/list/union types are covered by '
      'bounded run-time contracts through the real schema API against reference functions written from XSD Part 2 (boundary catalogue exhaustive, '
      'seeded mutations), including decode value and decode(encode(decode(t))) = decode(t).',
      'Trusted: reference lexical functions (bounded/C02.py), elementpath datatypes as a dependency (two of its defects are listed findings), '
      'years beyond 9 digits and BCE leap days outside the deciding scope.',
      'DESIGN.md 5/C02')

claim('C03', 'other',
      'Proved kernel + bounded: XsdAttributeGroup.iter_required and iter_value_constraints (both use_defaults values) are proved by loop '
      'invariant to yield exactly the required names and exactly the fixed (and, when enabled, default) values; the wildcard leaf '
      'is_namespace_allowed / is_matching is proved under C16. The per-attribute decision loop of XsdAttributeGroup.raw_decode is covered by a '
      'bounded run-time contract through the real API: is_valid <=> attrs_valid and decoded absent attributes = fixed (+ defaults iff enabled), '
      'over 13 034 configurations x name subsets x values (quick: one sixteenth, ~870 000 cases).',
      'Trusted: the set-based reference attrs_valid; the corner "prohibited declaration that the wildcard admits" is outside the deciding scope (reported).',
      'DESIGN.md 5/C03')
