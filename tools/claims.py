# Claimed properties (exec'd by gen_manifest.py).  claim(id, category, text, note, design_ref)
NA['C18'] = ('quantifies over thread schedules: sequential function contracts cannot express interleavings of the unprotected shared '
             'state (xsi_types, scratch context, selector widening); a lock-discipline lemma is provable but does not imply the property '
             '(DESIGN.md section 5, C18)')

claim('C01', 'other',
      'Proved kernel + bounded: every ParticleMixin occurrence predicate and the OccursCalculator arithmetic are proved equal to the '
      'XSD occurrence spec for all integers (deductive, unbounded); the content-model interpreter itself (ModelVisitor/XsdGroup.raw_decode) '
      'is out of reach of the VC generator and is covered only by a bounded run-time contract (is_valid(doc(w)) <=> w in L(m)) over an '
      'enumerated scope of models and words, labelled bounded.',
      'Trusted: pyvc encoding, z3/cvc5, spec functions as a reading of XSD Structures 3.8/3.9; the bounded part proves nothing beyond its scope.',
      'DESIGN.md 5/C01')
