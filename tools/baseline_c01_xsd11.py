#!/usr/bin/env python
"""Writes baseline/C01_xsd11_open_instances.json: the exact mismatches of the open-content family on the unchanged tree (known finding C01-xsd11-open-content).
Run by hand only; never at check time."""
import json, os, sys
HERE = os.path.dirname(os.path.dirname(os.path.abspath(__file__))); sys.path.insert(0, HERE)
from bounded import C01_xsd11 as m
from bounded.common import pmap
res = pmap(m.oc_eval, m.oc_models(), chunk=1)
out = {m.show_oc(r['spec']): r['mismatches'] for r in res if r}
json.dump(out, open(os.path.join(HERE, 'baseline', 'C01_xsd11_open_instances.json'), 'w'), indent=0)
print(len(out), 'models with mismatches;', sum(len(v) for v in out.values()), 'words')
