#!/usr/bin/env python3
"""Writes baseline/obligations.json: for every (target, clause) the status on the current (unchanged) tree.
Run only on the committed, unmodified /repo; the file is committed and never written by ./check."""
import json, os, sys
HERE = os.path.dirname(os.path.dirname(os.path.abspath(__file__)))
sys.path.insert(0, HERE)
from pyvc import main, core
main.load_contracts()
findings = main.load_findings()
open_f = tuple(f['id'] for f in findings if f.get('status') == 'open')
res = main.run_targets(sorted(core.REGISTRY), 'quick', 0, open_f)
led = {}
for r in res:
    per = {}
    for o in r['obligations']:
        per.setdefault(o['clause'], []).append(o['verdict'])
    for c, vs in per.items():
        led[f"{r['target']}.{c}"] = 'discharged' if all(v == 'unsat' for v in vs) else 'open'
    if r['status'] not in ('ok', 'bounded-only'): led[r['target']] = 'undecided: ' + str(r.get('reason'))[:100]
os.makedirs(os.path.join(HERE, 'baseline'), exist_ok=True)
json.dump(dict(sorted(led.items())), open(os.path.join(HERE, 'baseline', 'obligations.json'), 'w'), indent=1)
print(len(led), 'entries;', sum(1 for v in led.values() if v == 'discharged'), 'discharged;', [k for k, v in led.items() if v != 'discharged'])
