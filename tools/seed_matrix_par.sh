#!/bin/bash
# usage: tools/seed_matrix_par.sh [-j lanes] [name...]   - like seed_matrix.sh, but each lane applies the stored changes to a scratch worktree of /repo's HEAD
# (under /tmp, removed at the end) and runs the quick check of the property against it (VERIF_REPO / PYTHONPATH), so that /repo itself is not touched and
# several changes are evaluated at once.  /repo must be clean (the worktrees are taken from its HEAD, which has every repair).  Writes seeded/MATRIX.md.
cd /verif
lanes=4; [ "$1" = "-j" ] && { lanes=$2; shift; shift; }
[ -z "$(git -C /repo status --porcelain)" ] || { echo "/repo is not clean"; exit 2; }
names="${@:-$(ls seeded | grep -v MATRIX | sort)}"
tmp=$(mktemp -d /tmp/seedm.XXXXXX)
lane() {
  i=$1; wt=$tmp/wt$i
  git -C /repo worktree add -q --detach $wt HEAD || exit 2
  while read n; do
    p=$(echo $n | cut -c1-3)
    if ! git -C $wt apply /verif/seeded/$n/patch.diff 2>/dev/null; then echo "| $n | $p | patch does not apply | |" > $tmp/row_$n; continue; fi
    VERIF_REPO=$wt PYTHONPATH=$wt ./check $p --no-evidence > $tmp/out_$n.txt 2>&1; rc=$?
    git -C $wt checkout -- .
    obl=$(grep '^VIOLATION' $tmp/out_$n.txt | sed -e 's/.*obligation=//' -e 's/@.*no-failing-input-found/ (no-failing-input-found)/' -e 's/@.*//' | sort | uniq -c | sort -rn | head -4 | awk '{c=$1; $1=""; printf "%s x%s; ", $0, c}')
    echo "| $n | $p | exit $rc, $(grep -c '^VIOLATION' $tmp/out_$n.txt) VIOLATION lines | $obl |" > $tmp/row_$n
    rm -f $tmp/out_$n.txt
  done < $tmp/lane$i
  git -C /repo worktree remove --force $wt
}
k=0; for n in $names; do echo $n >> $tmp/lane$((k % lanes)); k=$((k + 1)); done
for i in $(seq 0 $((lanes - 1))); do [ -f $tmp/lane$i ] && lane $i & done
wait
out=seeded/MATRIX.md
if [ $# -eq 0 ]; then echo "| seeded | property | quick check | reported by (distinct obligations, first four) |" > $out; echo "|---|---|---|---|" >> $out; for n in $names; do cat $tmp/row_$n >> $out; done
else for n in $names; do grep -v "^| $n |" $out > $tmp/m && cp $tmp/m $out; cat $tmp/row_$n >> $out; done; { head -2 $out; tail -n +3 $out | sort; } > $tmp/m && cp $tmp/m $out; fi
for n in $names; do cat $tmp/row_$n; done | grep -v "exit 1," | sed 's/^/NOT CAUGHT: /'
rm -rf $tmp; git -C /repo worktree prune
echo "matrix: $(grep -c 'exit 1,' $out) of $(($(wc -l < $out) - 2)) report a violation"
