#!/usr/bin/env python3
"""Regenerates MANIFEST.json from the table below (kept in one place so that the manifest, the
claimed levels and the not_applicable list never drift apart)."""
import json, os, subprocess, sys
HERE = os.path.dirname(os.path.dirname(os.path.abspath(__file__)))

TECH = ('contract-based deductive verification: VCs generated from the real function ASTs in /repo by symbolic execution '
        '(pyvc), discharged by z3/cvc5; bounded run-time contract checks as labelled stand-ins')

# id -> (category, text, note)   ; properties absent here go to not_applicable
CLAIMS = {}
NA = {}


def claim(pid, cat, text, note, design):
    CLAIMS[pid] = dict(cat=cat, text=text, note=note, design=design)


exec(open(os.path.join(HERE, 'tools', 'claims.py')).read())

props = [json.loads(l)['id'] for l in open(os.path.join(HERE, 'properties.jsonl'))]
checks = []
for pid in props:
    if pid not in CLAIMS: continue
    c = CLAIMS[pid]
    checks.append(dict(
        property_id=pid, quick_cmd=f'./check {pid} --tier quick', thorough_cmd=f'./check {pid} --tier thorough',
        evidence_file=f'/verif/evidence/{pid}.json', replay_cmd_template=f'./check {pid} --replay {{path}}', engine='pyvc',
        level_claimed=dict(category=c['cat'], text=c['text'], design_ref=c['design']), level_note=c['note'], technique=TECH))
na = [dict(property_id=p, reason=NA.get(p, 'not built yet: no check decides this property in the committed tree')) for p in props if p not in CLAIMS]
commits = subprocess.run(['git', '-C', '/repo', 'log', '--format=%H %s'], capture_output=True, text=True).stdout.strip().split('\n')
man = dict(
    version=1, setup_cmd='./setup.sh',
    hooks=dict(guard='XMLSCHEMA_VERIF', enable='no hooks: contracts are sidecars under /verif/contracts and read /repo source on every run; '
               'XMLSCHEMA_VERIF=1 is exported by ./check but no code in /repo reads it',
               baseline_off_cmd='cd /repo && /venv/bin/python -m pytest -q -p no:cacheprovider --timeout=900 --continue-on-collection-errors',
               source_commits=[], add_only=True),
    engines=[dict(name='pyvc', path='/verif/pyvc', serves_properties=sorted(CLAIMS),
                  kind_free_text='home-made VC generator over the Python AST of the real functions (path-splitting symbolic execution, '
                  'sidecar contracts, loop invariants), z3 + cvc5 back ends, counterexample concretisation and replay on the real code; '
                  'bounded run-time contract checks (enumerated scopes) as stand-ins, never counted as proved')],
    checks=checks, not_applicable=na,
    notes='See DESIGN.md. Exit codes of ./check: 0 held, 1 VIOLATION, 2 undecided without fallback, 3 checker fault. '
          'fix: commits in /repo are listed in known_findings.json as "fixed:" entries.')
json.dump(man, open(os.path.join(HERE, 'MANIFEST.json'), 'w'), indent=1)
try:
    import jsonschema
    jsonschema.validate(man, json.load(open('/root/.vp/MANIFEST.schema.json')))
    print('MANIFEST.json valid;', len(checks), 'checks,', len(na), 'not applicable')
except ImportError:
    print('written (jsonschema not importable here)')
