#!/usr/bin/env python3
"""Writes baseline/C01_xsd11_instances.json: the exact mismatches of C01.xsd11_wildcard_element_competition on the unchanged tree (known finding
C01-xsd11-wildcard-rejects-names-of-competing-elements).  Run by hand only; never at check time."""
import json, os, sys
HERE = os.path.dirname(os.path.dirname(os.path.abspath(__file__))); sys.path.insert(0, HERE)
from bounded import C01, cm
from bounded.common import pmap
models = [m for m in cm.variant_models() if cm.upa_ok(m, '1.1') and not cm.upa_ok(m, '1.0')] + C01.nested_competition_models()
res = pmap(C01.eval_competition, models)
out = {r['name']: r['mismatches'] for r in res if r and r['mismatches']}
json.dump(out, open(os.path.join(HERE, 'baseline', 'C01_xsd11_instances.json'), 'w'), indent=0, sort_keys=True)
print(len(models), 'models;', sum(1 for r in res if r), 'accepted by XMLSchema11;', len(out), 'with mismatches')
