#!/bin/bash
# usage: tools/try_edit.sh <file-in-repo> <python-regex-old> <new> -- <check args...>
# Applies one textual edit to /repo, runs ./check, always reverts.
f="$1"; old="$2"; new="$3"; shift 4
/venv/bin/python - "$f" "$old" "$new" <<'PY'
import sys
f, old, new = sys.argv[1:4]
p = '/repo/' + f; s = open(p, encoding='utf-8-sig').read()
assert s.count(old) == 1, (s.count(old), old)
open(p, 'w').write(s.replace(old, new))
PY
rc=$?
if [ $rc -eq 0 ]; then /verif/check "$@"; rc=$?; fi
git -C /repo checkout -- . ; echo "exit=$rc"
