#!/usr/bin/env python3
"""CPython cross-check of the symbolic executor (DESIGN.md section 4): small functions that exercise the supported subset are run in CPython and
through pyvc.se on the same concrete inputs; the result (value, or the class of the raised exception) must agree on every feasible path.
Development-time tool (also run by tools/baseline.py users after touching pyvc/se.py): exit 0 all agree, exit 3 otherwise."""
import itertools, os, sys
HERE = os.path.dirname(os.path.dirname(os.path.abspath(__file__)))
sys.path.insert(0, HERE)
import z3
from pyvc.se import *

CASES = [
    # (source of f, parameter domains)
    ("def f(a, b):\n    return a or b\n", dict(a=[0, 1, 5, -2], b=[0, 3])),
    ("def f(a, b):\n    return a and b\n", dict(a=[0, 1, 5], b=[0, 3])),
    ("def f(a, b):\n    v = a or b\n    if v == 0 or 2 > v:\n        return 1\n    return 0\n", dict(a=[0, 1, 2, 3], b=[0, 1, 2, 5])),
    ("def f(a, b):\n    return (a or b) + 1\n", dict(a=[0, 4], b=[0, 7])),
    ("def f(s, t):\n    return s or t\n", dict(s=['', 'x'], t=['', 'yy'])),
    ("def f(s, t):\n    return s and t\n", dict(s=['', 'x'], t=['', 'yy'])),
    ("def f(a, b, c):\n    return a < b <= c\n", dict(a=[0, 2, 5], b=[1, 2], c=[1, 2, 3])),
    ("def f(a, b):\n    return a if a > b else b\n", dict(a=[0, 3], b=[1, 3, 4])),
    ("def f(a):\n    x = a\n    x += 2\n    x -= 1\n    return x * 3\n", dict(a=[-1, 0, 7])),
    ("def f(a, b):\n    return a // b if b > 0 else a % 3\n", dict(a=[0, 7, 9], b=[0, 2, 4])),
    ("def f(s):\n    return s[0] == '/'\n", dict(s=['/a', 'a/', 'x'])),
    ("def f(s):\n    return s[-1] == '*'\n", dict(s=['/a*', 'a', '*'])),
    ("def f(s, t):\n    return s[:-1] + t\n", dict(s=['/r/*', 'a', ''], t=['x', ''])),
    ("def f(s):\n    return s[1:3]\n", dict(s=['abcdef', 'a', '', 'ab'])),
    ("def f(s):\n    return s[2:]\n", dict(s=['abcdef', 'a', ''])),
    ("def f(s):\n    return s[-2:]\n", dict(s=['abcdef', 'a', ''])),
    ("def f(s, t):\n    return s.startswith(t) and not s.endswith('z')\n", dict(s=['abz', 'abc', 'b'], t=['a', 'ab', ''])),
    ("def f(s, t):\n    return t in s\n", dict(s=['abc', ''], t=['b', 'x', ''])),
    ("def f(s):\n    return len(s) > 2 and s != 'abc'\n", dict(s=['ab', 'abc', 'abcd'])),
    ("def f(s):\n    if not s:\n        return 0\n    return len(s)\n", dict(s=['', 'ab'])),
    ("def f(a):\n    if a is None:\n        return -1\n    return a + 1\n", dict(a=[None, 0, 4])),
    ("def f(a, b):\n    if a is not None and a > b:\n        return a\n    return b\n", dict(a=[None, 0, 9], b=[1, 5])),
    ("def f(a):\n    if a > 3:\n        raise ValueError('x')\n    elif a < 0:\n        raise KeyError(a)\n    return a\n", dict(a=[-1, 0, 3, 4])),
    ("def f(a):\n    try:\n        if a > 1:\n            raise KeyError(a)\n        r = a\n    except KeyError:\n        r = 100\n    else:\n        r += 1\n    return r\n", dict(a=[0, 1, 2])),
    ("def f(a, b):\n    x, y = a, b\n    x, y = y, x\n    return x - y\n", dict(a=[1, 5], b=[2, 5])),
    ("def f(a):\n    return not a\n", dict(a=[0, 1, 2])),
    ("def f(s):\n    return not s\n", dict(s=['', 'a'])),
    ("def f(a, b):\n    return max(a, b) - min(a, b)\n", dict(a=[1, 5], b=[2, 5])),
    ("def f(a, b):\n    return a == b or a != b + 1\n", dict(a=[1, 2, 3], b=[1, 2])),
    ("def f(s, t):\n    return s == t or s == f'/{t}'\n", dict(s=['a', '/a', 'b'], t=['a', 'b'])),
    # sets of strings and dicts str -> int (heap cells)
    ("def f(s, x):\n    return x in s\n", dict(s=[frozenset(), frozenset({'a'}), frozenset({'a', 'b'})], x=['a', 'c'])),
    ("def f(s, t, x):\n    u = s | t\n    return x in u\n", dict(s=[frozenset({'a'}), frozenset()], t=[frozenset({'b'}), frozenset({'a', 'c'})], x=['a', 'b', 'c'])),
    ("def f(s, t, x):\n    u = s - t\n    return x in u and x not in t\n", dict(s=[frozenset({'a', 'b'})], t=[frozenset({'b'}), frozenset()], x=['a', 'b'])),
    ("def f(s, t, x):\n    u = s & t\n    return x in u\n", dict(s=[frozenset({'a', 'b'})], t=[frozenset({'b'}), frozenset()], x=['a', 'b'])),
    ("def f(s, t, x):\n    u = set(s)\n    u |= t\n    return x in u and (x in s) == (x in s)\n", dict(s=[frozenset({'a'})], t=[frozenset({'b'})], x=['a', 'b', 'c'])),
    ("def f(s, x):\n    s.add(x)\n    s.discard('a')\n    return 'a' in s or x in s\n", dict(s=[{'a'}, set()], x=['a', 'q'])),
    ("def f(s):\n    return not s\n", dict(s=[frozenset(), frozenset({'a'})])),
    ("def f(d, k):\n    return d[k]\n", dict(d=[{'a': 1}, {}], k=['a', 'b'])),
    ("def f(d, k):\n    try:\n        return d[k]\n    except KeyError:\n        return -1\n", dict(d=[{'a': 1}, {}], k=['a', 'b'])),
    ("def f(d, k):\n    if k in d:\n        return d[k] + 1\n    return 0\n", dict(d=[{'a': 1, 'b': 5}, {}], k=['a', 'c'])),
    ("def f(d, k):\n    d[k] = 7\n    return d[k] + (d['a'] if 'a' in d else 0)\n", dict(d=[{'a': 1}, {}], k=['a', 'b'])),
    # lists of ints
    ("def f(x):\n    return x[0] + x[-1]\n", dict(x=[[1], [1, 2, 3], []])),
    ("def f(x, i):\n    return x[i]\n", dict(x=[[5, 6, 7]], i=[0, 2, -1, 3, -4])),
    ("def f(x):\n    return len(x) * 2\n", dict(x=[[], [1, 2]])),
    ("def f(x, i):\n    try:\n        return x[i]\n    except IndexError:\n        return -1\n", dict(x=[[5, 6]], i=[0, 1, 2, -3])),
    ("def f(a, b):\n    t = (a, b)\n    return t[1] - t[0]\n", dict(a=[1, 4], b=[2])),
    ("def f(a):\n    if a:\n        r = 'x'\n    else:\n        r = ''\n    return r + 'y'\n", dict(a=[0, 2])),
    ("def f(a, b):\n    return (a if a else b) == b\n", dict(a=[0, 2, 3], b=[0, 3])),
    ("def f(s):\n    return 'a' if s else None\n", dict(s=['', 'q'])),
    ("def f(a, b):\n    if a > b or (a == b and not b):\n        return 1\n    elif a + 1 == b:\n        return 2\n    return 3\n", dict(a=[0, 1, 2], b=[0, 1, 2])),
]


def mk(v, name):
    if v is None: return NONE
    if isinstance(v, bool): return VBool(z3.BoolVal(v))
    if isinstance(v, int): return VInt(z3.IntVal(v))
    if isinstance(v, str): return VStr(z3.StringVal(v))
    raise TypeError(v)


def mk_heap(st, v):
    if isinstance(v, (set, frozenset)):
        arr = z3.K(S, False)
        for x in sorted(v): arr = z3.Store(arr, z3.StringVal(x), True)
        return VSet(st.alloc(kind='set', arr=arr))
    if isinstance(v, list):
        seq = z3.Empty(z3.SeqSort(I))
        for x in v: seq = z3.Concat(seq, z3.Unit(z3.IntVal(x)))
        return VList(st.alloc(kind='list', seq=seq, esort=I))
    if isinstance(v, dict):
        dom = z3.K(S, False); val = z3.K(S, z3.IntVal(0))
        for k_, x in v.items(): dom = z3.Store(dom, z3.StringVal(k_), True); val = z3.Store(val, z3.StringVal(k_), z3.IntVal(x))
        return VDict(st.alloc(kind='dict', dom=dom, val=val, ksort=S, default=None, wrap=lambda t_: VInt(t_)))
    return None


def concrete(val):
    if isinstance(val, VNone) or val is None: return None
    if isinstance(val, VOpt):
        return None if z3.is_true(z3.simplify(val.none)) else concrete(val.val)
    t = z3.simplify(val.t)
    if isinstance(val, VInt): return t.as_long()
    if isinstance(val, VBool): return z3.is_true(t)
    if isinstance(val, VStr): return t.as_string()
    raise TypeError(val)


def main():
    bad = 0; n = 0; skipped = {}
    for src, doms in CASES:
        ns = {}; exec(src, ns); f = ns['f']
        names = list(doms)
        for combo in itertools.product(*[doms[k] for k in names]):
            n += 1
            import copy
            try: want = ('return', f(*[set(c) if isinstance(c, (set, frozenset)) else copy.copy(c) for c in combo]))
            except Exception as e: want = ('raise', type(e).__name__)
            try:
                ex = Exec('<selftest>', 'f', source=src); st = new_state()
                for k, v in zip(names, combo): st.env[k] = mk_heap(st, v) or mk(v, k)
                for nm in ('max', 'min'):
                    pass
                outs = ex.run(st, z3.BoolVal(True))
                live = []
                for kind, val, s2 in outs:
                    sol = z3.Solver(); sol.add(*s2.pc)
                    if sol.check() == z3.sat: live.append((kind, val))
                pend = [c for c, x in ex.pending_raise if z3.is_true(z3.simplify(c))]
                if len(live) != 1: got = ('paths', len(live))
                else:
                    kind, val = live[0]
                    got = ('raise', val.cls.__name__ if isinstance(val, VExc) and val.cls else '?') if kind == 'raise' else ('return', concrete(val))
            except Unsupported as e:
                got = ('unsupported', str(e)[:60])
            except Exception as e:
                got = ('crash', f'{type(e).__name__}: {e}'[:80])
            if got[0] == 'unsupported':
                skipped[src.split('\n')[1].strip()] = got[1]; continue        # outside the subset: never silently mis-read
            same = got == want or (want[0] == 'return' and got[0] == 'return' and want[1] == got[1] and type(want[1]) in (bool, int) and type(got[1]) in (bool, int) and bool(want[1]) == bool(got[1]) and int(want[1]) == int(got[1]))
            if not same:
                bad += 1; print('DISAGREE', repr(src.split('\n')[1].strip()), dict(zip(names, combo)), 'cpython', want, 'executor', got)
    for k, v in skipped.items(): print('outside the subset:', repr(k), '->', v)
    print(f'{n} evaluations, {len(skipped)} snippets outside the subset, {bad} disagreements')
    return 3 if bad else 0


if __name__ == '__main__':
    sys.exit(main())
