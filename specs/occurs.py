"""Occurrence arithmetic, from XSD Structures 3.9 (particles): a particle {min, max} with max in
N u {unbounded(None)} admits n occurrences iff min <= n and (max unbounded or n <= max)."""


def wf(mn, mx):
    return mn >= 0 and (mx is None or mx >= mn)


def occ_in(n, mn, mx):
    return mn <= n and (mx is None or n <= mx)


SPEC = {
    'is_emptiable': lambda mn, mx, o: mn == 0,
    'is_empty': lambda mn, mx, o: mx == 0,
    'is_single': lambda mn, mx, o: mx == 1,
    'is_multiple': lambda mn, mx, o: mx is None or mx >= 2,
    'is_ambiguous': lambda mn, mx, o: not (mx is not None and mn == mx),
    'is_univocal': lambda mn, mx, o: mx is not None and mn == mx,
    'is_missing': lambda mn, mx, o: o < mn,
    'is_over': lambda mn, mx, o: mx is not None and o >= mx,
    'is_exceeded': lambda mn, mx, o: mx is not None and o > mx,
}

INF = None


def add(a, b):   # (min, max) pairs over N u {None}
    return a[0] + b[0], (None if a[1] is None or b[1] is None else a[1] + b[1])


def mul(a, b):   # inf * 0 = 0 * inf = 0
    if a[1] == 0 or b[1] == 0: mx = 0
    elif a[1] is None or b[1] is None: mx = None
    else: mx = a[1] * b[1]
    return a[0] * b[0], mx


def sub(a, b):   # monus; inf - x = inf ; x - inf = 0
    if a[1] is None: mx = None
    elif b[1] is None: mx = 0
    else: mx = max(0, a[1] - b[1])
    return max(0, a[0] - b[0]), mx
