"""Set reading of wildcard namespace constraints (XSD Structures 3.10.1/3.10.4, 1.1: 3.10.1 with
notNamespace / notQName).  Independent of xmlschema: a constraint is (namespace: set of tokens,
not_namespace: set, not_qname: set of expanded names, tns)."""
XSI = 'http://www.w3.org/2001/XMLSchema-instance'


def denote_ns(w, ns):
    """w = dict(namespace=set, not_namespace=set, not_qname=set, tns=str)"""
    if w['not_namespace']:
        return ns not in w['not_namespace']
    if '##any' in w['namespace']:
        return True
    if '##other' in w['namespace']:
        return ns != '' and ns != w['tns']
    return ns in w['namespace']


def ns_of(name):
    return name[1:].split('}')[0] if name[:1] == '{' else ''


def denote_name(w, name):
    return denote_ns(w, ns_of(name)) and name not in w['not_qname']


def wf(w):
    ns, nn = w['namespace'], w['not_namespace']
    return (('##any' not in ns or ns == {'##any'}) and ('##other' not in ns or ns == {'##other'})
            and (not nn or not ns) and not ({'##any', '##other'} & set(nn))
            and w['tns'] not in ('##any', '##other', XSI) and XSI not in ns and XSI not in nn
            and all(not q.startswith('##') for q in w['not_qname']))


def universe(ws, extra=()):
    """finite universe that decides every clause: every namespace mentioned, '', the target
    namespaces and one fresh namespace; names: every listed name plus one fresh name per namespace."""
    nss = {'', 'urn:fresh-ns'} | set(extra)
    for w in ws:
        nss |= {x for x in w['namespace'] if not x.startswith('##')} | set(w['not_namespace']) | {w['tns']}
        nss |= {ns_of(q) for q in w['not_qname']}
    names = set()
    for w in ws: names |= set(w['not_qname'])
    names |= {('{%s}fresh' % ns) if ns else 'fresh' for ns in nss}
    return sorted(nss), sorted(names)
