"""Content models as data, their XSD rendering, an independent matcher L(m) and an independent UPA decision
procedure (Glushkov position automaton over the counter-unrolled model).  Written from XSD Structures
3.8/3.9 (particles, model groups), 3.8.6 (UPA) -- nothing here imports xmlschema.

model ::= ('e', name, (min, max))            element leaf (no namespace), anyType
        | ('w', kind, (min, max))            wildcard leaf: kind in {'any', 'other', 'local'} (processContents=skip)
        | ('seq'|'cho'|'all', [model...], (min, max))
Symbols: 'a', 'b', 'c' are no-namespace elements; 'x' is an element of namespace urn:o.
"""
import itertools, re

XS = 'xmlns:xs="http://www.w3.org/2001/XMLSchema"'
OCC = [(1, 1), (0, 1), (0, None), (1, None), (2, 2), (0, 2), (1, 2)]
SYMS = 'abcx'
WC = {'any': set('abcx'), 'other': set('x'), 'local': set('abc')}
WC_ATTR = {'any': '##any', 'other': '##other', 'local': '##local'}


def occ_attr(o):
    mn, mx = o
    return f' minOccurs="{mn}" maxOccurs="{"unbounded" if mx is None else mx}"'


def xsd(m):
    if m[0] == 'e': return f'<xs:element name="{m[1]}"{occ_attr(m[2])}/>'
    if m[0] == 'w': return f'<xs:any namespace="{WC_ATTR[m[1]]}" processContents="skip"{occ_attr(m[2])}/>'
    tag = {'seq': 'sequence', 'cho': 'choice', 'all': 'all'}[m[0]]
    return f'<xs:{tag}{occ_attr(m[2])}>' + ''.join(xsd(c) for c in m[1]) + f'</xs:{tag}>'


def show(m):
    o = {(1, 1): '', (0, 1): '?', (0, None): '*', (1, None): '+'}.get(tuple(m[2]), '{%s,%s}' % (m[2][0], '' if m[2][1] is None else m[2][1]))
    if m[0] == 'e': return m[1] + o
    if m[0] == 'w': return '<' + m[1] + '>' + o
    sep = {'seq': ',', 'cho': '|', 'all': '&'}[m[0]]
    inner = sep.join(show(c) for c in m[1])
    if len(m[1]) == 1 and m[0] != 'seq': inner = sep + inner          # a one-child choice is not a one-child sequence
    return '(' + inner + ')' + o


def schema_text(m, extra=''):
    return (f'<xs:schema {XS}><xs:element name="r"><xs:complexType>{xsd(m)}</xs:complexType></xs:element>'
            f'<xs:element name="a"/><xs:element name="b"/><xs:element name="c"/>{extra}</xs:schema>') if False else \
           f'<xs:schema {XS}><xs:element name="r"><xs:complexType>{xsd(m)}</xs:complexType></xs:element>{extra}</xs:schema>'


def doc(word, root='r'):
    return f'<{root}>' + ''.join('<x xmlns="urn:o"/>' if c == 'x' else f'<{c}/>' for c in word) + f'</{root}>'


# ---------------------------------------------------------------- L(m): set-of-end-positions matcher
def admits(m, c):
    return (m[1] == c) if m[0] == 'e' else (c in WC[m[1]])


def ends_once(m, w, i):
    """end positions after matching ONE occurrence of the term of particle m starting at i"""
    if m[0] in ('e', 'w'):
        return {i + 1} if i < len(w) and admits(m, w[i]) else set()
    if m[0] == 'seq':
        cur = {i}
        for c in m[1]:
            cur = set().union(*[ends(c, w, j) for j in cur]) if cur else set()
        return cur
    if m[0] == 'cho':
        return set().union(*[ends(c, w, i) for c in m[1]]) if m[1] else {i}
    if m[0] == 'all':
        out = set()
        for perm in itertools.permutations(m[1]):
            cur = {i}
            for c in perm:
                cur = set().union(*[ends(c, w, j) for j in cur]) if cur else set()
            out |= cur
        return out
    raise ValueError(m[0])


def ends(m, w, i):
    mn, mx = m[2]
    cur = {i}; k = 0; out = set()
    if mn == 0: out.add(i)
    limit = mx if mx is not None else len(w) + mn + 1
    while k < limit and cur:
        nxt = set().union(*[ends_once(m, w, j) for j in cur])
        k += 1
        if k >= mn: out |= nxt
        if mx is None and k >= mn and nxt <= cur: break
        cur = nxt
    return out


def in_language(m, w):
    return len(w) in ends(m, w, 0)


# ---------------------------------------------------------------- UPA by Glushkov positions
def unroll(m, ids, path=()):
    mn, mx = m[2]
    if m[0] in ('e', 'w'):
        pid = ids.setdefault(path, len(ids))
        syms = frozenset({m[1]}) if m[0] == 'e' else frozenset(WC[m[1]])
        base = lambda: ('sym', syms, pid, m[0])
    elif m[0] == 'all':
        kids = m[1]
        base = lambda: ('alt', [('cat', [unroll(c, ids, path + (kids.index(c),)) for c in perm]) for perm in itertools.permutations(kids)])
    else:
        kids = m[1]
        base = lambda: (('cat' if m[0] == 'seq' else 'alt'), [unroll(c, ids, path + (i,)) for i, c in enumerate(kids)])
    parts = [base() for _ in range(mn)]
    if mx is None: parts.append(('star', base()))
    else: parts += [('opt', base()) for _ in range(mx - mn)]
    return ('cat', parts) if len(parts) != 1 else parts[0]


def glushkov(r):
    pos = []

    def go(r):
        t = r[0]
        if t == 'sym':
            pos.append(r[1:]); p = len(pos) - 1
            return False, {p}, {p}, {}
        if t in ('star', 'opt'):
            n, f, l, fo = go(r[1])
            if t == 'star':
                for p in l: fo.setdefault(p, set()).update(f)
            return True, f, l, fo
        if t == 'alt':
            nl, F, Lq, FO = False, set(), set(), {}
            for c in r[1]:
                n, f, l, fo = go(c); nl |= n; F |= f; Lq |= l
                for k, v in fo.items(): FO.setdefault(k, set()).update(v)
            if not r[1]: nl = True
            return nl, F, Lq, FO
        if t == 'cat':
            nl, F, Lq, FO = True, set(), set(), {}
            for c in r[1]:
                n, f, l, fo = go(c)
                for k, v in fo.items(): FO.setdefault(k, set()).update(v)
                for p in Lq: FO.setdefault(p, set()).update(f)
                if nl: F |= f
                Lq = (Lq | l) if n else set(l)
                nl = nl and n
            return nl, F, Lq, FO
        raise ValueError(t)
    n, F, Lq, FO = go(r)
    return pos, F, FO


def glushkov_full(r):
    """(positions, nullable, first, last, follow)"""
    pos = []

    def go(r):
        t = r[0]
        if t == 'sym':
            pos.append(r[1:]); p = len(pos) - 1
            return False, {p}, {p}, {}
        if t in ('star', 'opt'):
            n, f, l, fo = go(r[1])
            if t == 'star':
                for p in l: fo.setdefault(p, set()).update(f)
            return True, f, l, fo
        if t == 'alt':
            nl, F, Lq, FO = False, set(), set(), {}
            for c in r[1]:
                n, f, l, fo = go(c); nl |= n; F |= f; Lq |= l
                for k, v in fo.items(): FO.setdefault(k, set()).update(v)
            if not r[1]: nl = True
            return nl, F, Lq, FO
        nl, F, Lq, FO = True, set(), set(), {}
        for c in r[1]:
            n, f, l, fo = go(c)
            for k, v in fo.items(): FO.setdefault(k, set()).update(v)
            for p in Lq: FO.setdefault(p, set()).update(f)
            if nl: F |= f
            Lq = (Lq | l) if n else set(l)
            nl = nl and n
        return nl, F, Lq, FO
    n, F, Lq, FO = go(r)
    return pos, n, F, Lq, FO


def greedy_in_language(m, w):
    """the XSD 1.1 reading in which, wherever an element particle and a wildcard can both take the next child, only the element particle does
    (subset simulation of the position automaton with the wildcard transitions dropped when an element transition exists)"""
    pos, nullable, F, L, FO = glushkov_full(unroll(m, {}))
    cur = None
    for c in w:
        nxt = F if cur is None else set().union(*[FO.get(p, set()) for p in cur]) if cur else set()
        cand = {p for p in nxt if c in pos[p][0]}
        if any(pos[p][2] == 'e' for p in cand): cand = {p for p in cand if pos[p][2] == 'e'}
        if not cand: return False
        cur = cand
    return nullable if cur is None else bool(cur & L)


def upa_ok(m, version='1.0'):
    """True iff no prefix can be attributed to two different particles (Structures 3.8.6).  XSD 1.1: an element particle
    competing with a wildcard is resolved in favour of the element (no violation); wildcard vs wildcard still is."""
    ids = {}
    pos, F, FO = glushkov(unroll(m, ids))

    def clash(ps):
        ps = list(ps)
        for i in range(len(ps)):
            for j in range(i + 1, len(ps)):
                (s1, p1, k1), (s2, p2, k2) = pos[ps[i]], pos[ps[j]]
                if p1 != p2 and (s1 & s2):
                    if version == '1.1' and {k1, k2} == {'e', 'w'}: continue
                    return True
        return False
    return not (clash(F) or any(clash(v) for v in FO.values()))


# ---------------------------------------------------------------- enumerations (fixed order: the deciding scopes)
def leaves(names='ab'):
    return [('e', n, o) for n in names for o in OCC]


def two_level_models():
    """The baselined deciding scope of C01/C15: outer sequence/choice with occurs in OCC[:4] over [inner, leaf] where inner is a leaf,
    a group of one leaf, or a group of two leaves (first 8 leaves each); alphabet {a, b}.  71 456 models, fixed order."""
    lv = leaves()
    inner = lv + [(k, [x], o) for k in ('seq', 'cho') for x in lv for o in OCC[:4]] \
               + [(k, [x, y], o) for k in ('seq', 'cho') for x in lv[:8] for y in lv[:8] for o in OCC[:4]]
    for k in ('seq', 'cho'):
        for o in OCC[:4]:
            for x in inner:
                for y in lv:
                    yield (k, [x, y], o)


def two_level_models_rev():
    """the mirror scope: [leaf, inner group] - a sibling particle BEFORE a nested group (the nested group is then re-entered after the sibling
    in every repetition of the outer group).  69 888 models, fixed order."""
    lv = leaves()
    inner = [(k, [x], o) for k in ('seq', 'cho') for x in lv for o in OCC[:4]] \
          + [(k, [x, y], o) for k in ('seq', 'cho') for x in lv[:8] for y in lv[:8] for o in OCC[:4]]
    for k in ('seq', 'cho'):
        for o in OCC[:4]:
            for x in inner:
                for y in lv:
                    yield (k, [y, x], o)


def variant_models():
    """Leaf variants named by the property: wildcards, all groups; small, exhaustive."""
    occ = OCC[:4]
    el = [('e', n, o) for n in 'ab' for o in occ]
    wl = [('w', k, o) for k in ('any', 'other', 'local') for o in occ]
    for k in ('seq', 'cho'):
        for o in occ[:3]:
            for x in el:
                for y in wl: yield (k, [x, y], o); yield (k, [y, x], o)
            for x in wl:
                for y in wl: yield (k, [x, y], o)
    e01 = [('e', n, o) for n in 'abc' for o in ((1, 1), (0, 1))]
    for x, y in itertools.permutations(e01, 2):
        if x[1] != y[1]:
            for o in ((1, 1), (0, 1)): yield ('all', [x, y], o)
    for x, y, z in itertools.combinations(e01, 3):
        if len({x[1], y[1], z[1]}) == 3: yield ('all', [x, y, z], (1, 1))


def words(alphabet='ab', maxlen=5):
    return [''.join(w) for n in range(0, maxlen + 1) for w in itertools.product(alphabet, repeat=n)]
