"""C09 bounded run-time contract (labelled bounded): a schema means the same however its declarations are arranged.

One namespace with 23 mutually forward-referencing globals (types, a substitution group, a model group, an attribute group, list and union
types, a notation) (with a keyref that refers to a key declared on another element) and 9 probe instances.  Arrangements: seeded permutations; 2-3 way splits into include files in a sub-directory;
location spellings (relative, dotted, absolute, file URL, the same file included twice under two spellings); clear-and-rebuild; copy of
the global maps followed by build(); pickle round trip.  Each arrangement must give the same global components and, for every probe, the
same errors and the same decoded data as the reference arrangement.  Import order of two other namespaces is permuted as well.
"""
import copy, os, pickle, random, shutil, sys, tempfile
from .common import pmap, result
from .C01 import _cls
XS = 'xmlns:xs="http://www.w3.org/2001/XMLSchema"'
DECLS = [
    '<xs:element name="root" type="t:RootT"><xs:keyref name="KR" refer="t:K"><xs:selector xpath="t:x"/><xs:field xpath="."/></xs:keyref></xs:element>',
    '<xs:complexType name="RootT"><xs:sequence><xs:element ref="t:head" maxOccurs="unbounded"/><xs:group ref="t:G" minOccurs="0"/></xs:sequence><xs:attributeGroup ref="t:AG"/></xs:complexType>',
    '<xs:element name="head" type="t:BaseT"><xs:key name="K"><xs:selector xpath="t:v"/><xs:field xpath="."/></xs:key></xs:element>',
    '<xs:element name="member" type="t:DerT" substitutionGroup="t:head"/>',
    '<xs:complexType name="BaseT"><xs:sequence><xs:element name="v" type="t:Code"/></xs:sequence></xs:complexType>',
    '<xs:complexType name="DerT"><xs:complexContent><xs:extension base="t:BaseT"><xs:sequence><xs:element name="w" type="t:Codes" minOccurs="0"/></xs:sequence></xs:extension></xs:complexContent></xs:complexType>',
    '<xs:simpleType name="Code"><xs:restriction base="t:Base0"><xs:maxInclusive value="50"/></xs:restriction></xs:simpleType>',
    '<xs:simpleType name="Base0"><xs:restriction base="xs:int"><xs:minInclusive value="0"/></xs:restriction></xs:simpleType>',
    '<xs:simpleType name="Codes"><xs:list itemType="t:Code"/></xs:simpleType>',
    '<xs:group name="G"><xs:choice><xs:element name="x" type="t:U"/><xs:element name="y" type="xs:date"/></xs:choice></xs:group>',
    '<xs:simpleType name="U"><xs:union memberTypes="t:Code xs:boolean"/></xs:simpleType>',
    '<xs:attributeGroup name="AG"><xs:attribute name="a" type="t:Code"/><xs:attribute ref="t:ga"/></xs:attributeGroup>',
    '<xs:attribute name="ga" type="t:Codes"/>',
    '<xs:notation name="n" public="p"/>',
    # wildcards of attribute groups combined at build time: intersection in a type that uses two groups, union in an extension - whichever is built first
    '<xs:attributeGroup name="W1"><xs:anyAttribute namespace="urn:a urn:b urn:c" processContents="skip"/></xs:attributeGroup>',
    '<xs:attributeGroup name="W2"><xs:anyAttribute namespace="urn:a urn:b" processContents="skip"/></xs:attributeGroup>',
    '<xs:complexType name="WT1"><xs:attributeGroup ref="t:W1"/><xs:attributeGroup ref="t:W2"/></xs:complexType>',
    '<xs:complexType name="WB"><xs:attributeGroup ref="t:W1"/></xs:complexType>',
    '<xs:complexType name="WD"><xs:complexContent><xs:extension base="t:WB"><xs:anyAttribute namespace="urn:d" processContents="skip"/></xs:extension></xs:complexContent></xs:complexType>',
    '<xs:element name="w1" type="t:WT1"/>', '<xs:element name="wb" type="t:WB"/>', '<xs:element name="wd" type="t:WD"/>',
    '<xs:attributeGroup name="DAG"><xs:attribute name="uid" type="xs:int"/></xs:attributeGroup>',      # XSD 1.1: the default attribute group of every document of the schema
]
HEAD = f'<xs:schema {XS} targetNamespace="urn:t" xmlns:t="urn:t" elementFormDefault="qualified">'
HEADS = {'1.0': HEAD, '1.1': HEAD[:-1] + ' defaultAttributes="t:DAG">'}


DECLS11 = [
    # XSD 1.1: wildcards that exclude every globally DEFINED name - of the whole schema, not of the document that happens to hold the wildcard
    '<xs:element name="nd"><xs:complexType><xs:sequence><xs:any notQName="##defined" namespace="##any" processContents="lax" minOccurs="0" maxOccurs="unbounded"/></xs:sequence>'
    '</xs:complexType></xs:element>',
]


def decls_for(ver):
    return _decls_for(ver) + (DECLS11 if ver == '1.1' else [])


def _decls_for(ver):
    # the derived type inherits the default attributes of its base: it must not add them again (the builder rejects the duplicate)
    return [d.replace('<xs:complexType name="DerT">', '<xs:complexType name="DerT" defaultAttributesApply="false">').replace('<xs:complexType name="WD">', '<xs:complexType name="WD" defaultAttributesApply="false">') if ver == '1.1' else d for d in DECLS]
PROBES = [
    '<t:nd xmlns:t="urn:t"><t:head><t:v>1</t:v></t:head></t:nd>', '<t:nd xmlns:t="urn:t" xmlns:o="urn:o"><o:head/><t:member><t:v>1</t:v></t:member></t:nd>',      # ##defined wildcards (XSD 1.1; unknown element under 1.0)
    '<t:root xmlns:t="urn:t" a="5" t:ga="1 2"><t:head><t:v>7</t:v></t:head><t:member><t:v>1</t:v><t:w>1 2 50</t:w></t:member><t:x>true</t:x></t:root>',
    '<t:root xmlns:t="urn:t" a="51"><t:head><t:v>-1</t:v></t:head></t:root>',
    '<t:root xmlns:t="urn:t"><t:member><t:v>1</t:v><t:w>51</t:w></t:member><t:y>2020-02-30</t:y></t:root>',
    '<t:root xmlns:t="urn:t"><t:head><t:v>1</t:v><t:w>1</t:w></t:head><t:x>maybe</t:x></t:root>',
    '<t:root xmlns:t="urn:t" uid="1"><t:head uid="7"><t:v>7</t:v></t:head><t:member uid="x"><t:v>1</t:v></t:member></t:root>',      # attributes of the default attribute group (XSD 1.1)
    '<t:wd xmlns:t="urn:t" xmlns:c="urn:c" c:x="1"/>', '<t:w1 xmlns:t="urn:t" xmlns:c="urn:c" xmlns:a="urn:a" c:x="1" a:y="2"/>', '<t:wb xmlns:t="urn:t" xmlns:c="urn:c" xmlns:d="urn:d" c:x="1" d:z="3"/>',
    '<t:root xmlns:t="urn:t"><t:head><t:v>7</t:v></t:head><t:x>7</t:x></t:root>',        # a keyref on the root that refers to a key declared on another element
]
KINDS = ['permute', 'split', 'spell', 'twice', 'copy', 'pickle', 'imports', 'same-text', 'nested-base']


def summary(s):
    g = sorted((type(c).__name__, c.name) for c in s.maps.iter_globals() if c.name and c.name.startswith('{urn:t}'))
    res = []
    for p in PROBES:
        res.append(([e.reason for e in s.iter_errors(p)], repr(s.decode(p, validation='lax')[0])))
    return g, res


def eval_arrangement(args):
    ver, kind, seed, root = args
    rng = random.Random(seed); cls = _cls(ver); HEAD = HEADS[ver]
    decls = decls_for(ver); rng.shuffle(decls)
    try:
        if kind == 'permute': s = cls(HEAD + ''.join(decls) + '</xs:schema>')
        elif kind in ('split', 'spell'):
            d = os.path.join(root, f'{ver}_{kind}_{seed}'); os.makedirs(os.path.join(d, 'sub'))
            k = rng.randrange(2, 4); parts = [decls[i::k] for i in range(k)]
            names = ['main.xsd'] + [f'sub/p{i}.xsd' for i in range(1, k)]
            for i in range(1, k): open(os.path.join(d, names[i]), 'w').write(HEAD + ''.join(parts[i]) + '</xs:schema>')
            spell = (lambda nm: nm) if kind == 'split' else (lambda nm: rng.choice([nm, './' + nm, 'sub/../' + nm, os.path.join(d, nm), 'file://' + os.path.join(d, nm), os.path.join(d, 'sub', '..', nm), 'file://' + os.path.join(d, 'sub', '..', nm), os.path.join(d, '.', nm)]))
            incs = ''.join(f'<xs:include schemaLocation="{spell(names[i])}"/>' for i in range(1, k))
            if kind == 'spell': incs += f'<xs:include schemaLocation="{spell(names[1])}"/>'
            open(os.path.join(d, 'main.xsd'), 'w').write(HEAD + incs + ''.join(parts[0]) + '</xs:schema>')
            s = cls(os.path.join(d, 'main.xsd'))
        elif kind == 'same-text':
            # the same relative text names a missing file next to main.xsd (a dangling include: only a warning) and an existing file next to
            # sub/part.xsd; a location is what it resolves to from the including document, not its spelling
            d = os.path.join(root, f'{ver}_{kind}_{seed}'); os.makedirs(os.path.join(d, 'sub'))
            half = len(decls) // 2
            open(os.path.join(d, 'sub', 'types.xsd'), 'w').write(HEAD + ''.join(decls[:half]) + '</xs:schema>')
            open(os.path.join(d, 'sub', 'part.xsd'), 'w').write(HEAD + '<xs:include schemaLocation="types.xsd"/>' + ''.join(decls[half:]) + '</xs:schema>')
            incs = ['<xs:include schemaLocation="types.xsd"/>', '<xs:include schemaLocation="sub/part.xsd"/>']
            if seed % 2: incs.reverse()
            open(os.path.join(d, 'main.xsd'), 'w').write(HEAD + ''.join(incs) + '</xs:schema>')
            import warnings
            with warnings.catch_warnings():
                warnings.simplefilter('ignore')
                s = cls(os.path.join(d, 'main.xsd'))
        elif kind == 'nested-base':
            # main.xsd includes sub/a.xsd, which includes its neighbour sub/b.xsd under one of several spellings; the main schema is given as a path, as a path with the base_url
            # option, or as text with the base_url option: a relative location resolves from the document that contains it, whatever base the caller named for the main source
            d = os.path.join(root, f'{ver}_{kind}_{seed}'); os.makedirs(os.path.join(d, 'sub'))
            parts = [decls[i::3] for i in range(3)]
            spell = rng.choice(['b.xsd', './b.xsd', '../sub/b.xsd', os.path.join(d, 'sub', 'b.xsd'), 'file://' + os.path.join(d, 'sub', 'b.xsd'), os.path.join(d, 'sub', '..', 'sub', 'b.xsd'), 'file://' + os.path.join(d, 'sub', '..', 'sub', 'b.xsd')])
            open(os.path.join(d, 'sub', 'b.xsd'), 'w').write(HEAD + ''.join(parts[2]) + '</xs:schema>')
            open(os.path.join(d, 'sub', 'a.xsd'), 'w').write(HEAD + f'<xs:include schemaLocation="{spell}"/>' + ''.join(parts[1]) + '</xs:schema>')
            main = HEAD + '<xs:include schemaLocation="sub/a.xsd"/>' + ''.join(parts[0]) + '</xs:schema>'
            open(os.path.join(d, 'main.xsd'), 'w').write(main)
            how = seed % 3
            s = cls(os.path.join(d, 'main.xsd')) if how == 0 else cls(os.path.join(d, 'main.xsd'), base_url=d) if how == 1 else cls(main, base_url=d)
        elif kind == 'twice': s = cls(HEAD + ''.join(decls) + '</xs:schema>'); s.maps.clear(); s.build()
        elif kind == 'copy':
            s0 = cls(HEAD + ''.join(decls) + '</xs:schema>'); maps = copy.copy(s0.maps); maps.build(); s = maps.validator
        elif kind == 'pickle': s = pickle.loads(pickle.dumps(cls(HEAD + ''.join(decls) + '</xs:schema>')))
        else:
            d = os.path.join(root, f'{ver}_{kind}_{seed}'); os.makedirs(d)
            for ns in ('a', 'b'): open(os.path.join(d, f'{ns}.xsd'), 'w').write(f'<xs:schema {XS} targetNamespace="urn:{ns}"><xs:element name="e{ns}" type="xs:int"/></xs:schema>')
            imps = [f'<xs:import namespace="urn:{ns}" schemaLocation="{ns}.xsd"/>' for ns in ('a', 'b')]; rng.shuffle(imps)
            open(os.path.join(d, 'main.xsd'), 'w').write(HEAD + ''.join(imps) + ''.join(decls) + '</xs:schema>')
            s = cls(os.path.join(d, 'main.xsd'))
        return summary(s)
    except Exception as e:
        return ('EXC', type(e).__name__, str(e)[:160])


def defined_attribute_wildcard(root, open_findings):
    """XSD 1.1 attribute wildcard with notQName="##defined": one document against the same declarations split over two included documents"""
    import xmlschema
    K = 'C09-defined-attribute-wildcard-is-document-scoped'
    H = HEAD; ga = '<xs:attribute name="gattr" type="xs:int"/>'
    el = '<xs:element name="nd"><xs:complexType><xs:anyAttribute notQName="##defined" processContents="lax"/></xs:complexType></xs:element>'
    d = os.path.join(root, 'defined'); os.makedirs(d, exist_ok=True)
    open(os.path.join(d, 'attrs.xsd'), 'w').write(H + ga + '</xs:schema>')
    open(os.path.join(d, 'main.xsd'), 'w').write(H + '<xs:include schemaLocation="attrs.xsd"/>' + el + '</xs:schema>')
    one = xmlschema.XMLSchema11(H + ga + el + '</xs:schema>'); two = xmlschema.XMLSchema11(os.path.join(d, 'main.xsd'))
    probes = ['<t:nd xmlns:t="urn:t" t:gattr="1"/>', '<t:nd xmlns:t="urn:t" xmlns:o="urn:o" o:gattr="1"/>']
    a = [[e.reason for e in one.iter_errors(p)] for p in probes]; b = [[e.reason for e in two.iter_errors(p)] for p in probes]
    fails = []; known = {}
    if a != b:
        if K in open_findings: known[K] = 1
        else: fails.append(dict(case=dict(defined_attr=True), observed=dict(single_document=a, split=b), required='same errors'))
    return result('C09.defined_attribute_wildcard', 'an XSD 1.1 attribute wildcard with notQName="##defined": single document vs the global attribute moved to an included document, 2 probes', 2, fails, exhaustive=True, known=known)


def chameleon_import_orders(root):
    """one chameleon document (no target namespace) included both by a schema of namespace urn:b and by a schema without target namespace; the main schema imports urn:a, urn:b
    and the no-namespace schema in every order: same components, same verdicts"""
    import itertools
    fails = []; n = 0
    for ver in ('1.0', '1.1'):
        d = os.path.join(root, f'cham{ver}'); os.makedirs(d, exist_ok=True)
        open(os.path.join(d, 'common.xsd'), 'w').write(f'<xs:schema {XS}><xs:simpleType name="codeType"><xs:restriction base="xs:string"><xs:maxLength value="3"/></xs:restriction></xs:simpleType></xs:schema>')
        open(os.path.join(d, 'a.xsd'), 'w').write(f'<xs:schema {XS} targetNamespace="urn:a"><xs:element name="ea" type="xs:int"/></xs:schema>')
        open(os.path.join(d, 'b.xsd'), 'w').write(f'<xs:schema {XS} targetNamespace="urn:b" xmlns:b="urn:b"><xs:include schemaLocation="common.xsd"/><xs:element name="eb" type="b:codeType"/></xs:schema>')
        open(os.path.join(d, 'n.xsd'), 'w').write(f'<xs:schema {XS}><xs:include schemaLocation="common.xsd"/><xs:element name="en" type="codeType"/></xs:schema>')
        imps = {'a': '<xs:import namespace="urn:a" schemaLocation="a.xsd"/>', 'b': '<xs:import namespace="urn:b" schemaLocation="b.xsd"/>', 'n': '<xs:import schemaLocation="n.xsd"/>'}
        probes = ['<t:m xmlns:t="urn:t"><en>abc</en></t:m>', '<t:m xmlns:t="urn:t"><en>abcd</en></t:m>', '<t:m xmlns:t="urn:t"><b:eb xmlns:b="urn:b">abcd</b:eb></t:m>', '<t:m xmlns:t="urn:t"><a:ea xmlns:a="urn:a">x</a:ea></t:m>']
        results = {}
        for order in itertools.permutations('abn'):
            n += 1
            open(os.path.join(d, 'main.xsd'), 'w').write(f'<xs:schema {XS} targetNamespace="urn:t">' + ''.join(imps[k] for k in order) +
                                                       '<xs:element name="m"><xs:complexType><xs:sequence><xs:any namespace="##any" processContents="strict" maxOccurs="unbounded"/></xs:sequence></xs:complexType></xs:element></xs:schema>')
            try:
                sch = _cls(ver)(os.path.join(d, 'main.xsd'))
                results[order] = (sorted((type(c).__name__, c.name) for c in sch.maps.iter_globals() if c.name and not c.name.startswith('{http://www.w3.org/')), [[e.reason for e in sch.iter_errors(p)] for p in probes])
            except Exception as e: results[order] = ('EXC', type(e).__name__, str(e)[:100])
        ref = results[('n', 'b', 'a')]
        if ref[0] == 'EXC': raise RuntimeError(f'harness: the reference arrangement does not build: {ref}')
        for order, r in results.items():
            if r != ref: fails.append(dict(case=dict(chameleon=True, ver=ver, order=''.join(order)), observed=str(r)[:300], required='same global components and verdicts as with the imports in the order n, b, a'))
    # an xs:import without schemaLocation in an imported document, satisfied by another import of the main schema - listed before or after it
    for ver in ('1.0', '1.1'):
        d = os.path.join(root, f'noloc{ver}'); os.makedirs(d, exist_ok=True)
        open(os.path.join(d, 'c.xsd'), 'w').write(f'<xs:schema {XS} targetNamespace="urn:c"><xs:simpleType name="Code"><xs:restriction base="xs:string"><xs:maxLength value="3"/></xs:restriction></xs:simpleType></xs:schema>')
        open(os.path.join(d, 'b.xsd'), 'w').write(f'<xs:schema {XS} targetNamespace="urn:b" xmlns:c="urn:c"><xs:import namespace="urn:c"/><xs:element name="eb" type="c:Code"/></xs:schema>')
        imps = {'b': '<xs:import namespace="urn:b" schemaLocation="b.xsd"/>', 'c': '<xs:import namespace="urn:c" schemaLocation="c.xsd"/>'}
        probes = ['<t:m xmlns:t="urn:t"><b:eb xmlns:b="urn:b">abc</b:eb></t:m>', '<t:m xmlns:t="urn:t"><b:eb xmlns:b="urn:b">abcd</b:eb></t:m>']
        results = {}
        for order in ('bc', 'cb'):
            n += 1
            open(os.path.join(d, 'main.xsd'), 'w').write(f'<xs:schema {XS} targetNamespace="urn:t">' + ''.join(imps[k] for k in order) +
                                                       '<xs:element name="m"><xs:complexType><xs:sequence><xs:any namespace="##other" processContents="strict" maxOccurs="unbounded"/></xs:sequence></xs:complexType></xs:element></xs:schema>')
            try:
                sch = _cls(ver)(os.path.join(d, 'main.xsd'))
                results[order] = (sorted((type(c).__name__, c.name) for c in sch.maps.iter_globals() if c.name and not c.name.startswith('{http://www.w3.org/')), [[e.reason for e in sch.iter_errors(p)] for p in probes])
            except Exception as e: results[order] = ('EXC', type(e).__name__, str(e)[:100])
        if results['cb'][0] == 'EXC': raise RuntimeError(f'harness: the reference arrangement does not build: {results["cb"]}')
        if results['bc'] != results['cb']: fails.append(dict(case=dict(chameleon=True, ver=ver, order='locationless-import:bc'), observed=str(results['bc'])[:300], required='same global components and verdicts as with urn:c imported first'))
    return result('C09.chameleon_import_orders', 'a chameleon document included by a namespaced and by a no-namespace schema; the three imports of the main schema in all 6 orders x 2 classes x 4 probes', n, fails, exhaustive=True)


def override_layouts(root):
    """XSD 1.1 xs:override: the overridden declarations are replaced wherever they live in the overridden document or in the documents it includes (Structures 4.2.5): moving
    a declaration from the overridden document into a document it includes does not change the schema"""
    import xmlschema
    H = f'<xs:schema {XS} targetNamespace="urn:t" xmlns:t="urn:t" elementFormDefault="qualified">'
    decl = {'code': '<xs:element name="code" type="xs:string"/>', 'Size': '<xs:simpleType name="Size"><xs:restriction base="xs:int"><xs:maxInclusive value="10"/></xs:restriction></xs:simpleType>',
            'size': '<xs:element name="size" type="t:Size"/>', 'G': '<xs:attributeGroup name="G"><xs:attribute name="a" type="xs:int"/></xs:attributeGroup>'}
    over = ('<xs:element name="code" type="xs:int"/><xs:simpleType name="Size"><xs:restriction base="xs:int"><xs:maxInclusive value="100"/></xs:restriction></xs:simpleType>'
            '<xs:attributeGroup name="G"><xs:attribute name="a" type="xs:boolean"/></xs:attributeGroup>')
    rootdecl = '<xs:element name="r"><xs:complexType><xs:sequence><xs:element ref="t:code"/><xs:element ref="t:size"/></xs:sequence><xs:attributeGroup ref="t:G"/></xs:complexType></xs:element>'
    probes = ['<t:r xmlns:t="urn:t" a="true"><t:code>5</t:code><t:size>50</t:size></t:r>', '<t:r xmlns:t="urn:t" a="1"><t:code>x</t:code><t:size>500</t:size></t:r>', '<t:r xmlns:t="urn:t" a="7"><t:code>5</t:code><t:size>5</t:size></t:r>']
    fails = []; n = 0; out = {}
    for layout, inner in (('flat', []), ('code-included', ['code']), ('all-included', ['code', 'Size', 'size', 'G']), ('two-levels', ['code', 'G'])):
        n += 1
        d = os.path.join(root, f'override_{layout}'); os.makedirs(d)
        if layout == 'two-levels':
            open(os.path.join(d, 'inner2.xsd'), 'w').write(H + decl['code'] + '</xs:schema>')
            open(os.path.join(d, 'inner.xsd'), 'w').write(H + '<xs:include schemaLocation="inner2.xsd"/>' + decl['G'] + '</xs:schema>')
        elif inner: open(os.path.join(d, 'inner.xsd'), 'w').write(H + ''.join(decl[k] for k in inner) + '</xs:schema>')
        open(os.path.join(d, 'target.xsd'), 'w').write(H + ('<xs:include schemaLocation="inner.xsd"/>' if inner else '') + ''.join(v for k, v in decl.items() if k not in inner) + rootdecl + '</xs:schema>')
        open(os.path.join(d, 'main.xsd'), 'w').write(H + f'<xs:override schemaLocation="target.xsd">{over}</xs:override></xs:schema>')
        try:
            s = xmlschema.XMLSchema11(os.path.join(d, 'main.xsd'))
            out[layout] = (sorted((type(c).__name__, c.name, getattr(getattr(c, 'type', None), 'name', None)) for c in s.maps.iter_globals() if c.name and c.name.startswith('{urn:t}')),
                           [([e.reason[:60] for e in s.iter_errors(p)], repr(s.decode(p, validation='lax')[0])) for p in probes])
        except Exception as e: out[layout] = ('EXC', type(e).__name__, str(e)[:120])
    if out['flat'] and out['flat'][0] == 'EXC': raise RuntimeError(f'the reference layout does not build: {out["flat"]}')
    if out['flat'][1][0][0]: raise RuntimeError('the override is not applied in the reference layout (the first probe is valid only with the overriding declarations)')
    for layout, got in out.items():
        if got != out['flat']: fails.append(dict(case=dict(override_layout=layout), observed=got if got[0] == 'EXC' else ('globals differ' if got[0] != out['flat'][0] else 'probe results differ: ' + str(got[1][0])[:120]),
                                                 required='the same schema as with every overridden declaration in the overridden document itself'))
    return result('C09.override_reaches_included_documents', '4 layouts of an XSD 1.1 override (the overridden element / type / attribute group in the overridden document, in a document it includes, two levels down) x 3 probes', n, fails, exhaustive=True)


VC_SCHEMA = '''<xs:schema xmlns:xs="http://www.w3.org/2001/XMLSchema" xmlns:vc="http://www.w3.org/2007/XMLSchema-versioning">
  <xs:element name="stamp" type="xs:dateTimeStamp" vc:typeAvailable="xs:dateTimeStamp"/>
  <xs:element name="stamp" type="xs:string" vc:typeUnavailable="xs:dateTimeStamp"/>
  <xs:element name="n" type="xs:int" vc:typeAvailable="xs:int xs:string"/>
  <xs:element name="n" type="xs:boolean" vc:typeUnavailable="xs:int"/>
  <xs:element name="later" type="xs:int" vc:minVersion="1.1"/><xs:element name="later" type="xs:boolean" vc:maxVersion="1.1"/>
  <xs:element name="plain" type="xs:date"/>
</xs:schema>'''
_FRESH = '''import sys, json, xmlschema
ver, text = sys.argv[1], sys.stdin.read()
cls = xmlschema.XMLSchema11 if ver == '1.1' else xmlschema.XMLSchema10
def summary(s):
    probes = ['<stamp>2020-01-01T00:00:00Z</stamp>', '<stamp>text</stamp>', '<n>5</n>', '<n>true</n>', '<later>1</later>', '<later>true</later>', '<plain>2020-01-01</plain>']
    return [sorted([type(c).__name__, c.name, getattr(getattr(c, 'type', None), 'name', None)] for c in s.maps.iter_globals() if c.name and not c.name.startswith('{')),
            [[[e.reason[:60] for e in s.iter_errors(p)], repr(s.decode(p, validation='lax')[0])] for p in probes]]
out = []
for _ in range(2):
    try: out.append(summary(cls(text)))
    except Exception as e: out.append(['EXC', type(e).__name__, str(e)[:100]])
print(json.dumps(out))
'''


def first_build_in_a_fresh_interpreter():
    """the first schema an interpreter builds (the meta-schema of its class not built yet) against the second build of the same source in that interpreter: conditional inclusion
    (vc:typeAvailable / vc:typeUnavailable / vc:minVersion / vc:maxVersion) consults the maps before they are built"""
    import subprocess, json as _json
    fails = []; n = 0
    env = dict(os.environ, PYTHONPATH=os.environ.get('VERIF_REPO', '/repo'))
    for ver in ('1.0', '1.1'):
        n += 1
        p = subprocess.run([sys.executable, '-c', _FRESH, ver], input=VC_SCHEMA, capture_output=True, text=True, env=env, timeout=300)
        if p.returncode: raise RuntimeError('fresh interpreter failed: ' + p.stderr[-300:])
        first, second = _json.loads(p.stdout.strip().splitlines()[-1])
        if first and first[0] == 'EXC' and second and second[0] == 'EXC': raise RuntimeError(f'the conditional-inclusion schema does not build: {first}')
        stamp = [g for g in second[0] if g[1] == 'stamp']
        if ver == '1.1' and (not stamp or 'dateTimeStamp' not in str(stamp[0][2])): raise RuntimeError(f'vc:typeAvailable is not honoured in the reference build: {stamp}')
        if first != second:
            fails.append(dict(case=dict(fresh_interpreter=ver), observed=dict(first_build=first[0] if first[0] != second[0] else first[1], second_build=second[0] if first[0] != second[0] else second[1]),
                              required='the first build of a source in an interpreter gives the same components, errors and data as the second'))
    return result('C09.first_build_in_a_fresh_interpreter', 'a schema with vc:typeAvailable / vc:typeUnavailable / vc:minVersion / vc:maxVersion alternatives built twice as the first two schemas of a new interpreter, both classes, 7 probes', n, fails, exhaustive=True)


def run(tier, seed, open_findings):
    root = tempfile.mkdtemp(prefix='verif_c09_')
    try:
        n = 120 if tier == 'thorough' else 3
        jobs = [(ver, kind, seed * 100 + i, root) for ver in ('1.0', '1.1') for kind in KINDS for i in range(n)]
        refs = {ver: summary(_cls(ver)(HEADS[ver] + ''.join(decls_for(ver)) + '</xs:schema>')) for ver in ('1.0', '1.1')}
        res = pmap(eval_arrangement, jobs, chunk=1)
        fails = []
        for (ver, kind, sd, _), got in zip(jobs, res):
            if got != refs[ver]:
                diff = got if got and got[0] == 'EXC' else ('globals differ' if got[0] != refs[ver][0] else 'probe results differ')
                fails.append(dict(case=dict(ver=ver, kind=kind, seed=sd), observed=diff, required='same global components, errors and data as the reference arrangement'))
        return [first_build_in_a_fresh_interpreter(), override_layouts(root), chameleon_import_orders(root), defined_attribute_wildcard(root, open_findings), result('C09.arrangements', f'{len(jobs)} arrangements ({", ".join(KINDS)}) x {len(PROBES)} probe instances, both classes', len(jobs) * len(PROBES), fails,
                       samples=[dict(kind='spell', note='the same file included twice under two spellings')], distinct=len(jobs))]
    finally:
        shutil.rmtree(root, ignore_errors=True)


def replay(check_name, case):
    root = tempfile.mkdtemp(prefix='verif_c09_')
    try:
        if case.get('fresh_interpreter'):
            r = first_build_in_a_fresh_interpreter(); mine = [f for f in r['failures'] if f['case'] == case]; return dict(ok=not mine, observed=mine[:1], required='first build equals second build')
        if case.get('override_layout'):
            r = override_layouts(root); mine = [f for f in r['failures'] if f['case'] == case]; return dict(ok=not mine, observed=mine[:1], required='same schema in every layout')
        if case.get('chameleon'):
            r = chameleon_import_orders(root); mine = [f for f in r['failures'] if f['case'] == case]; return dict(ok=not mine, observed=mine[:1], required='same components in every import order')
        if case.get('defined_attr'):
            r = defined_attribute_wildcard(root, {}); return dict(ok=not r['failures'], observed=r['failures'][:1], required='same errors')
        got = eval_arrangement((case['ver'], case['kind'], case['seed'], root))
        ref = summary(_cls(case['ver'])(HEADS[case['ver']] + ''.join(decls_for(case['ver'])) + '</xs:schema>'))
        return dict(ok=got == ref, observed=got if got and got[0] == 'EXC' else 'summary compared', required='same as the reference arrangement')
    finally:
        shutil.rmtree(root, ignore_errors=True)
