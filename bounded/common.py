"""Shared helpers for bounded (B) checks: process pool, known-instance files, result records."""
import json, multiprocessing as mp, os, time, warnings

HERE = os.path.dirname(os.path.dirname(os.path.abspath(__file__)))
warnings.simplefilter('ignore')


def pmap(fn, items, procs=16, chunk=None):
    items = list(items)
    if not items: return []
    if len(items) < 32 or procs == 1: return [fn(x) for x in items]
    ctx = mp.get_context('fork')
    with ctx.Pool(min(procs, os.cpu_count() or 1)) as pool:
        return pool.map(fn, items, chunksize=chunk or max(1, len(items) // (procs * 8)))


def load_instances(name):
    p = os.path.join(HERE, 'baseline', name)
    return json.load(open(p)) if os.path.exists(p) else {}


def result(name, scope, cases, failures, exhaustive=False, known=None, samples=None, notes=None, distinct=None, reported=None):
    r = dict(name=name, scope=scope, cases=cases, failures=failures, exhaustive=exhaustive, known=known or {}, samples=samples or [],
             distinct=distinct if distinct is not None else cases)
    if notes: r['notes'] = notes
    if reported: r['reported'] = reported
    return r


def part(items, tier, seed, k):
    """quick: every k-th item of a fixed enumeration, the residue chosen by the seed; thorough: all."""
    items = list(items)
    if tier == 'thorough' or k <= 1: return items, True
    # a multiplicative hash of the index, not the index itself: plain strides alias with the nesting of product enumerations
    r = seed % k
    return [x for i, x in enumerate(items) if ((i * 2654435761 + 12345) >> 7) % k == r], False
