"""C01, XSD 1.1-only content models (labelled bounded): xs:all groups whose particles repeat, and open content.

all groups: the children of an XSD 1.1 all group are element particles with any occurrence range (and at most one wildcard here); a child sequence is a word iff every
declared name occurs within its range - in any order, occurrences need not be adjacent - and every other child is admitted by the wildcard, within the wildcard's range.

open content: a child sequence is a word iff it can be split into a subsequence that is a word of the declared content model and a rest of children that the open
content wildcard admits - anywhere (interleave) or only after the last child of the model (suffix).  The wildcard used here admits the foreign element x only
(namespace ##other), so no child can go either way and the priority of declarations over wildcards plays no part.  defaultOpenContent is the same with the
declaration at schema level (appliesToEmpty on and off for the empty model).
"""
import itertools
from .common import pmap, result, part, load_instances
from . import cm
XS = cm.XS
WORDS = None


def words(n):
    return [''.join(t) for k in range(n + 1) for t in itertools.product('abcx', repeat=k)]


# ---------------------------------------------------------------- all groups
def all_models():
    occs = [(1, 1), (0, 1), (2, 2), (0, 2), (1, 3), (2, 3), (0, None), (1, None)]
    out = []
    for oa, ob in itertools.product(occs, repeat=2):
        for wc in (None, (0, 1), (1, 2), (0, None)):
            for go in ((1, 1), (0, 1)):
                out.append((oa, ob, wc, go))
    return out


def all_in_language(spec, w):
    oa, ob, wc, go = spec
    if w == '' and go[0] == 0: return True
    cnt = {c: w.count(c) for c in 'abcx'}
    ok = lambda n, o: o[0] <= n and (o[1] is None or n <= o[1])
    if cnt['c']: return False
    if not ok(cnt['a'], oa) or not ok(cnt['b'], ob): return False
    if wc is None: return cnt['x'] == 0
    return ok(cnt['x'], wc)


def all_schema(spec):
    oa, ob, wc, go = spec
    w = f'<xs:any namespace="##other" processContents="skip"{cm.occ_attr(wc)}/>' if wc else ''
    return f'<xs:schema {XS}><xs:element name="r"><xs:complexType><xs:all{cm.occ_attr(go)}><xs:element name="a"{cm.occ_attr(oa)}/><xs:element name="b"{cm.occ_attr(ob)}/>{w}</xs:all></xs:complexType></xs:element></xs:schema>'


def all_eval(spec):
    import xmlschema
    try: s = xmlschema.XMLSchema11(all_schema(spec))
    except xmlschema.XMLSchemaException as e: return dict(spec=spec, mismatches=[['<build>', type(e).__name__]])
    mism = []
    for w in (WORDS5 if _TIER[0] == 'thorough' else WORDS4):
        exp = all_in_language(spec, w)
        try:
            errs = list(s.iter_errors(cm.doc(w))); got = not errs
        except Exception as e: got = 'raised ' + type(e).__name__; errs = []
        if got != exp: mism.append([w, got])
        elif got is False and not any(e.path == '/r' for e in errs): mism.append([w, 'rejected without an error located at /r'])
    return dict(spec=spec, mismatches=mism) if mism else None


WORDS5 = [w for w in words(5)]
WORDS4 = [w for w in words(4)]


# ---------------------------------------------------------------- open content
def oc_models():
    flat = [('seq', [('e', 'a', (1, 1)), ('e', 'b', (0, 1)), ('e', 'c', (1, 2))], (1, 1)), ('seq', [('e', 'a', (0, 1)), ('e', 'b', (1, 1))], (1, 1)),
            ('cho', [('e', 'a', (1, 1)), ('e', 'b', (1, 2))], (1, 1)), ('seq', [('e', 'a', (0, None))], (1, 1)), ('all', [('e', 'a', (1, 1)), ('e', 'b', (0, 1))], (1, 1)),
            ('seq', [], (1, 1))]
    nested = [('seq', [('e', 'a', (0, 1)), ('seq', [('e', 'b', (1, 1)), ('e', 'c', (1, 1))], (0, None)), ('e', 'c', (0, 1))], (1, 1)),
              ('seq', [('cho', [('e', 'a', (1, 1)), ('e', 'b', (1, 1))], (1, 2)), ('e', 'c', (0, 1))], (1, 1)),
              ('cho', [('seq', [('e', 'a', (1, 1)), ('e', 'b', (1, 1))], (1, 1)), ('e', 'c', (1, None))], (0, 1))]
    out = []
    for m in flat + nested:
        for mode in ('interleave', 'suffix', 'none'):
            for where in ('local', 'default', 'default-applies-to-empty'):
                out.append((m, mode, where))
    # a wildcard that also admits the declared names (##any): a child beyond what the model can take goes to the open content
    for m in flat + nested:
        for mode in ('interleave', 'suffix'): out.append((m, mode, 'local-any'))
    return out


def oc_in_language(spec, w):
    m, mode, where = spec
    empty_model = m[0] == 'seq' and not m[1]
    applies = mode != 'none' and not (where == 'default' and empty_model)
    if not applies: return cm.in_language(m, w)
    idx = [i for i, c in enumerate(w) if c == 'x' or where == 'local-any']
    for k in range(len(idx) + 1):
        for drop in itertools.combinations(idx, k):
            rest = ''.join(c for i, c in enumerate(w) if i not in drop)
            if mode == 'suffix' and drop and sorted(drop) != list(range(len(w) - len(drop), len(w))): continue
            if cm.in_language(m, rest): return True
    return False


def oc_schema(spec):
    m, mode, where = spec
    any_ = '<xs:any namespace="##other" processContents="skip"/>' if where != 'local-any' else '<xs:any namespace="##any" processContents="skip"/>'
    body = cm.xsd(m) if not (m[0] == 'seq' and not m[1]) else ''
    if where in ('local', 'local-any'):
        oc = f'<xs:openContent mode="{mode}">{any_ if mode != "none" else ""}</xs:openContent>'
        return f'<xs:schema {XS}><xs:element name="r"><xs:complexType>{oc}{body}</xs:complexType></xs:element></xs:schema>'
    if mode == 'none': return f'<xs:schema {XS}><xs:element name="r"><xs:complexType>{body}</xs:complexType></xs:element></xs:schema>'
    ate = ' appliesToEmpty="true"' if where.endswith('empty') else ''
    return f'<xs:schema {XS}><xs:defaultOpenContent mode="{mode}"{ate}>{any_}</xs:defaultOpenContent><xs:element name="r"><xs:complexType>{body}</xs:complexType></xs:element></xs:schema>'


def oc_eval(spec):
    import xmlschema
    try: s = xmlschema.XMLSchema11(oc_schema(spec))
    except xmlschema.XMLSchemaException as e: return dict(spec=spec, mismatches=[['<build>', type(e).__name__ + ': ' + str(e)[:80]]])
    mism = []
    for w in WORDS5:
        exp = oc_in_language(spec, w)
        try: got = s.is_valid(cm.doc(w))
        except Exception as e: got = 'raised ' + type(e).__name__
        if got != exp: mism.append([w, got])
    return dict(spec=spec, mismatches=mism) if mism else None


def show_oc(spec): return f'{cm.show(spec[0])} openContent {spec[1]} ({spec[2]})'


_TIER = ['quick']


def eval_wild_subst(args):
    """XSD 1.1: a wildcard that precedes a reference to the head of a substitution group and admits a MEMBER's name (not the head's): the member in place of the head is
    attributed to the head particle (element particles win over the wildcard), so extra* followed by the head or by a member is a word of the model.  Judged on the words
    where the greedy and the language reading agree: one head-or-member occurrence, in last position."""
    variant, shape = args
    import xmlschema
    T = 'urn:t'
    if variant == 'notQName': wc = '<xs:any notQName="t:head" processContents="lax" minOccurs="0" maxOccurs="unbounded"/>'; member_ns = T; imp = ''; extra_decl = '<xs:element name="member" type="xs:int" substitutionGroup="t:head"/>'
    else: wc = '<xs:any namespace="##other" processContents="lax" minOccurs="0" maxOccurs="unbounded"/>'; member_ns = 'urn:m'; imp = '<xs:import namespace="urn:m"/>'; extra_decl = ''
    body = {'seq': f'<xs:sequence>{wc}<xs:element ref="t:head"/></xs:sequence>', 'nested': f'<xs:sequence><xs:sequence>{wc}</xs:sequence><xs:element ref="t:head"/></xs:sequence>'}[shape]
    main = (f'<xs:schema xmlns:xs="http://www.w3.org/2001/XMLSchema" targetNamespace="{T}" xmlns:t="{T}" elementFormDefault="qualified">{imp}<xs:element name="head" type="xs:decimal"/>{extra_decl}'
            f'<xs:element name="root"><xs:complexType>{body}</xs:complexType></xs:element></xs:schema>')
    srcs = [main]
    if variant != 'notQName':
        srcs.append(f'<xs:schema xmlns:xs="http://www.w3.org/2001/XMLSchema" targetNamespace="urn:m" xmlns:t="{T}"><xs:import namespace="{T}"/><xs:element name="member" type="xs:int" substitutionGroup="t:head"/></xs:schema>')
    s = xmlschema.XMLSchema11(srcs if len(srcs) > 1 else main)
    el = {'h': '<t:head>1.5</t:head>', 'm': f'<m:member xmlns:m="{member_ns}">7</m:member>', 'x': '<o:extra xmlns:o="urn:o"/>'}
    bad = []; n = 0
    import itertools
    for k in range(0, 4):
        for w in itertools.product('hmx', repeat=k):
            hm = [c for c in w if c in 'hm']
            if len(hm) > 1 or (hm and w[-1] not in 'hm'): continue       # (more than one, or followed by something: the two readings of the priority rule differ or both reject - left to the competition family)
            n += 1; exp = len(hm) == 1
            doc = f'<t:root xmlns:t="{T}">' + ''.join(el[c] for c in w) + '</t:root>'
            try: got = s.is_valid(doc)
            except Exception as e: got = 'raised ' + type(e).__name__
            if got != exp: bad.append((''.join(w), got, exp))
    return dict(args=list(args), cases=n, bad=bad)


def check_wild_subst():
    res = [eval_wild_subst((v, sh)) for v in ('notQName', 'other-namespace') for sh in ('seq', 'nested')]
    return result('C01.xsd11_wildcard_before_a_substitution_head', '4 XSD 1.1 models: a repeating wildcard that admits the name of a substitution member (by notQName of the head / by ##other with the member in another namespace) before a reference to the head, flat and nested x words <= 3 over head / member / extra',
                  sum(r['cases'] for r in res), [dict(case=dict(xsd11=True, wild_subst=r['args'], word=b[0]), observed=dict(valid=b[1]), required=dict(valid=b[2])) for r in res for b in r['bad']], exhaustive=True)


def run(tier, seed, open_findings):
    _TIER[0] = tier
    out = []
    models = all_models(); res = pmap(all_eval, models, chunk=2)
    K1 = 'C01-xsd11-all-group-occurrences'; listed = load_instances('C01_xsd11_all_instances.json') if K1 in open_findings else {}
    fails = []; nk = 0
    for r in res:
        if not r: continue
        key = repr(tuple(r['spec']))
        if listed.get(key) == r['mismatches']: nk += 1; continue
        fails.append(dict(case=dict(xsd11='all', spec=r['spec']), observed=dict(mismatches=r['mismatches'][:6]), required='is_valid(doc(w)) <=> every declared name within its range, the rest admitted by the wildcard; a rejection is located at /r'))
    out.append(result('C01.xsd11_all_groups', f'{len(models)} XSD 1.1 all groups (a and b with 8 occurrence ranges each, no / optional / repeating ##other wildcard, the group itself optional or not) x all words over a, b, c, x up to length {5 if tier == "thorough" else 4}',
                      len(models) * len(WORDS5 if tier == 'thorough' else WORDS4), fails, exhaustive=True, known=({K1: nk} if nk else {}), samples=[dict(model='all(a{2,3}, b?)', word='aba')], distinct=len(models)))
    models = oc_models(); res = pmap(oc_eval, models, chunk=1)
    K2 = 'C01-xsd11-open-content'; listed = load_instances('C01_xsd11_open_instances.json') if K2 in open_findings else {}
    fails = []; nk = 0
    for r in res:
        if not r: continue
        key = show_oc(r['spec'])
        if listed.get(key) == r['mismatches']: nk += 1; continue
        fails.append(dict(case=dict(xsd11='open', spec=r['spec']), model=key, observed=dict(mismatches=r['mismatches'][:6]), required='is_valid(doc(w)) <=> w splits into a word of the model and children admitted by the open content wildcard (anywhere / as a suffix)'))
    out.append(result('C01.xsd11_open_content', f'{len(models)} (model, mode, local / default / default with appliesToEmpty) with a ##other open content wildcard x {len(WORDS5)} words, XMLSchema11',
                      len(models) * len(WORDS5), fails, exhaustive=True, known=({K2: nk} if nk else {}), samples=[dict(model='(a,b?,c{1,2}) interleave', word='xaxcx')], distinct=len(models)))
    out.append(check_wild_subst())
    return out


def _t(m):
    if m[0] in ('e', 'w'): return (m[0], m[1], tuple(m[2]))
    return (m[0], [_t(c) for c in m[1]], tuple(m[2]))


def replay(check_name, case):
    if case.get('wild_subst'):
        r = eval_wild_subst(tuple(case['wild_subst'])); mine = [b for b in r['bad'] if b[0] == case['word']]; return dict(ok=not mine, observed=mine[:1], required='extra* then the head or a member')
    if case['xsd11'] == 'all':
        sp = case['spec']; spec = (tuple(sp[0]), tuple(sp[1]), tuple(sp[2]) if sp[2] else None, tuple(sp[3]))
        r = all_eval(spec)
    else:
        sp = case['spec']; r = oc_eval((_t(sp[0]), sp[1], sp[2]))
    return dict(ok=not r, observed=r and r['mismatches'][:8], required='is_valid(doc(w)) <=> w in L(m)')
