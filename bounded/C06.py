"""C06 bounded run-time contract (labelled bounded): lazy (streaming, depth 1) processing = full loading.

For generated documents (0-1 injected faults, ID/IDREF and key/keyref spanning the streamed chunks): iter_errors through
XMLResource(lazy=1) gives the same verdict and the same errors in the same order as the loaded document; lax decode gives the same
data (lazy data materialised: every pruned subtree is represented by a generator placeholder); iterating the lazy resource yields the
same (tag, text, in-scope namespaces) stream; thin_lazy on and off.  Depth 2 is explored and reported only.
"""
import types, random
from .common import pmap, result
from .C01 import _cls
from . import docgen
_S = {}
XS = 'xmlns:xs="http://www.w3.org/2001/XMLSchema"'
# second template: the children of the root are LOCAL declarations that share their names with global elements of other types, a group
# reference and a substitution member - the declaration governing a streamed chunk must be the one full loading uses
SCHEMA2 = f'''<xs:schema {XS} elementFormDefault="qualified" targetNamespace="urn:t" xmlns:t="urn:t">
 <xs:element name="code" type="xs:int"/><xs:element name="label" type="xs:date"/>
 <xs:element name="head" type="xs:token"/><xs:element name="member" type="xs:NCName" substitutionGroup="t:head"/>
 <xs:element name="r"><xs:complexType><xs:sequence>
   <xs:element name="code" maxOccurs="unbounded"><xs:simpleType><xs:restriction base="xs:string"><xs:pattern value="[A-Z]{{2}}[0-9]*"/></xs:restriction></xs:simpleType></xs:element>
   <xs:element name="label" type="xs:string" minOccurs="0" maxOccurs="unbounded"/>
   <xs:element ref="t:head" minOccurs="0" maxOccurs="unbounded"/>
 </xs:sequence></xs:complexType></xs:element></xs:schema>'''


# third template: QName-valued content and attributes; prefixes are declared on the root, on a chunk, or below it
SCHEMA3 = f'''<xs:schema {XS}><xs:element name="r"><xs:complexType><xs:sequence>
 <xs:element name="q" maxOccurs="unbounded"><xs:complexType><xs:sequence><xs:element name="n" type="xs:QName" minOccurs="0" maxOccurs="unbounded"/></xs:sequence>
  <xs:attribute name="a" type="xs:QName"/></xs:complexType></xs:element></xs:sequence></xs:complexType></xs:element></xs:schema>'''


# fourth template: children of two names in any order (a choice that repeats): the decoded dictionary groups them by name
SCHEMA4 = f'''<xs:schema {XS}><xs:element name="r"><xs:complexType><xs:choice maxOccurs="unbounded"><xs:element name="a" type="xs:int"/><xs:element name="b" type="xs:string"/></xs:choice></xs:complexType></xs:element></xs:schema>'''


def gen4(rng):
    return '<r>' + ''.join(rng.choice([f'<a>{rng.randrange(9)}</a>', f'<b>{rng.choice("xyz")}</b>', '<a>bad</a>']) for _ in range(rng.randrange(1, 6))) + '</r>'


def gen3(rng):
    def decl(): return rng.choice(['', '', ' xmlns:p="urn:p"', ' xmlns:q="urn:q"', ' xmlns:p="urn:other"'])
    def qn(): return rng.choice(['p:x', 'q:y', 'z', 'p:w'])
    chunks = []
    for _ in range(rng.randrange(1, 4)):
        ns_ = ''.join(f'<n{decl()}>{qn()}</n>' for _ in range(rng.randrange(0, 3)))
        chunks.append(f'<q{decl()}' + (f' a="{qn()}"' if rng.random() < .6 else '') + f'>{ns_}</q>')
    return f'<r{decl()}>' + ''.join(chunks) + '</r>'


def gen2(rng):
    parts = [f'<t:code>{rng.choice(["AB12", "XY", "12", "ab1"])}</t:code>' for _ in range(rng.randrange(1, 4))]
    parts += [f'<t:label>{rng.choice(["hello", "2020-01-01", ""])}</t:label>' for _ in range(rng.randrange(0, 3))]
    parts += [rng.choice(['<t:head>tok en</t:head>', '<t:member>nc</t:member>', '<t:member>1 bad</t:member>']) for _ in range(rng.randrange(0, 3))]
    return '<t:r xmlns:t="urn:t">' + ''.join(parts) + '</t:r>'


def stream(res):
    out = []
    for e in res.iter():
        out.append((e.tag, (e.text or '').strip(), tuple(sorted(res.get_nsmap(e).items())) if hasattr(res, 'get_nsmap') else ()))
    return out


def eval_doc(args):
    ver, doc = args[:2]; which = args[2] if len(args) > 2 else 1
    import xmlschema
    s = _S.get((ver, which)) or _S.setdefault((ver, which), _cls(ver)({1: docgen.schema_for(ver), 2: SCHEMA2, 3: SCHEMA3, 4: SCHEMA4}[which]))
    problems = []; reported = []
    try:
        e0 = [(e.reason, type(e).__name__) for e in s.iter_errors(doc)]
        for thin in (True, False):
            lerrs = list(s.iter_errors(xmlschema.XMLResource(doc, lazy=1, thin_lazy=thin)))
            e1 = [(e.reason, type(e).__name__) for e in lerrs]
            # every error of a lazy run keeps a path (read after the run, when the stream has moved on)
            if any(e.path is None for e in lerrs if e.reason and 'IDREF' not in e.reason and 'not found for' not in e.reason): problems.append(f'an error of the lazy run (thin_lazy={thin}) has no path once the run is over')
            if bool(e0) != bool(e1): problems.append(f'verdict differs (thin_lazy={thin}): eager {len(e0)} errors, lazy {len(e1)}')
            elif e0 != e1: problems.append(f'errors differ (thin_lazy={thin}): eager {e0[:2]} lazy {e1[:2]}')
        d0 = s.decode(doc, validation='lax')[0]
        d1 = docgen.materialise(s.decode(xmlschema.XMLResource(doc, lazy=1), validation='lax')[0])
        if d0 != d1:
            def strip(d, lvl=0):
                if isinstance(d, dict):
                    x = {k: strip(v, lvl + 1) for k, v in d.items() if not (lvl >= 1 and k.startswith('@xmlns'))}
                    return x['$'] if lvl >= 1 and set(x) == {'$'} else x
                if isinstance(d, list): return [strip(v, lvl) for v in d]
                return d
            def leaves(d): return sorted(repr(x) for x in ([v for vs in d.values() for v in (vs if isinstance(vs, list) else [vs])] if isinstance(d, dict) else [d]))
            if strip(d0) == strip(d1): reported.append('KNOWN:C06-lazy-decode-drops-nested-xmlns')
            # listed finding: every pruned child is the SAME generator, which yields the children in document order; a dictionary groups them by name, so the values
            # land under the wrong keys as soon as the names interleave (same values, same shape)
            elif which == 4 and isinstance(d0, dict) and isinstance(d1, dict) and list(d0) == list(d1) and all(len(d0[k]) == len(d1[k]) for k in d0) and leaves(d0) == leaves(d1):
                reported.append('KNOWN:C06-lazy-decode-placeholders-lose-document-order')
            else: problems.append(f'data differs: {str(d0)[:80]} vs {str(d1)[:80]}')
        # the other validation modes, the placeholders consumed: a strict decode raises for the lazy resource iff it raises for the loaded one; a skip decode reports no error
        # and keeps the raw text of undecodable values in both
        def outcome(src, mode):
            try: d = s.decode(src, validation=mode)
            except xmlschema.XMLSchemaValidationError: return 'raised', None
            errs = []
            def mat(x):
                if isinstance(x, types.GeneratorType):
                    for item in x:          # every placeholder is the same generator: one decoded chunk (after its errors) per placeholder, in document order
                        if isinstance(item, xmlschema.XMLSchemaValidationError): errs.append(item)
                        else: return mat(item)
                    return None
                if isinstance(x, dict): return {k: mat(v) for k, v in x.items()}
                if isinstance(x, list): return [mat(v) for v in x]
                return x
            try: d = mat(d)
            except xmlschema.XMLSchemaValidationError: return 'raised', None
            return ('errors-yielded' if errs else 'returned'), d
        for thin in (True, False):
            o0, o1 = outcome(doc, 'strict'), outcome(xmlschema.XMLResource(doc, lazy=1, thin_lazy=thin), 'strict')
            if o0[0] != o1[0]:
                # listed finding: the key references held by the root element are checked when the root is decoded, while its children are still placeholders
                # (spurious failures), and the identity constraints / ID references that span the chunks are not checked at all by the chunk decoder (missed failures)
                ident = lambda r_: any(t_ in r_ for t_ in ('not found for', 'duplicated value', 'IDREF', 'xs:ID', 'missing key field'))
                if which == 1 and ' first="' in doc.split('>', 1)[0] and o0[0] == 'returned' and o1[0] == 'raised' and not e0: reported.append('KNOWN:C06-lazy-decode-checks-root-keyrefs-before-the-chunks')
                elif o0[0] == 'raised' and o1[0] == 'returned' and e0 and all(ident(r_ or '') for r_, _ in e0): reported.append('KNOWN:C06-lazy-decode-checks-root-keyrefs-before-the-chunks')
                else: problems.append(f'strict decode (thin_lazy={thin}): loaded document {o0[0]}, lazy one {o1[0]}')
            k0, k1 = outcome(doc, 'skip'), outcome(xmlschema.XMLResource(doc, lazy=1, thin_lazy=thin), 'skip')
            if k0[0] != k1[0]: problems.append(f'skip decode (thin_lazy={thin}): loaded document {k0[0]}, lazy one {k1[0]}')
            elif k0[1] != k1[1] and which != 4:
                def strip2(d, lvl=0):
                    if isinstance(d, dict):
                        x = {k: strip2(v, lvl + 1) for k, v in d.items() if not (lvl >= 1 and k.startswith('@xmlns'))}
                        return x['$'] if lvl >= 1 and set(x) == {'$'} else x
                    if isinstance(d, list): return [strip2(v, lvl) for v in d]
                    return d
                if strip2(k0[1]) != strip2(k1[1]): problems.append(f'skip decode data differs (thin_lazy={thin}): {str(k0[1])[:80]} vs {str(k1[1])[:80]}')
        full = xmlschema.XMLResource(doc); lazy = xmlschema.XMLResource(doc, lazy=1, thin_lazy=False)
        # the order in which a lazy resource yields the descendants of a chunk is pinned by the test-suite (reverse end order), so the
        # property's "same elements, text and in-scope namespaces" is read as equality of multisets; the order difference is reported only
        if sorted(stream(full)) != sorted(stream(lazy)): problems.append('iteration multiset (tag, text, nsmap) differs')
        elif stream(full) != stream(lazy): reported.append('iteration order differs')
        # iteration at deeper lazy depths: every element is yielded, those above the lazy depth included (multiset of tags; an element above the lazy depth is yielded when it
        # starts, so its text may not have been read yet - text and namespaces at depths beyond 1 are reported only, like the rest of the deeper depths)
        tags0 = sorted(e.tag for e in full.iter())
        for depth in (2, 3):
            for thin in (True, False):
                lz = xmlschema.XMLResource(doc, lazy=depth, thin_lazy=thin)
                if tags0 != sorted(e.tag for e in lz.iter()): problems.append(f'the elements yielded by iter() at lazy depth {depth} (thin_lazy={thin}) are not those of the loaded tree')
        # path-based processing of a lazy resource (the selection runs on the lazy XPath tree, chunk after chunk)
        root_tag = 't:r' if which < 3 else 'r'; child = {1: 't:item', 2: '*', 3: 'q', 4: '*'}[which]; nsm = {'t': 'urn:t'}
        paths = [f'/{root_tag}/{child}']
        if len(doc) < 50000:
            paths.append(child)
            # paths deeper than the lazy depth (the chunk is released when it ends, whatever the depth of the path) and a positional predicate
            if which == 1: paths += ['/t:r/t:item/t:sub', '/t:r/t:item/*', '/t:r/*/t:sub/t:leaf', '/t:r/t:item[2]']
        for pth in paths:
            deep = pth.count('/') > 2; positional = '[' in pth
            sel0 = [(e.tag, (e.text or '').strip(), tuple(sorted(e.attrib.items()))) for e in xmlschema.XMLResource(doc).iterfind(pth, nsm)]
            if not deep: p0 = [(e.reason, type(e).__name__) for e in s.iter_errors(doc, path=pth, namespaces=nsm)]
            for thin in (True, False):
                sel1 = [(e.tag, (e.text or '').strip(), tuple(sorted(e.attrib.items()))) for e in xmlschema.XMLResource(doc, lazy=1, thin_lazy=thin).iterfind(pth, nsm)]
                if sel0 != sel1:
                    if positional and thin and len(sel1) > len(sel0): reported.append('KNOWN:C06-thin-lazy-positional-predicates'); continue
                    problems.append(f'path {pth!r} (thin_lazy={thin}): {len(sel1)} elements selected, {len(sel0)} in the loaded document (or other elements)')
                if deep or positional: continue      # (validation of parts below the chunks is C20's subject, with its listed findings)
                p1 = [(e.reason, type(e).__name__) for e in s.iter_errors(xmlschema.XMLResource(doc, lazy=1, thin_lazy=thin), path=pth, namespaces=nsm)]
                if sorted(p0) != sorted(p1): problems.append(f'path {pth!r} (thin_lazy={thin}): errors differ, eager {len(p0)} lazy {len(p1)}')
        e2 = [(e.reason, type(e).__name__) for e in s.iter_errors(xmlschema.XMLResource(doc, lazy=2))]
        if e2 != e0: reported.append('depth-2 errors differ')
    except Exception as e:
        problems.append(f'raised {type(e).__name__}: {e}')
    return dict(doc=doc, ver=ver, problems=problems, reported=reported)


SCHEMA5 = f'''<xs:schema {XS}><xs:element name="catalog"><xs:complexType><xs:sequence>
 <xs:element name="item" maxOccurs="unbounded"><xs:complexType><xs:attribute name="id" type="xs:string" use="required"/></xs:complexType></xs:element>
 <xs:element name="ref" minOccurs="0" maxOccurs="unbounded"><xs:complexType><xs:attribute name="to" type="xs:string" use="required"/></xs:complexType></xs:element>
</xs:sequence></xs:complexType>
 <xs:key name="itemKey"><xs:selector xpath="item"/><xs:field xpath="@id"/></xs:key>
 <xs:keyref name="itemRef" refer="itemKey"><xs:selector xpath="ref"/><xs:field xpath="@to"/></xs:keyref></xs:element></xs:schema>'''


def eval_leaf_chunks(args):
    """identity constraints of the root over long runs of CHILDLESS chunks (the selection of the constraint is refreshed as the stream goes on): a dangling reference or a
    duplicated key behind the first read block of the parser (16 KiB) is reported as for the loaded document"""
    ver, fault = args
    import xmlschema
    s = _S.get((ver, 5)) or _S.setdefault((ver, 5), _cls(ver)(SCHEMA5))
    items = [f'<item id="k{i}"/>' for i in range(400)]; refs = [f'<ref to="k{i % 400}"/>' for i in range(900)]
    if fault == 'dangling-late': refs[-3] = '<ref to="missing"/>'
    elif fault == 'dangling-early': refs[2] = '<ref to="missing"/>'
    elif fault == 'duplicate-late': items[-2] = '<item id="k7"/>'
    doc = '<catalog>' + ''.join(items) + ''.join(refs) + '</catalog>'
    e0 = [(e.reason, e.path) for e in s.iter_errors(doc)]; bad = []
    for thin in (True, False):
        e1 = [(e.reason, e.path) for e in s.iter_errors(xmlschema.XMLResource(doc, lazy=True, thin_lazy=thin))]
        if [r for r, _ in e0] != [r for r, _ in e1]: bad.append(f'thin_lazy={thin}: lazy errors {[r[:50] for r, _ in e1][:2]}, loaded {[r[:50] for r, _ in e0][:2]}')
    return dict(ver=ver, fault=fault, bad=bad)


def run(tier, seed, open_findings):
    rng = random.Random(seed); n = 2400 if tier == 'thorough' else 120
    docs = []
    for i in range(n):
        d = docgen.gen(rng, rng.randrange(1, 5))
        docs.append(docgen.faulty(rng, d, 1) if i % 3 else d)
    # nested namespace declarations (scopes that close inside the document): the iteration stream compares in-scope namespaces
    for i in range(n // 4):
        d = docgen.gen(rng, rng.randrange(1, 4))
        d = d.replace('<t:sub ', '<t:sub xmlns:x%d="urn:x" ' % i, 1).replace('<t:item ', '<t:item xmlns:y="urn:y" ', 1).replace('<t:name>', '<t:name xmlns:z="urn:z">', 1)
        docs.append(d)
    # redundant redeclarations: a chunk (or a descendant of it) declares again a binding that is already in scope with the same URI,
    # and later siblings rely on the outer binding
    for i in range(n // 4):
        d = docgen.gen(rng, rng.randrange(2, 5))
        k = rng.randrange(3)
        d = d.replace('<t:item ', '<t:item xmlns:t="urn:t" ', 1 + (k == 2))
        if k: d = d.replace('<t:name>', '<t:name xmlns:t="urn:t">', 1)
        docs.append(d)
    # documents larger than the parser's read block (64 KiB): faults behind the first block (a duplicated key, a dangling key reference, a bad value)
    for i in range(4 if tier == 'thorough' else 2):
        nit = 1000 + 300 * i; d = docgen.gen(rng, nit)
        head, _, tail = d.rpartition(f'code="{nit - 1}"')
        d = head + f'code="{rng.randrange(5)}"' + tail
        k = d.rfind('codeRef="')
        if k > 0 and i % 2: d = d[:k] + 'codeRef="99999' + d[d.index('"', k + 9):]
        docs.append(d)
    docs.append(docgen.gen(rng, 170))       # spans two read blocks of the parser (16 KiB) and is still small enough for the deep paths
    docs += ['<t:r xmlns:t="urn:t"/>', '<t:r xmlns:t="urn:t"></t:r>', '<t:r xmlns:t="urn:t">text</t:r>']       # a root without chunks
    jobs = [(ver, d) for d in docs for ver in ('1.0', '1.1')]
    docs2 = [gen2(rng) for _ in range(n // 3)]
    jobs += [(ver, d, 2) for d in docs2 for ver in ('1.0', '1.1')]
    docs3 = [gen3(rng) for _ in range(n // 2)]
    jobs += [(ver, d, 3) for d in docs3 for ver in ('1.0', '1.1')]
    docs4 = [gen4(rng) for _ in range(n // 3)] + ['<r><a>1</a><b>x</b><a>2</a><b>y</b></r>']
    jobs += [(ver, d, 4) for d in docs4 for ver in ('1.0', '1.1')]
    res = pmap(eval_doc, jobs)
    fails = [dict(case=dict(doc=r['doc'], ver=r['ver'], template=4 if r['doc'].startswith('<r><') or r['doc'] == '<r></r>' else 3 if r['doc'].startswith('<r') else (2 if '<t:code>' in r['doc'] or '<t:r xmlns:t="urn:t"><t:' in r['doc'] and 't:item' not in r['doc'] else 1)), observed=r['problems'], required='lazy = eager') for r in res if r['problems']]
    known = {}
    for r in res:
        for fid in ('C06-lazy-decode-drops-nested-xmlns', 'C06-thin-lazy-positional-predicates', 'C06-lazy-decode-placeholders-lose-document-order', 'C06-lazy-decode-checks-root-keyrefs-before-the-chunks'):
            if 'KNOWN:' + fid in r['reported']:
                if fid in open_findings: known[fid] = known.get(fid, 0) + 1
                else: fails.append(dict(case=dict(doc=r['doc'], ver=r['ver']), observed=fid, required='lazy = eager'))
    rep = sum(1 for r in res if any(not x.startswith('KNOWN') for x in r['reported']))
    lres = pmap(eval_leaf_chunks, [(ver, f) for ver in ('1.0', '1.1') for f in ('none', 'dangling-late', 'dangling-early', 'duplicate-late')], chunk=1)
    leaf = result('C06.identity_constraints_over_leaf_chunks', '2 classes x 4 documents of 1 300 childless chunks (a key and a key reference of the root; valid, a dangling reference near the end / near the start, a duplicated key near the end) x thin / non-thin',
                  len(lres) * 2, [dict(case=dict(leaf_chunks=True, ver=r['ver'], fault=r['fault']), observed=r['bad'], required='the errors of the loaded document') for r in lres if r['bad']], exhaustive=True)
    return [leaf, result('C06.lazy_equals_eager', f'{len(docs)} generated documents x 2 classes x (errors thin/non-thin, data, iteration stream)', len(jobs) * 4, fails, known=known,
                   samples=[dict(doc=docs[1][:200])], reported={'depth-2 differences (reported only)': rep}, distinct=len(set(docs)) * 2)]


def replay(check_name, case):
    if case.get('leaf_chunks'):
        r = eval_leaf_chunks((case['ver'], case['fault'])); return dict(ok=not r['bad'], observed=r['bad'], required='the errors of the loaded document')
    r = eval_doc((case['ver'], case['doc'], case.get('template', 1)))
    return dict(ok=not r['problems'] and not any(x.startswith('KNOWN') for x in r['reported']), observed=r['problems'] or r['reported'], required='lazy = eager')
