"""C03 bounded run-time contract on one element's attribute set, through the real schema API (labelled bounded):

    is_valid(<e attrs/>) <=> attrs_valid(decls, wildcard, attrs)       (set-based reference from Structures 3.2.4 / 3.4.4 / 3.10.4)
    decoded attributes of a valid instance = present attributes + absent fixed values (+ absent defaults iff use_defaults)

Scope: three declarable attributes (local unqualified, local qualified, global ref) x 7 use/value-constraint variants each (absent included)
x 19 wildcard variants x 2 classes; every subset of size <= 3 of a 7-name pool x 3 values.  Excluded corner (reported, not judged): a present
attribute whose declaration is use="prohibited" and which the wildcard admits (XSD: no attribute use, the wildcard governs; xmlschema
validates against the prohibited declaration).
"""
import itertools, re
from .common import pmap, result, part
from .C01 import _cls
XS = 'xmlns:xs="http://www.w3.org/2001/XMLSchema"'
T, F, G = 'urn:t', 'urn:f', 'urn:g'
EXP = {'a': 'a', 'b': f'{{{T}}}b', 'gc': f'{{{T}}}gc'}
POOL = ['a', f'{{{T}}}b', f'{{{T}}}gc', f'{{{T}}}gd', f'{{{T}}}zz', f'{{{F}}}x', 'z']
GLOBALS = {f'{{{T}}}gc', f'{{{T}}}gd'}
USES = [None, {}, {'use': 'required'}, {'use': 'prohibited'}, {'fixed': '7'}, {'default': '5'}, {'use': 'required', 'fixed': '7'}]
WCS = [None] + [(c, p) for c in ('##any', '##other', '##local', '##targetNamespace', f'{F}', f'##local {T}') for p in ('skip', 'lax', 'strict')]
VALUES = ['7', ' 07 ', 'x']


def schema(decls, wildcard, ver):
    body = ''
    for name, d in decls.items():
        extra = ''.join(f' {k}="{v}"' for k, v in d.items() if k in ('use', 'fixed', 'default'))
        if name == 'a': body += f'<xs:attribute name="a" type="xs:int"{extra}/>'
        if name == 'b': body += f'<xs:attribute name="b" form="qualified" type="xs:int"{extra}/>'
        if name == 'gc': body += f'<xs:attribute ref="t:gc"{extra}/>'
    if wildcard: body += f'<xs:anyAttribute namespace="{wildcard[0]}" processContents="{wildcard[1]}"/>'
    return _cls(ver)(f'''<xs:schema {XS} targetNamespace="{T}" xmlns:t="{T}">
 <xs:attribute name="gc" type="xs:int"/><xs:attribute name="gd" type="xs:int"/>
 <xs:element name="e"><xs:complexType>{body}</xs:complexType></xs:element></xs:schema>''')


def int_ok(v):
    s = v.strip(' \t\n\r')
    return re.fullmatch(r'[+-]?[0-9]+', s) is not None and -2**31 <= int(s) < 2**31


def ns_of(n): return n[1:].split('}')[0] if n.startswith('{') else ''


def admits(wc, ns):
    c = wc[0]
    if c == '##any': return True
    if c == '##other': return ns not in ('', T)
    return any((t == '##local' and ns == '') or (t == '##targetNamespace' and ns == T) or t == ns for t in c.split())


def attrs_valid(decls, wc, attrs):
    by_name = {EXP[k]: d for k, d in decls.items()}
    for n, d in by_name.items():
        if d.get('use') == 'required' and n not in attrs: return False
    for n, v in attrs.items():
        d = by_name.get(n)
        if d is not None and d.get('use') != 'prohibited':
            if not int_ok(v): return False
            if 'fixed' in d and int(v) != int(d['fixed']): return False      # value-space comparison
            continue
        if wc and admits(wc, ns_of(n)):
            if wc[1] == 'skip': continue
            if n in GLOBALS:
                if not int_ok(v): return False
                continue
            if wc[1] == 'strict': return False
            continue
        return False
    return True


def attrs_filled(decls, attrs, use_defaults):
    """expected decoded attribute map of a valid instance (declared attributes only; wildcard-admitted ones are passed through)"""
    out = {}
    by_name = {EXP[k]: d for k, d in decls.items()}
    for n, d in by_name.items():
        if n in attrs: continue
        if d.get('use') == 'prohibited': continue
        if 'fixed' in d: out[n] = int(d['fixed'])
        elif 'default' in d and use_defaults: out[n] = int(d['default'])
    return out


def doc(attrs):
    parts = []
    for n, v in attrs.items():
        if n.startswith('{'):
            ns, local = n[1:].split('}'); p = {T: 't', F: 'f', G: 'g'}[ns]; parts.append(f'{p}:{local}="{v}"')
        else: parts.append(f'{n}="{v}"')
    return f'<t:e xmlns:t="{T}" xmlns:f="{F}" xmlns:g="{G}" ' + ' '.join(parts) + '/>'


def configs():
    for ua, ub, ug in itertools.product(range(len(USES)), repeat=3):
        for wi in range(len(WCS)):
            for ver in ('1.0', '1.1'):
                yield (ua, ub, ug, wi, ver)


def eval_config(cfg):
    ua, ub, ug, wi, ver = cfg
    import xmlschema
    decls = {k: USES[i] for k, i in (('a', ua), ('b', ub), ('gc', ug)) if USES[i] is not None}
    wc = WCS[wi]
    try: s = schema(decls, wc, ver)
    except xmlschema.XMLSchemaException: return dict(cfg=cfg, built=False, cases=0, excluded=0, bad=[])
    by = {EXP[k]: d for k, d in decls.items()}
    bad = []; n = exc = 0
    for r in range(0, 4):
        for names in itertools.combinations(POOL, r):
            for vals in itertools.product(VALUES, repeat=len(names)):
                attrs = dict(zip(names, vals))
                if any(by.get(x, {}).get('use') == 'prohibited' and wc and admits(wc, ns_of(x)) for x in attrs): exc += 1; continue
                n += 1
                d = doc(attrs)
                try: got = s.is_valid(d)
                except Exception as e: got = f'EXC {type(e).__name__}'
                exp = attrs_valid(decls, wc, attrs)
                if got != exp:
                    if len(bad) < 3: bad.append(dict(attrs=attrs, got=got, exp=exp))
                    continue
                if exp and r <= 1:
                    for ud in (True, False):
                        try:
                            data = s.decode(d, use_defaults=ud, validation='strict') or {}
                        except Exception as e:
                            bad.append(dict(attrs=attrs, got=f'decode raised {type(e).__name__}', exp='data')); continue
                        if not isinstance(data, dict): data = {}
                        got_attrs = {k[1:]: v for k, v in data.items() if k.startswith('@') and not k.startswith('@xmlns')}
                        res_ns = {'t': T, 'f': F, 'g': G}
                        norm = {}
                        for k, v in got_attrs.items():
                            if ':' in k: p, l = k.split(':'); norm['{%s}%s' % (res_ns.get(p, p), l)] = v
                            else: norm[k] = v
                        want = attrs_filled(decls, attrs, ud)
                        absent_got = {k: v for k, v in norm.items() if k not in attrs}
                        if absent_got != want and len(bad) < 3:
                            bad.append(dict(attrs=attrs, use_defaults=ud, got=absent_got, exp=want))
    return dict(cfg=cfg, built=True, cases=n, excluded=exc, bad=bad)


# ---------------------------------------------------------------- wildcards of named attribute groups shared by several types
GW = {'any': dict(attr='namespace="##any"', w=dict(namespace={'##any'}, not_namespace=set(), not_qname=set())),
      'other': dict(attr='namespace="##other"', w=dict(namespace={'##other'}, not_namespace=set(), not_qname=set())),
      'local': dict(attr='namespace="##local"', w=dict(namespace={''}, not_namespace=set(), not_qname=set())),
      'x+tns': dict(attr='namespace="urn:x ##targetNamespace"', w=dict(namespace={'urn:x', 'urn:t'}, not_namespace=set(), not_qname=set())),
      'x+y': dict(attr='namespace="urn:x urn:y"', w=dict(namespace={'urn:x', 'urn:y'}, not_namespace=set(), not_qname=set()))}
GNAMES = {'{urn:x}foo': 'x:foo', '{urn:y}foo': 'y:foo', '{urn:t}bar': 't:bar', 'baz': 'baz'}


def eval_group_wildcards(args):
    g, own, ver, order = args
    import xmlschema, sys, os
    sys.path.insert(0, os.path.dirname(os.path.dirname(os.path.abspath(__file__))))
    from specs import wildcard as spec
    # the narrowed user of the group is declared before or after the plain one (the effective wildcards are computed at build time, in document order)
    t_narrow = f'<xs:complexType name="N"><xs:attributeGroup ref="t:G"/><xs:anyAttribute {GW[own]["attr"]} processContents="skip"/></xs:complexType>'
    t_plain = '<xs:complexType name="P"><xs:attributeGroup ref="t:G"/></xs:complexType>'
    types = t_narrow + t_plain if order else t_plain + t_narrow
    try:
        s = _cls(ver)(f'<xs:schema xmlns:xs="http://www.w3.org/2001/XMLSchema" targetNamespace="urn:t" xmlns:t="urn:t"><xs:attributeGroup name="G"><xs:anyAttribute {GW[g]["attr"]} processContents="skip"/></xs:attributeGroup>'
                      f'{types}<xs:element name="plain" type="t:P"/><xs:element name="narrow" type="t:N"/></xs:schema>')
    except xmlschema.XMLSchemaException: return None
    wg = dict(GW[g]['w'], tns='urn:t'); wo = dict(GW[own]['w'], tns='urn:t'); bad = []
    for name, lex in GNAMES.items():
        for tag, exp in (('plain', spec.denote_name(wg, name)), ('narrow', spec.denote_name(wg, name) and spec.denote_name(wo, name))):
            doc = f'<t:{tag} xmlns:t="urn:t" xmlns:x="urn:x" xmlns:y="urn:y" {lex}="1"/>'
            try: got = s.is_valid(doc)
            except Exception as e: got = 'raised ' + type(e).__name__
            if got != exp: bad.append((tag, name, got, exp))
    return dict(args=args, bad=bad) if bad else False


GW11 = dict(GW)
GW11.update({'not-x': dict(attr='notNamespace="urn:x"', w=dict(namespace=set(), not_namespace={'urn:x'}, not_qname=set())),
             'not-y-local': dict(attr='notNamespace="urn:y ##local"', w=dict(namespace=set(), not_namespace={'urn:y', ''}, not_qname=set())),
             'any-not-xfoo': dict(attr='namespace="##any" notQName="x:foo"', w=dict(namespace={'##any'}, not_namespace=set(), not_qname={'{urn:x}foo'})),
             'any-not-baz': dict(attr='namespace="##any" notQName="baz"', w=dict(namespace={'##any'}, not_namespace=set(), not_qname={'baz'}))})


def eval_two_groups(args):
    """a type that references TWO attribute groups, each with its own wildcard (the second group may live in an imported schema of another target namespace): the type admits the
    intersection of the two denoted sets, whichever way the constraints are spelled"""
    g1, g2, ver, foreign = args
    import xmlschema, sys, os, tempfile, shutil
    sys.path.insert(0, os.path.dirname(os.path.dirname(os.path.abspath(__file__))))
    from specs import wildcard as spec
    pool = GW11 if ver == '1.1' else GW
    XSN = 'xmlns:xs="http://www.w3.org/2001/XMLSchema" xmlns:x="urn:x" xmlns:y="urn:y"'
    d = tempfile.mkdtemp(prefix='verif_c03_')
    try:
        if foreign:
            open(os.path.join(d, 'u.xsd'), 'w').write(f'<xs:schema {XSN} targetNamespace="urn:u"><xs:attributeGroup name="G2"><xs:anyAttribute {pool[g2]["attr"]} processContents="skip"/></xs:attributeGroup></xs:schema>')
            imp = '<xs:import namespace="urn:u" schemaLocation="u.xsd"/>'; g2decl = ''; ref2 = 'u:G2'
        else:
            imp = ''; g2decl = f'<xs:attributeGroup name="G2"><xs:anyAttribute {pool[g2]["attr"]} processContents="skip"/></xs:attributeGroup>'; ref2 = 't:G2'
        open(os.path.join(d, 'm.xsd'), 'w').write(f'<xs:schema {XSN} targetNamespace="urn:t" xmlns:t="urn:t" xmlns:u="urn:u">{imp}<xs:attributeGroup name="G1"><xs:anyAttribute {pool[g1]["attr"]} processContents="skip"/></xs:attributeGroup>{g2decl}'
                                              f'<xs:complexType name="T2"><xs:attributeGroup ref="t:G1"/><xs:attributeGroup ref="{ref2}"/></xs:complexType><xs:element name="two" type="t:T2"/>' +
                                              # XSD 1.1 (where every union is expressible): the wildcard of the second group comes in through an extension of a type that has the first
                                              (f'<xs:complexType name="B1"><xs:attributeGroup ref="t:G1"/></xs:complexType><xs:complexType name="E1"><xs:complexContent><xs:extension base="t:B1"><xs:attributeGroup ref="{ref2}"/>'
                                               '</xs:extension></xs:complexContent></xs:complexType><xs:element name="ext" type="t:E1"/>'
                                               # ... and a plain user of the second group declared AFTER the extension: it admits what the group's own wildcard admits, no more
                                               f'<xs:complexType name="P2"><xs:attributeGroup ref="{ref2}"/></xs:complexType><xs:element name="plain2" type="t:P2"/>' if ver == '1.1' else '') + '</xs:schema>')
        try: s = _cls(ver)(os.path.join(d, 'm.xsd'))
        except xmlschema.XMLSchemaException: return None
        w1 = dict(pool[g1]['w'], tns='urn:t'); w2 = dict(pool[g2]['w'], tns='urn:u' if foreign else 'urn:t'); bad = []
        if foreign and g2 == 'x+tns': w2['namespace'] = {'urn:x', 'urn:u'}          # ##targetNamespace is that of the schema the group is declared in
        names = dict(GNAMES); names['{urn:u}q'] = 'u:q'; names['{urn:x}other'] = 'x:other'
        for name, lex in names.items():
            exp = spec.denote_name(w1, name) and spec.denote_name(w2, name)
            doc = f'<t:two xmlns:t="urn:t" xmlns:x="urn:x" xmlns:y="urn:y" xmlns:u="urn:u" {lex}="1"/>'
            try: got = s.is_valid(doc)
            except Exception as e: got = 'raised ' + type(e).__name__
            if got != exp: bad.append(('two', name, got, exp))
            if ver == '1.1':
                exp = spec.denote_name(w1, name) or spec.denote_name(w2, name)
                try: got = s.is_valid(doc.replace('<t:two ', '<t:ext '))
                except Exception as e: got = 'raised ' + type(e).__name__
                if got != exp: bad.append(('ext', name, got, exp))
                exp = spec.denote_name(w2, name)
                try: got = s.is_valid(doc.replace('<t:two ', '<t:plain2 '))
                except Exception as e: got = 'raised ' + type(e).__name__
                if got != exp: bad.append(('plain2', name, got, exp))
        return dict(args=args, bad=bad) if bad else False
    finally: shutil.rmtree(d, ignore_errors=True)


def eval_forms(args):
    """the expanded name of a local attribute: in the target namespace iff form="qualified", or no form and attributeFormDefault="qualified" (an explicit form always wins)"""
    dflt, form, placement, ver = args
    import xmlschema
    afd = f' attributeFormDefault="{dflt}"' if dflt else ''; fm = f' form="{form}"' if form else ''
    attr = f'<xs:attribute name="u" type="xs:int" use="required"{fm}/>'
    body = attr if placement == 'type' else '<xs:attributeGroup ref="t:G"/>'
    grp = f'<xs:attributeGroup name="G">{attr}</xs:attributeGroup>' if placement == 'group' else ''
    s = _cls(ver)(f'<xs:schema {XS} targetNamespace="{T}" xmlns:t="{T}"{afd}>{grp}<xs:element name="e"><xs:complexType>{body}</xs:complexType></xs:element></xs:schema>')
    qualified = form == 'qualified' or (not form and dflt == 'qualified')
    bad = []
    for lex, is_q in (('u="1"', False), ('t:u="1"', True)):
        exp = is_q == qualified
        got = s.is_valid(f'<t:e xmlns:t="{T}" {lex}/>')
        if got != exp: bad.append((lex, got, exp))
    return dict(args=args, bad=bad) if bad else None


def eval_defined_keyword():
    """XSD 1.1 attribute wildcards whose notQName has ##defined: the keyword only EXCLUDES names (global attributes of the wildcard's own schema document); a name that the
    namespace constraint or an explicit notQName entry excludes stays excluded whether or not it has a global declaration somewhere (an imported namespace, xml:lang)"""
    import xmlschema, tempfile, shutil, os
    d = tempfile.mkdtemp(prefix='verif_c03_'); bad = []; n = 0
    try:
        open(os.path.join(d, 'b.xsd'), 'w').write('<xs:schema xmlns:xs="http://www.w3.org/2001/XMLSchema" targetNamespace="urn:b"><xs:attribute name="code" type="xs:int"/><xs:attribute name="flag" type="xs:boolean"/></xs:schema>')
        open(os.path.join(d, 'm.xsd'), 'w').write('''<xs:schema xmlns:xs="http://www.w3.org/2001/XMLSchema" targetNamespace="urn:t" xmlns:t="urn:t" xmlns:b="urn:b">
 <xs:import namespace="urn:b" schemaLocation="b.xsd"/><xs:import namespace="http://www.w3.org/XML/1998/namespace"/><xs:attribute name="own" type="xs:int"/>
 <xs:element name="r1"><xs:complexType><xs:anyAttribute namespace="##targetNamespace urn:c" notQName="##defined" processContents="lax"/></xs:complexType></xs:element>
 <xs:element name="r2"><xs:complexType><xs:anyAttribute namespace="##any" notQName="##defined b:flag" processContents="lax"/></xs:complexType></xs:element>
 <xs:element name="r3"><xs:complexType><xs:anyAttribute notNamespace="urn:b http://www.w3.org/XML/1998/namespace" notQName="##defined" processContents="lax"/></xs:complexType></xs:element>
</xs:schema>''')
        s = xmlschema.XMLSchema11(os.path.join(d, 'm.xsd'))
        NSD = 'xmlns:t="urn:t" xmlns:b="urn:b" xmlns:c="urn:c"'
        for tag, attr, exp in (('r1', 'b:code="1"', False), ('r1', 'xml:lang="en"', False), ('r1', 'c:x="1"', True), ('r1', 't:own="1"', False), ('r1', 't:other="1"', True),
                               ('r2', 'b:flag="true"', False), ('r2', 'b:code="1"', True), ('r2', 't:own="1"', False), ('r2', 'c:x="1"', True),
                               ('r3', 'b:code="1"', False), ('r3', 'xml:lang="en"', False), ('r3', 'c:x="1"', True), ('r3', 't:own="1"', False)):
            n += 1
            try: got = s.is_valid(f'<t:{tag} {NSD} {attr}/>')
            except Exception as e: got = 'raised ' + type(e).__name__
            if got != exp: bad.append(dict(case=dict(defined_keyword=[tag, attr]), observed=dict(valid=got), required=dict(valid=exp)))
    finally: shutil.rmtree(d, ignore_errors=True)
    return result('C03.defined_keyword_keeps_the_other_constraints', '3 XSD 1.1 wildcards with notQName="##defined" (namespace list, explicit name, notNamespace) x attributes with and without global declarations in the own / an imported / the XML namespace', n, bad, exhaustive=True)


def run(tier, seed, open_findings):
    allc = list(configs())
    sel, exhaustive = part(allc, tier, seed, 16)
    res = pmap(eval_config, sel)
    failures = []
    for r in res:
        for b in r['bad']:
            failures.append(dict(case=dict(cfg=list(r['cfg']), attrs=b['attrs'], use_defaults=b.get('use_defaults')), observed=b['got'], required=b['exp']))
    cases = sum(r['cases'] for r in res); exc = sum(r['excluded'] for r in res)
    gjobs = [(g, own, ver, order) for g in GW for own in GW for ver in ('1.0', '1.1') for order in (0, 1)]
    gres = [eval_group_wildcards(j) for j in gjobs]
    gfail = [dict(case=dict(group_wildcards=list(r['args'])), observed=[list(b) for b in r['bad'][:4]], required='the user of the group alone admits what the group wildcard admits; the narrowed user admits the intersection')
             for r in gres if r]
    extra = result('C03.shared_attribute_group_wildcards', f'{len(gjobs)} schemas: a named attribute group with a wildcard used alone by one type and together with an own wildcard by another (5 x 5 constraints, both declaration orders, 2 classes) x 4 attribute names',
                   len(gjobs) * 8, gfail, exhaustive=True, samples=[dict(group='##any', own='##local')], distinct=sum(1 for r in gres if r is not None) * 8)
    tjobs = [(g1, g2, ver, fr) for ver in ('1.0', '1.1') for g1 in (GW11 if ver == '1.1' else GW) for g2 in (GW11 if ver == '1.1' else GW) for fr in (False, True)]
    tres = pmap(eval_two_groups, tjobs, chunk=4)
    tfail = [dict(case=dict(two_groups=list(r['args'])), observed=[list(b) for b in r['bad'][:4]], required='a type that references two attribute groups admits the intersection of their wildcards') for r in tres if r]
    extra2 = result('C03.two_attribute_groups_intersection', f'{len(tjobs)} schemas: one type referencing two attribute groups with wildcards, and under XSD 1.1 an extension that adds the second group to a type with the first: the union (5 x 5 constraints under XSD 1.0, 9 x 9 with notNamespace / notQName under XSD 1.1; the second group in the same or in an imported schema) x 6 attribute names',
                    len(tjobs) * 6, tfail, exhaustive=True, samples=[dict(g1='##any', g2='##any notQName=x:foo')], distinct=sum(1 for r in tres if r is not None) * 6)
    fjobs = [(d, f, pl, ver) for d in (None, 'unqualified', 'qualified') for f in (None, 'unqualified', 'qualified') for pl in ('type', 'group') for ver in ('1.0', '1.1')]
    fres = [eval_forms(j) for j in fjobs]
    ffail = [dict(case=dict(forms=list(r['args'])), observed=[list(b) for b in r['bad']], required='the attribute is in the target namespace iff its form (explicit, else the schema default) is qualified') for r in fres if r]
    extra3 = result('C03.attribute_forms', f'{len(fjobs)} (attributeFormDefault, form, placement, class) x the qualified and the unqualified spelling of a required local attribute', len(fjobs) * 2, ffail, exhaustive=True)
    return [eval_defined_keyword(), extra3, extra2, extra, result('C03.attribute_sets', f'{len(sel)} of {len(allc)} (declarations, wildcard, class) configurations x subsets <= 3 of a 7-name pool x 3 values', cases, failures,
                   exhaustive=exhaustive, samples=[dict(decls={'a': USES[2], 'b': USES[4]}, wildcard=WCS[5], attrs={'a': '7'})],
                   reported={'prohibited-and-wildcard-admits (outside the deciding scope)': exc}, distinct=cases)][::-1]


def replay(check_name, case):
    if case.get('defined_keyword'):
        r = eval_defined_keyword(); mine = [f for f in r['failures'] if f['case'] == case]; return dict(ok=not mine, observed=mine[:1], required='see case')
    if 'forms' in case:
        r = eval_forms(tuple(case['forms'])); return dict(ok=not r, observed=r and r['bad'], required='form decides the namespace of the attribute')
    if 'two_groups' in case:
        r = eval_two_groups(tuple(case['two_groups'])); return dict(ok=not r, observed=r and r['bad'][:4], required='intersection of the two wildcards')
    if 'group_wildcards' in case:
        r = eval_group_wildcards(tuple(case['group_wildcards'])); return dict(ok=not r, observed=r and r['bad'][:4], required='group wildcard semantics')
    ua, ub, ug, wi, ver = case['cfg']
    import xmlschema
    decls = {k: USES[i] for k, i in (('a', ua), ('b', ub), ('gc', ug)) if USES[i] is not None}
    s = schema(decls, WCS[wi], ver); attrs = case['attrs']
    got = s.is_valid(doc(attrs)); exp = attrs_valid(decls, WCS[wi], attrs)
    return dict(ok=got == exp, observed=dict(valid=got, decls=decls, wildcard=WCS[wi]), required=dict(valid=exp))
