"""C05 bounded run-time contract (labelled bounded): decode/encode round trip and strict-encode soundness.

For generated valid documents of a schema with lists, dates, decimals, booleans, doubles, simple content with attributes and mixed
content: for each lossless converter (default, JsonML, BadgerFish, GData, DataElement) encode(decode(x)) is valid, equal to x in element
structure, attribute sets and text (typed values compared through the re-decoded data), and decodes to the same data.  Encoder soundness:
on data mutated by dropping, duplicating, retyping and reordering entries, strict encode either raises a library validation error or
returns XML that the schema accepts.
"""
import copy, random
from .common import pmap, result
from .C01 import _cls
XS = 'xmlns:xs="http://www.w3.org/2001/XMLSchema"'
SCHEMA = f'''<xs:schema {XS} targetNamespace="urn:t" xmlns:t="urn:t" elementFormDefault="qualified">
 <xs:simpleType name="ints"><xs:list itemType="xs:int"/></xs:simpleType>
 <xs:simpleType name="pt3"><xs:restriction base="t:ints"><xs:pattern value="[0-9]( [0-9]){{2}}"/></xs:restriction></xs:simpleType>
 <xs:simpleType name="code3"><xs:restriction base="xs:integer"><xs:pattern value="[0-9]{{3}}"/></xs:restriction></xs:simpleType>
 <xs:element name="r"><xs:complexType><xs:sequence>
   <xs:element name="item" maxOccurs="unbounded"><xs:complexType><xs:sequence>
      <xs:element name="name" type="xs:token"/><xs:element name="qty" type="xs:positiveInteger" minOccurs="0"/>
      <xs:element name="price" type="xs:decimal" minOccurs="0"/><xs:element name="flag" type="xs:boolean" minOccurs="0"/>
      <xs:element name="when" type="xs:date" minOccurs="0"/><xs:element name="codes" minOccurs="0"><xs:simpleType><xs:list itemType="xs:int"/></xs:simpleType></xs:element>
      <xs:element name="days" minOccurs="0"><xs:simpleType><xs:list itemType="xs:date"/></xs:simpleType></xs:element>
      <xs:element name="pt" type="t:pt3" minOccurs="0"/><xs:element name="c3" type="t:code3" minOccurs="0"/>
      <xs:element name="tags" type="t:ints" minOccurs="0" maxOccurs="unbounded"/>
      <xs:element name="note" minOccurs="0" maxOccurs="2"><xs:complexType><xs:simpleContent><xs:extension base="xs:string"><xs:attribute name="lang" type="xs:language"/></xs:extension></xs:simpleContent></xs:complexType></xs:element>
      <xs:element name="amount" minOccurs="0"><xs:complexType><xs:simpleContent><xs:extension base="xs:decimal"><xs:attribute name="cur" type="xs:token"/></xs:extension></xs:simpleContent></xs:complexType></xs:element>
      <xs:element name="on" minOccurs="0"><xs:complexType><xs:simpleContent><xs:extension base="xs:boolean"><xs:attribute name="src" type="xs:token"/></xs:extension></xs:simpleContent></xs:complexType></xs:element>
      <xs:element name="tries" minOccurs="0" default="3"><xs:complexType><xs:simpleContent><xs:extension base="xs:int"><xs:attribute name="u" type="xs:token"/></xs:extension></xs:simpleContent></xs:complexType></xs:element>
      <xs:element name="vals" minOccurs="0"><xs:complexType><xs:simpleContent><xs:extension base="t:ints"><xs:attribute name="unit" type="xs:token"/></xs:extension></xs:simpleContent></xs:complexType></xs:element>
      <xs:element name="mix" minOccurs="0"><xs:complexType mixed="true"><xs:sequence><xs:element name="b" minOccurs="0" maxOccurs="unbounded"><xs:complexType><xs:simpleContent><xs:extension base="xs:string"><xs:attribute name="k" type="xs:int"/></xs:extension></xs:simpleContent></xs:complexType></xs:element></xs:sequence></xs:complexType></xs:element>
      <xs:sequence minOccurs="0" maxOccurs="unbounded"><xs:element name="line" type="xs:int"/><xs:element name="ln" type="xs:token" minOccurs="0"/></xs:sequence>
      <xs:element name="box" minOccurs="0" maxOccurs="2"><xs:complexType><xs:sequence><xs:element name="box" type="xs:token" form="unqualified"/></xs:sequence><xs:attribute name="k" type="xs:int"/></xs:complexType></xs:element>
      <xs:element name="end" type="xs:token"/>
      <xs:element name="u" type="xs:string" form="unqualified" minOccurs="0"/>
     </xs:sequence><xs:attribute name="id" type="xs:ID" use="required"/><xs:attribute name="w" type="xs:double"/><xs:attribute name="gaps"><xs:simpleType><xs:list itemType="xs:duration"/></xs:simpleType></xs:attribute><xs:attribute name="ver" type="xs:int" fixed="2"/></xs:complexType></xs:element>
  </xs:sequence></xs:complexType></xs:element></xs:schema>'''
NS = {'t': 'urn:t'}
_S = {}


def gen(rng):
    items = []
    for i in range(rng.randrange(1, 4)):
        parts = [f'<t:name>n {i}</t:name>']
        if rng.random() < .6: parts.append(f'<t:qty>{rng.choice(["1", "007", "+3"])}</t:qty>')
        if rng.random() < .6: parts.append(f'<t:price>{rng.choice(["1.50", "2", "-0.0", "10.000", "0.000000001"])}</t:price>')
        if rng.random() < .5: parts.append(f'<t:flag>{rng.choice(["true", "0", "1", "false"])}</t:flag>')
        if rng.random() < .5: parts.append(f'<t:when>{rng.choice(["2020-02-29", "1999-12-31Z", "2001-01-01+05:00"])}</t:when>')
        if rng.random() < .5: parts.append(f'<t:codes>{rng.choice(["1 2 3", "", "7"])}</t:codes>')
        if rng.random() < .5: parts.append(f'<t:days>{rng.choice(["2024-04-01 2024-04-25 2024-05-01", "2020-02-29", "", "1999-12-31Z 2000-01-01Z"])}</t:days>')      # lists of values that decode to their lexical form, item by item
        if rng.random() < .5: parts.append(f'<t:pt>{rng.choice(["1 2 3", "0 0 9"])}</t:pt>')       # pattern facets on a list and on typed (non-string) values: enforced on encode as on decode
        if rng.random() < .5: parts.append(f'<t:c3>{rng.choice(["123", "450"])}</t:c3>')
        for _ in range(rng.randrange(0, 4) if rng.random() < .5 else 0): parts.append(f'<t:tags>{rng.choice(["", "1 2", "7", ""])}</t:tags>')      # repeated list-typed element, empty occurrences included
        for _ in range(rng.randrange(0, 3)): parts.append(f'<t:note lang="en">{rng.choice(["hi", "", " sp "])}</t:note>')
        if rng.random() < .5: parts.append(f'<t:amount cur="EUR">{rng.choice(["0", "0.0", "12.5", "-0"])}</t:amount>')       # falsy typed values in simple content
        if rng.random() < .5: parts.append(f'<t:on src="ui">{rng.choice(["false", "0", "true"])}</t:on>')
        if rng.random() < .4: parts.append(f'<t:tries u="n">{rng.choice(["0", "5"])}</t:tries>')
        if rng.random() < .5: parts.append(rng.choice(['<t:vals>1 2</t:vals>', '<t:vals unit="m">3 4 5</t:vals>', '<t:vals>7</t:vals>']))      # list-valued simple content, with and without its attribute
        if rng.random() < .3: parts.append(f'<t:mix>{rng.choice(["", "x"])}<t:b>y</t:b>{rng.choice(["", "z"])}<t:b>w</t:b></t:mix>')
        if rng.random() < .3 and not any('mix>' in x for x in parts):     # namespace declarations two levels deep (a default namespace, a prefix below it), then an unqualified local sibling: scopes must close
            parts.append('<mix xmlns="urn:t">' + rng.choice(['', 'x']) + '<b k="1" xmlns:q="urn:q">y</b><b>w</b></mix>')
        # a repeating group whose first element is followed by an optional one: runs of same-name children that the encoder has to hand back in their own order
        # (the optional second element only after the first occurrence: the dictionary conventions group children by name and cannot place it anywhere else)
        if rng.random() < .5: parts += [f'<t:line>{j + 1}</t:line>' + ('<t:ln>k</t:ln>' if j == 0 and rng.random() < .3 else '') for j in range(rng.randrange(1, 6))]
        # an element whose only child has the same LOCAL name in another namespace (here: none): the wrapper conventions tell them apart by the qualified name
        # (not next to the variant of mix that declares a default namespace below the root: with it the unqualified key is read in that namespace - the listed C05 finding)
        for _ in range(rng.randrange(0, 3) if rng.random() < .4 and not any('<mix xmlns=' in x for x in parts) else 0): parts.append(rng.choice(['<t:box><box>v</box></t:box>', '<t:box k="1"><box>w</box></t:box>']))
        parts.append('<t:end>e</t:end>')
        if rng.random() < .4: parts.append('<u>plain</u>')        # a required particle after the optional ones: data truncated before an optional particle is incomplete
        w = rng.choice(['', ' w="1.5"', ' w="INF"', ' w="1e3"']) + rng.choice(['', '', ' gaps="P1D PT2H"', ' gaps="P1Y"', ' gaps=""', ' gaps=" "']) + rng.choice([' ver="2"', ' ver="02"'])       # an attribute with a fixed value, always present (an absent one is filled in by decoding), in two lexical forms
        items.append(f'<t:item id="i{i}"{w}>' + ''.join(parts) + '</t:item>')
    return '<t:r xmlns:t="urn:t">' + ''.join(items) + '</t:r>'


def shape(e):
    return (e.tag, tuple(sorted(e.attrib)), tuple(shape(c) for c in e))


def converters():
    import xmlschema
    return {'default': None, 'jsonml': xmlschema.JsonMLConverter, 'badgerfish': xmlschema.BadgerFishConverter, 'gdata': xmlschema.GDataConverter, 'dataelement': xmlschema.DataElementConverter}


def mutate(rng, d):
    """drop / duplicate / retype / reorder one entry somewhere in default-converter data"""
    d = copy.deepcopy(d)
    def dicts(x, acc):
        if isinstance(x, dict):
            acc.append(x)
            for v in x.values(): dicts(v, acc)
        elif isinstance(x, list):
            for v in x: dicts(v, acc)
        return acc
    ds = [x for x in dicts(d, []) if any(not k.startswith('@xmlns') for k in x)]
    if not ds: return d
    x = rng.choice(ds); keys = [k for k in x if not k.startswith('@xmlns')]
    k = rng.choice(keys); op = rng.choice(['drop', 'dup', 'retype', 'reorder', 'rename', 'truncate'])
    if op == 'drop': del x[k]
    elif op == 'truncate':          # keep only a prefix of the child entries (attributes stay)
        kids = [c for c in keys if not c.startswith('@')]
        for c in kids[rng.randrange(len(kids)):] if kids else []: del x[c]
    elif op == 'dup': x[k] = [x[k], copy.deepcopy(x[k])] if not isinstance(x[k], list) else x[k] + x[k][:1]
    elif op == 'retype': x[k] = rng.choice(['zz', -5, 1.5, True, None, [1, 'a'], {'$': 'q'}, 1234, 7, [1, 2], [1, 2, 3, 4]])
    elif op == 'reorder':
        items = list(x.items()); rng.shuffle(items); x.clear(); x.update(items)
    else: x[k + 'X'] = x.pop(k)
    return d


def eval_doc(args):
    ver, doc, mseed = args
    import xmlschema
    from xml.etree import ElementTree as ET
    from xmlschema.validators.exceptions import XMLSchemaValidationError
    s = _S.get(ver) or _S.setdefault(ver, _cls(ver)(SCHEMA))
    bad = []
    if not s.is_valid(doc): return dict(doc=doc, ver=ver, bad=[('generator', 'base document invalid: ' + list(s.iter_errors(doc))[0].reason[:80])], cases=0)
    root = ET.fromstring(doc); n = 0
    for name, conv in converters().items():
        kw = dict(converter=conv) if conv else {}
        n += 1
        try:
            d = s.decode(doc, **kw)
            e = s.encode(d, path='t:r' if name not in ('jsonml', 'badgerfish', 'dataelement') else None, namespaces=NS, **kw)
        except Exception as exn:
            bad.append((name, f'decode/encode raised {type(exn).__name__}: {str(exn)[:80]}')); continue
        if not s.is_valid(e): bad.append((name, 'encoded tree is invalid: ' + list(s.iter_errors(e))[0].reason[:80])); continue
        txt = xmlschema.etree_tostring(e, namespaces=NS)
        try: d2 = s.decode(txt, **kw)
        except Exception as exn: bad.append((name, f're-decode raised {type(exn).__name__}')); continue
        if shape(ET.fromstring(txt)) != shape(root): bad.append((name, 'element structure / attribute sets differ'))
        # with namespace declarations below the root the serialiser may spell the same expanded names with other prefixes: the key spelling is C17's subject, here the
        # structure (expanded tags, attribute sets) and the validity of the encoded tree decide
        if name != 'dataelement' and d2 != d and ' xmlns="urn:t"' not in doc: bad.append((name, f're-decoded data differs: {str(d)[:60]} vs {str(d2)[:60]}'))
    # encoder soundness on mutated data (default converter)
    rng = random.Random(mseed); base = s.decode(doc)
    for _ in range(6):
        n += 1
        m = mutate(rng, base)
        try:
            e = s.encode(m, path='t:r', namespaces=NS)
        except XMLSchemaValidationError: continue
        except xmlschema.XMLSchemaException: continue
        except Exception as exn:
            bad.append(('soundness', f'strict encode raised {type(exn).__name__}: {str(exn)[:80]} on {str(m)[:120]}')); continue
        try: ok = s.is_valid(e)
        except Exception as exn: ok = False
        if not ok:
            reasons = [x.reason or '' for x in s.iter_errors(e)]
            if reasons and all(('xs:ID' in r_ or 'IDREF' in r_ or 'duplicated value' in r_ or 'not found for' in r_) for r_ in reasons):
                bad.append(('soundness-identity', f'strict encode returned XML violating only identity constraints: {reasons[:1]}')); continue
            bad.append(('soundness', f'strict encode returned invalid XML for {str(m)[:160]}: {[r_[:60] for r_ in reasons][:1]}'))
    # the same for JsonML data: character data put between the children of an element-only content, a changed fixed attribute
    try: jbase = s.decode(doc, converter=xmlschema.JsonMLConverter)
    except Exception: jbase = None
    for jm in range(6 if jbase is not None else 0):
        n += 1
        m = copy.deepcopy(jbase)
        lists = []
        def walk(x):
            if isinstance(x, list) and x and isinstance(x[0], str):
                lists.append(x)
                for y in x[1:]: walk(y)
        walk(m)
        x = rng.choice(lists)
        first = 2 if len(x) > 1 and isinstance(x[1], dict) else 1          # well-formed JsonML: the attribute dict stays in second position
        tags = sorted({y[0] for y in lists}) + ['thing', 't:thing']
        if jm == 3: x[0] = rng.choice([t for t in tags if t != x[0]])                 # another tag on some item, the rest kept
        elif jm == 4: del x[1:]; x[0] = rng.choice(tags)                               # some item reduced to its bare-tag form, possibly with another tag
        elif jm == 5: m = [rng.choice([t for t in tags if t != m[0]])]                  # the whole data is a bare tag that is not the root's
        elif rng.random() < .7: x.insert(rng.randrange(first, len(x) + 1), rng.choice(['txt', ' t ', '0']))
        elif len(x) > 1 and isinstance(x[1], dict) and 'ver' in x[1]: x[1]['ver'] = rng.choice([3, '2x', 2.5])
        try: e = s.encode(m, converter=xmlschema.JsonMLConverter)
        except xmlschema.XMLSchemaException: continue
        except Exception as exn: bad.append(('soundness-jsonml', f'strict encode raised {type(exn).__name__}: {str(exn)[:80]}')); continue
        try: ok = s.is_valid(e)
        except Exception: ok = False
        if not ok:
            reasons = [x_.reason or '' for x_ in s.iter_errors(e)]
            if not (reasons and all(('xs:ID' in r_ or 'IDREF' in r_ or 'duplicated value' in r_ or 'not found for' in r_) for r_ in reasons)):
                bad.append(('soundness-jsonml', f'strict encode returned invalid XML for {str(m)[:160]}: {[r_[:60] for r_ in reasons][:1]}'))
    return dict(doc=doc, ver=ver, bad=bad[:4], cases=n)


BARE_PATHS = ['t:r/t:item/t:note', 't:r/t:item/t:mix', 't:r/t:item/u', 't:r/t:item/t:name', 't:r/t:item/t:box', 't:r/t:item', 't:r']


def eval_bare(ver):
    """strict encode of data for the element that `path` selects, every converter: data whose tag is not that element's (a bare JsonML ['tag'], a JsonML item with an attribute or
    a text, a data element with another tag) - the call raises a library error or returns an element that carries the selected declaration's name and that the declaration accepts"""
    import xmlschema
    s = _S.get(ver) or _S.setdefault(ver, _cls(ver)(SCHEMA)); bad = []; n = 0
    for path in BARE_PATHS:
        xe = s.find(path, namespaces=NS); own = 't:' + xe.local_name if xe.qualified else xe.local_name
        for tag in ('thing', 't:thing', 't:end', 'u', 't:r', own):
            forms = [('jsonml', [tag]), ('jsonml', [tag, 'x']), ('jsonml', [tag, {'lang': 'en'}]), ('jsonml', [tag, {'k': '1'}, 'x']),
                     ('dataelement', xmlschema.DataElement(tag=('{urn:t}' + tag[2:] if tag.startswith('t:') else tag), value='x'))]
            for cname, data in forms:
                n += 1
                try: e = s.encode(data, path=path, namespaces=NS, converter=converters()[cname])
                except xmlschema.XMLSchemaException: continue
                except Exception as exn: bad.append(dict(ver=ver, path=path, data=repr(data), observed=f'raised {type(exn).__name__}: {str(exn)[:80]}')); continue
                if not xe.is_matching(e.tag): bad.append(dict(ver=ver, path=path, data=repr(data), observed=f'returned <{e.tag}> for the declaration of {xe.name}'))
                elif not xe.is_valid(e): bad.append(dict(ver=ver, path=path, data=repr(data), observed=f'returned an element the declaration refuses: {[x.reason[:60] for x in xe.iter_errors(e)][:1]}'))
    return n, bad


FE_SCHEMA = '''<xs:schema xmlns:xs="http://www.w3.org/2001/XMLSchema"><xs:element name="r"><xs:complexType><xs:sequence>
 <xs:element name="empty" minOccurs="0"><xs:complexType><xs:attribute name="k" type="xs:int"/></xs:complexType></xs:element>
 <xs:element name="es" minOccurs="0"><xs:complexType><xs:sequence/></xs:complexType></xs:element>
 <xs:element name="eo" minOccurs="0"><xs:complexType><xs:sequence><xs:element name="a" minOccurs="0"/></xs:sequence></xs:complexType></xs:element>
 <xs:element name="mx" minOccurs="0"><xs:complexType mixed="true"><xs:attribute name="k" type="xs:int"/></xs:complexType></xs:element>
 <xs:element name="fx" type="xs:string" fixed="abc" minOccurs="0"/><xs:element name="fi" type="xs:int" fixed="7" minOccurs="0"/>
 <xs:element name="fs" fixed="7" minOccurs="0"><xs:complexType><xs:simpleContent><xs:extension base="xs:int"><xs:attribute name="u"/></xs:extension></xs:simpleContent></xs:complexType></xs:element>
 <xs:element name="fd" type="xs:decimal" fixed="1.50" minOccurs="0"/><xs:element name="ft" type="xs:token" fixed="a b" minOccurs="0"/>
</xs:sequence></xs:complexType></xs:element></xs:schema>'''
FE_DATA = [{'empty': {'@k': 1, '$': 'text'}}, {'empty': {'@k': 1}}, {'empty': {'@k': 1, '$': ' '}}, {'empty': {'@k': 1, '$': ''}}, {'empty': None}, {'empty': 'text'}, {'es': {'$': 'x'}}, {'es': {'$': ' '}}, {'es': None}, {'eo': {'$': ' '}}, {'eo': {'$': 'x'}},
           {'eo': {'$': ' ', 'a': None}}, {'mx': {'@k': 1, '$': 'text'}}, {'fx': 'zzz'}, {'fx': 'abc'}, {'fx': ''}, {'fx': None}, {'fx': ' abc'}, {'fi': 8}, {'fi': 7}, {'fi': '07'}, {'fi': '8'}, {'fi': None}, {'fs': {'@u': 'a', '$': 8}}, {'fs': {'@u': 'a', '$': 7}},
           {'fs': {'@u': 'a'}}, {'fd': 1.5}, {'fd': '1.5'}, {'fd': '1.51'}, {'ft': 'a  b'}, {'ft': 'a c'}, {'empty': {'@k': 1, '$': 5}}, {'eo': {'$': 0}}]


def eval_fixed_empty(ver):
    """strict encode of data that puts character data into an empty or element-only content, or a value beside the fixed value of an element: the call raises a library
    error or returns XML the schema accepts; the data that the schema's own decoding produces for a valid document is accepted"""
    import xmlschema
    s = _cls(ver)(FE_SCHEMA); bad = []; n = 0
    for data in FE_DATA:
        for cname in ('default', 'badgerfish'):
            n += 1; kw = dict(converter=converters()[cname]) if cname != 'default' else {}
            d = data if cname == 'default' else {'r': {k: (v if isinstance(v, dict) else ({'$': v} if v is not None else {})) for k, v in data.items()}}
            try: e = s.encode(d, path='r', **kw)
            except xmlschema.XMLSchemaException: continue
            except Exception as exn: bad.append(dict(ver=ver, data=repr(data), converter=cname, observed=f'raised {type(exn).__name__}: {str(exn)[:80]}')); continue
            if not s.is_valid(e): bad.append(dict(ver=ver, data=repr(data), converter=cname, observed=f'returned {xmlschema.etree_tostring(e)[:120]!r}, refused by the schema: {[x.reason[:60] for x in s.iter_errors(e)][:1]}'))
    for doc in ('<r><empty k="1"/><fx>abc</fx><fi>07</fi><fs u="a">7</fs><fd>1.5</fd><ft> a  b </ft></r>', '<r><es/><eo> </eo><mx k="1">text</mx><fx/><fi/></r>'):
        n += 1
        try:
            e = s.encode(s.decode(doc), path='r')
            if not s.is_valid(e): bad.append(dict(ver=ver, data=doc, converter='default', observed='the data decoded from a valid document encodes to an invalid one'))
        except xmlschema.XMLSchemaException as exn: bad.append(dict(ver=ver, data=doc, converter='default', observed=f'the data decoded from a valid document does not encode: {str(exn).strip().splitlines()[0][:100] if str(exn).strip() else type(exn).__name__}'))
    return n, bad


def run(tier, seed, open_findings):
    rng = random.Random(seed); n = 4000 if tier == 'thorough' else 80
    docs = [gen(rng) for _ in range(n)]
    # a namespace declaration on a CHILD of the root (data level 1): variants of the first generated documents
    L1 = [d.replace('<t:item ', '<t:item xmlns="urn:t" ', 1) for d in docs[:40] if '<u>plain</u>' in d.split('</t:item>', 1)[1] and '<u>plain</u>' not in d.split('</t:item>', 1)[0] and '<box>' not in d.split('</t:item>', 1)[0]][:3]
    docs = docs + L1
    jobs = [(ver, d, seed * 1000 + i) for i, d in enumerate(docs) for ver in ('1.0', '1.1')]
    res = pmap(eval_doc, jobs)
    fails = []; known = {}
    K1 = 'C05-declarations-on-a-child-of-the-root-taken-as-root-declarations'
    for r, j in zip(res, jobs):
        for b in r['bad']:
            if b[0] == 'soundness-identity' and 'C05-encode-skips-identity-constraints' in open_findings:
                known['C05-encode-skips-identity-constraints'] = known.get('C05-encode-skips-identity-constraints', 0) + 1; continue
            if r['doc'] in L1 and 'decode/encode raised XMLSchemaValidationError' in str(b[1]) and K1 in open_findings: known[K1] = known.get(K1, 0) + 1; continue
            fails.append(dict(case=dict(doc=r['doc'], ver=r['ver'], mseed=j[2]), observed=list(b), required='valid, structurally equal, same data; strict encode raises or returns valid XML'))
    cases = sum(r['cases'] for r in res)
    for nb, bb in pmap(eval_fixed_empty, ['1.0', '1.1'], chunk=1):
        cases += nb
        fails.extend(dict(case=dict(ver=b['ver'], fixed_empty=[b['data'], b['converter']]), observed=b['observed'], required='strict encode raises or returns XML the schema accepts') for b in bb)
    for nb, bb in pmap(eval_bare, ['1.0', '1.1'], chunk=1):
        cases += nb
        fails.extend(dict(case=dict(ver=b['ver'], bare=[b['path'], b['data']]), observed=b['observed'], required='strict encode raises or returns XML the selected declaration accepts') for b in bb)
    return [result('C05.roundtrip_and_encode_soundness', f'{len(docs)} generated valid documents x 2 classes x (5 converters round trip + 6 mutated data sets for strict encode)', cases, fails, known=known,
                   samples=[dict(doc=docs[0][:200])], distinct=cases)]


def replay(check_name, case):
    if case.get('fixed_empty'):
        bb = [b for b in eval_fixed_empty(case['ver'])[1] if [b['data'], b['converter']] == list(case['fixed_empty'])]
        return dict(ok=not bb, observed=bb[:1], required='strict encode raises or returns XML the schema accepts')
    if case.get('bare'):
        bb = [b for b in eval_bare(case['ver'])[1] if [b['path'], b['data']] == list(case['bare'])]
        return dict(ok=not bb, observed=bb[:1], required='strict encode raises or returns XML the selected declaration accepts')
    if case.get('dup_item'):
        s = _cls(case['ver'])(SCHEMA); d = s.decode(case['doc']); d['t:item'] = d['t:item'] + d['t:item'][:1]
        try: e = s.encode(d, path='t:r', namespaces=NS)
        except Exception as exn: return dict(ok=True, observed=f'raised {type(exn).__name__}', required='raise or valid')
        return dict(ok=s.is_valid(e), observed=[x.reason[:80] for x in s.iter_errors(e)][:2], required='strict encode raises or returns valid XML')
    r = eval_doc((case['ver'], case['doc'], case.get('mseed', 0)))
    return dict(ok=not r['bad'], observed=r['bad'], required='round trip / soundness')
