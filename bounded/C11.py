"""C11 bounded run-time contract (labelled bounded): every input ends in a verdict or a library error; documented limits hold.

Generated documents under seeded structural and lexical mutation (huge numbers and years, odd QNames, stray xsi attributes, unknown
namespaces, truncated and garbled byte streams): is_valid / iter_errors / lax decode / XMLResource() end in a verdict or an exception of
the library hierarchy; lax mode never raises for well-formed input.  Depth and element count swept across each limit (limit-1, limit,
limit+1) for eager and lazy resources and three limit settings.
"""
import random
from .common import pmap, result
from .C01 import _cls
from . import docgen
_S = {}
LEX = ['99999999999999999999999999', '-0', '1e999', 'INF', '٣', '1_000', 'ns:q:x', ':', 'xs:', '', ' ', '\x85', '0000-00-00', '99999-12-31', '2020-02-30T25:61:61', 'P1Y2M3DT4H5M6.7S', '-P0D', 'true ', 'é' * 40]


def mutate(rng, doc):
    op = rng.choice(['truncate', 'garble', 'lex', 'xsi', 'ns', 'dup', 'deep', 'swap', 'attr', 'rebind'])
    if op == 'rebind':
        # namespace declarations that shadow each other: synonymous prefixes on the root, several of them rebound on one descendant
        syn = rng.sample(['xmlns:p="urn:t"', 'xmlns:q="urn:t"', 'xmlns="urn:t"', 'xmlns:q="urn:o"', 'xmlns:p="urn:o"'], rng.randrange(1, 4))
        reb = rng.sample(['xmlns:p="urn:x"', 'xmlns:q="urn:y"', 'xmlns="urn:z"', 'xmlns:t2="urn:t"', 'xmlns:q="urn:t"'], rng.randrange(1, 4))
        def uniq(ds):
            seen = set(); out = []
            for d in ds:
                if d.split('=')[0] not in seen: seen.add(d.split('=')[0]); out.append(d)
            return ' '.join(out)
        where = rng.choice(['<t:item ', '<t:sub ', '<t:item '])
        return doc.replace('<t:r ', '<t:r ' + uniq(syn) + ' ', 1).replace(where, where + uniq(reb) + ' ', rng.randrange(1, 3))
    if op == 'truncate': return doc[:rng.randrange(1, len(doc))] if len(doc) > 1 else doc
    if op == 'garble':
        i = rng.randrange(len(doc)); return doc[:i] + rng.choice(['<', '>', '&', '\x00', '"', '</']) + doc[i + 1:]
    if op == 'lex':
        import re
        spots = [m for m in re.finditer(r'>([^<>]+)<|="([^"]*)"', doc)]
        if not spots: return doc
        m = rng.choice(spots); g = 1 if m.group(1) is not None else 2
        return doc[:m.start(g)] + rng.choice(LEX) + doc[m.end(g):]
    if op == 'xsi':
        x = rng.choice(['xsi:type="xs:int"', 'xsi:type="nope:T"', 'xsi:nil="maybe"', 'xsi:nil="true"', 'xsi:schemaLocation="a"', 'xsi:noNamespaceSchemaLocation="zz://x"', 'xsi:bogus="1"'])
        return doc.replace('<t:item ', f'<t:item xmlns:xsi="http://www.w3.org/2001/XMLSchema-instance" xmlns:xs="http://www.w3.org/2001/XMLSchema" {x} ', 1)
    if op == 'ns': return doc.replace('<t:name>', '<u:name xmlns:u="urn:unknown">', 1).replace('</t:name>', '</u:name>', 1)
    if op == 'dup': return doc.replace('</t:r>', doc[doc.find('<t:item'):doc.find('</t:item>') + 9] + '</t:r>', 1) if '<t:item' in doc else doc
    if op == 'deep': return doc.replace('<t:name>', '<t:name>' + '<t:x>' * 40, 1).replace('</t:name>', '</t:x>' * 40 + '</t:name>', 1)
    if op == 'swap': return doc.replace('<t:name>', '<t:qty>', 1).replace('</t:name>', '</t:qty>', 1)
    return doc.replace(' code="', ' code="' + rng.choice(LEX) + '" bogus="', 1)


def eval_doc(args):
    ver, doc = args
    import xmlschema
    s = _S.get(ver) or _S.setdefault(ver, _cls(ver)(docgen.schema_for(ver)))
    bad = []
    for name, f in (('is_valid', lambda d: s.is_valid(d)), ('iter_errors', lambda d: list(s.iter_errors(d))), ('decode_lax', lambda d: s.decode(d, validation='lax')),
                    ('decode_strict', lambda d: s.decode(d)), ('resource', lambda d: xmlschema.XMLResource(d)), ('lazy', lambda d: list(s.iter_errors(xmlschema.XMLResource(d, lazy=True)))),
                    ('bytes', lambda d: s.is_valid(d.encode('utf-8', 'surrogatepass')))):
        try: f(doc)
        except xmlschema.XMLSchemaException: pass
        except Exception as e: bad.append((name, f'{type(e).__name__}: {str(e)[:80]}'))
    # lax never raises for well-formed input
    try:
        xmlschema.XMLResource(doc); wf = True
    except Exception: wf = False
    if wf:
        for name, f in (('iter_errors', lambda d: list(s.iter_errors(d))), ('decode_lax', lambda d: s.decode(d, validation='lax'))):
            try: f(doc)
            except Exception as e: bad.append((name + '-lax-raised', f'{type(e).__name__}: {str(e)[:80]}'))
    return dict(doc=doc, ver=ver, bad=bad[:3])


def eval_limits(args):
    lazy, md, me, depth, n = args
    import xmlschema, xmlschema.limits as L    # the public module: assignments go through its setter to the values the loaders read
    from xmlschema.exceptions import XMLResourceExceeded
    # a chain of `depth` elements, the deepest one with n - depth extra leaf children (depth + 1 levels if there are leaves)
    leaves = n - depth
    docd = '<a>' * depth + '<b/>' * leaves + '</a>' * depth
    real_depth = depth + (1 if leaves else 0)
    old = (L.MAX_XML_DEPTH, L.MAX_XML_ELEMENTS); L.MAX_XML_DEPTH, L.MAX_XML_ELEMENTS = md, me
    try:
        import io
        gots = {}
        import tempfile, os
        fd, path = tempfile.mkstemp(prefix='verif_c11_', suffix='.xml'); os.write(fd, docd.encode()); os.close(fd)
        try:
            for kind, mk in (('text', lambda: docd), ('bytes', lambda: docd.encode()), ('path', lambda: path), ('open-binary', lambda: open(path, 'rb')), ('open-text', lambda: open(path)), ('BytesIO', lambda: io.BytesIO(docd.encode()))):
                src = mk()
                try:
                    r = xmlschema.XMLResource(src, lazy=lazy)
                    if lazy: sum(1 for _ in r.iter())
                    gots[kind] = 'loads'
                except XMLResourceExceeded: gots[kind] = 'refused'
                except Exception as e: gots[kind] = f'raised {type(e).__name__}'
                finally:
                    if hasattr(src, 'close'): src.close()
        finally: os.unlink(path)
    finally: L.MAX_XML_DEPTH, L.MAX_XML_ELEMENTS = old
    want = 'refused' if real_depth > md or (not lazy and n > me) else 'loads'
    wrong = {k: v for k, v in gots.items() if v != want}
    return None if not wrong else dict(lazy=lazy, max_depth=md, max_elements=me, depth=real_depth, elements=n, got=wrong, want=want)


ETYPES = {'integer': '1', 'int': '1', 'decimal': '1.5', 'double': '1.0E0', 'float': '1', 'gYear': '2000', 'gYearMonth': '2000-01', 'date': '2000-01-01', 'dateTime': '2000-01-01T00:00:00',
          'duration': 'P1D', 'yearMonthDuration': 'P1Y', 'time': '00:00:00', 'boolean': 'true', 'hexBinary': '0A', 'anyURI': 'a', 'QName': 'xs:a', 'unsignedByte': '1', 'gDay': '---01'}
EVALUES = ['9' * 400, '-' + '9' * 400, '99999999999999999999', '1e9999', '-1E-9999', 'INF', 'NaN', '99999999999999999999-01-01', '-99999999999999999999', '2000-01-01T00:00:00+99:99',
           'P99999999999999999999Y', 'PT1e5S', '1.' + '0' * 400 + '1', '0x10', '٣', '', ' ', 'xs:', ':a', '%zz', '---99', '25:00:00', '2000-13-45']
_E = {}


def eval_extreme(args):
    ver, t, v, role = args
    import xmlschema
    if ver == '1.0' and t == 'yearMonthDuration': return None
    key = (ver, t, role)
    if key not in _E:
        lit = ETYPES[t]; base = f'xs:{t}'
        if role == 'key': body = f'<xs:element name="y" type="{base}" maxOccurs="unbounded"/>'; ident = '<xs:key name="K"><xs:selector xpath="y"/><xs:field xpath="."/></xs:key>'
        elif role == 'attr-key': body = f'<xs:element name="y" maxOccurs="unbounded"><xs:complexType><xs:attribute name="v" type="{base}"/></xs:complexType></xs:element>'; ident = '<xs:unique name="K"><xs:selector xpath="y"/><xs:field xpath="@v"/></xs:unique>'
        elif role == 'alternative':
            # XSD 1.1 type alternatives whose tests build a value of the type from an untyped attribute, and divide: a dynamic error of the test is a false test
            body = (f'<xs:element name="y" maxOccurs="unbounded" type="xs:anyType"><xs:alternative test="xs:{t}(@v) = xs:{t}(\'{lit}\')" type="xs:string"/>'
                    f'<xs:alternative test="xs:integer(@v) idiv 0 = 1" type="xs:string"/><xs:alternative test="(1 div xs:double(@v)) gt 0 and xs:date(@v) gt xs:date(\'2000-01-01\')" type="xs:token"/></xs:element>'); ident = ''
        elif role == 'timezone':
            if t not in ('date', 'dateTime', 'time', 'gYear', 'gYearMonth', 'gDay'): _E[key] = None; return None
            body = ''.join(f'<xs:element name="{nm}" maxOccurs="unbounded" minOccurs="0"><xs:simpleType><xs:restriction base="{base}"><xs:explicitTimezone value="{val}"/></xs:restriction></xs:simpleType></xs:element>'
                           for nm, val in (('y', 'prohibited'), ('z', 'required'), ('o', 'optional'))); ident = ''
        elif role == 'enum': body = f'<xs:element name="y" maxOccurs="unbounded"><xs:simpleType><xs:restriction base="{base}"><xs:enumeration value="{lit}"/></xs:restriction></xs:simpleType></xs:element>'; ident = ''
        else:
            facet = 'maxLength' if t in ('hexBinary', 'anyURI', 'QName') else ('pattern' if t == 'boolean' else 'maxInclusive')
            body = f'<xs:element name="y" maxOccurs="unbounded"><xs:simpleType><xs:restriction base="{base}"><xs:{facet} value="{"5" if facet == "maxLength" else (".*" if facet == "pattern" else lit)}"/></xs:restriction></xs:simpleType></xs:element>'; ident = ''
        try: _E[key] = _cls(ver)(f'<xs:schema xmlns:xs="http://www.w3.org/2001/XMLSchema"><xs:element name="r"><xs:complexType><xs:sequence>{body}</xs:sequence></xs:complexType>{ident}</xs:element></xs:schema>')
        except xmlschema.XMLSchemaException as e: _E[key] = None
    s = _E[key]
    if s is None: return None
    from xml.sax.saxutils import escape, quoteattr
    lit = ETYPES[t]
    doc = '<r xmlns:xs="http://www.w3.org/2001/XMLSchema">' + ''.join(f'<y v={quoteattr(x)}/>' if role in ('attr-key', 'alternative') else f'<y>{escape(x)}</y>' for x in (v, lit, v)) + '</r>'
    if role == 'timezone': doc = doc.replace('</r>', ''.join(f'<{nm}>{escape(x)}</{nm}>' for nm in 'zo' for x in (v, lit + 'Z', lit)) + '</r>')
    bad = []
    for name, f in (('decode_skip', lambda: s.decode(doc, validation='skip')), ('is_valid', lambda: s.is_valid(doc)), ('iter_errors', lambda: list(s.iter_errors(doc))), ('decode_lax', lambda: s.decode(doc, validation='lax')), ('lazy', lambda: list(s.iter_errors(xmlschema.XMLResource(doc, lazy=True))))):
        try: f()
        except xmlschema.XMLSchemaException as e: bad.append((name, 'lax raised ' + type(e).__name__))
        except Exception as e: bad.append((name, f'{type(e).__name__}: {str(e)[:80]}'))
    return dict(ver=ver, type=t, value=v, role=role, bad=bad) if bad else None


def eval_blocked(args):
    ver, hb, ab, hB = args
    import xmlschema
    from . import C07
    try: s = C07.subst_schema(ver, hb, ab, hB)
    except xmlschema.XMLSchemaException: return dict(args=args, cases=0, bad=[])
    XSI = 'xmlns:xsi="http://www.w3.org/2001/XMLSchema-instance"'
    docs = ['<r><m1><a>x</a><b>x</b></m1></r>', '<r><m2><a>x</a><b>x</b><c>x</c></m2></r>', '<r><h><a>x</a></h></r>', f'<r><h {XSI} xsi:type="E1"><a>x</a><b>x</b></h></r>',
            f'<r><m1 {XSI} xsi:type="E2"><a>x</a><b>x</b><c>x</c></m1></r>', f'<r><m1 {XSI} xsi:type="Nope"><a>x</a></m1></r>', f'<r><h {XSI} xsi:type="R1"><a>x</a></h></r>', '<r><other><a>x</a></other></r>', '<r><m1/></r>']
    bad = []; n = 0
    for d in docs:
        for name, f in (('iter_errors', lambda: list(s.iter_errors(d))), ('is_valid', lambda: s.is_valid(d)), ('decode_lax', lambda: s.decode(d, validation='lax')), ('decode_skip', lambda: s.decode(d, validation='skip'))):
            n += 1
            try: f()
            except Exception as e: bad.append((d, f'{name} raised {type(e).__name__}: {str(e)[:80]}'))
    return dict(args=args, cases=n, bad=bad[:3])


ENC_DOCS = {'unknown-encoding': b'<?xml version="1.0" encoding="foo-8"?><t:r xmlns:t="urn:t"/>', 'multi-byte-encoding': b'<?xml version="1.0" encoding="utf-7"?><t:r xmlns:t="urn:t"/>',
            'utf-16-declared-utf-8': '<?xml version="1.0" encoding="utf-8"?><t:r xmlns:t="urn:t"/>'.encode('utf-16'), 'utf-32': '<t:r xmlns:t="urn:t"/>'.encode('utf-32'),
            'bad-byte-in-utf-8': b'<?xml version="1.0" encoding="utf-8"?><t:r xmlns:t="urn:t">\xe9</t:r>', 'ebcdic': '<?xml version="1.0" encoding="cp037"?><t:r xmlns:t="urn:t"/>'.encode('cp037'),
            'empty-encoding': b'<?xml version="1.0" encoding=""?><t:r xmlns:t="urn:t"/>', 'latin-1': '<?xml version="1.0" encoding="iso-8859-1"?><t:r xmlns:t="urn:t">\xe9</t:r>'.encode('latin-1'),
            'encoding-in-doctype-doc': b'<?xml version="1.0" encoding="foo-8"?><!DOCTYPE r [<!ENTITY e "x">]><t:r xmlns:t="urn:t">&e;</t:r>'}


def encodings():
    """documents whose encoding declaration the parser does not know, does not support or that lies about the bytes: a verdict or an exception of the library hierarchy,
    from every source kind, eager and lazy, with and without the defusing pass"""
    import io, os, tempfile, xmlschema
    s = _cls('1.0')(docgen.schema_for('1.0')); fails = []; n = 0
    for name, data in ENC_DOCS.items():
        fd, path = tempfile.mkstemp(prefix='verif_c11_', suffix='.xml'); os.write(fd, data); os.close(fd)
        try:
            for kind, mk in (('bytes', lambda: data), ('path', lambda: path), ('BytesIO', lambda: io.BytesIO(data)), ('open-binary', lambda: open(path, 'rb'))):
                for lazy, defuse in ((False, 'remote'), (True, 'remote'), (False, 'always'), (True, 'always')):
                    for api in ('is_valid', 'iter_errors', 'lax-decode'):
                        n += 1; src = mk()
                        try:
                            r = xmlschema.XMLResource(src, lazy=lazy, defuse=defuse)
                            if api == 'is_valid': s.is_valid(r)
                            elif api == 'iter_errors': list(s.iter_errors(r))
                            else: s.decode(r, validation='lax')
                        except xmlschema.XMLSchemaException: pass
                        except Exception as e:
                            if len(fails) < 12: fails.append(dict(case=dict(encoding_doc=name, source=kind, lazy=lazy, defuse=defuse, api=api), observed=f'{type(e).__name__}: {str(e)[:80]}', required='a verdict or an exception of the library hierarchy'))
                        finally:
                            if hasattr(src, 'close'): src.close()
        finally: os.unlink(path)
    return result('C11.encoding_declarations', f'{len(ENC_DOCS)} byte documents with unknown / unsupported / wrong encoding declarations x 4 source kinds x eager / lazy x defuse remote / always x 3 entry points', n, fails, exhaustive=True,
                  samples=[dict(doc='<?xml version="1.0" encoding="foo-8"?>...')])


def run(tier, seed, open_findings):
    rng = random.Random(seed); n = 12000 if tier == 'thorough' else 300
    docs = []
    for _ in range(n):
        d = docgen.gen(rng, rng.randrange(1, 4))
        for _ in range(rng.randrange(1, 3)): d = mutate(rng, d)
        docs.append(d)
    # sources that are not XML text at all (a str that does not start with '<' is taken as a location)
    docs += ['', ' ', '\x00<t:r xmlns:t="urn:t"/>', 'a\x00b.xml', '<', '<t:r', '</t:r>', 'plain text', '\ufeff<t:r xmlns:t="urn:t"/>', 'file:///nonexistent/\x00', 'http://[bad', '\\\\unc\\x', 'C:\\x.xml', '%zz', '<?xml version="9"?><r/>', '<!DOCTYPE']
    # an xsi:nil that is not a boolean on a nillable element, an xsi:type that is not a QName: errors found before the content is looked at
    docs += [f'<t:r xmlns:t="urn:t" xmlns:xsi="http://www.w3.org/2001/XMLSchema-instance"><t:item id="i0" code="0"><t:name>n</t:name><t:qty>1</t:qty><t:val {a_}/></t:item></t:r>'
             for a_ in ('xsi:nil="yes"', 'xsi:nil="TRUE"', 'xsi:nil=""', 'xsi:nil="true" xsi:type="::"', 'xsi:type="a:b:c"', 'xsi:nil="1" x="y"')]
    jobs = [(ver, d) for d in docs for ver in ('1.0', '1.1')]
    res = pmap(eval_doc, jobs)
    fails = []; mknown = {}
    import re as _re
    for r in res:
        for b in r['bad']:
            if b[0] == 'lazy' and b[1].startswith(('AssertionError', 'ElementPath')) and not _re.search(r'<t:r xmlns:t="urn:t"', r['doc']) and 'C11-lazy-numeric-namespace-assertion' in open_findings:
                mknown['C11-lazy-numeric-namespace-assertion'] = mknown.get('C11-lazy-numeric-namespace-assertion', 0) + 1; continue
            fails.append(dict(case=dict(doc=r['doc'], ver=r['ver']), observed=list(b), required='a verdict or an exception of the library hierarchy; lax never raises on well-formed input'))
    out = [result('C11.mutated_documents', f'{len(docs)} mutated documents x 2 classes x 7 entry points', len(jobs) * 7, fails, known=mknown, samples=[dict(doc=docs[0][:160])], distinct=len(set(docs)) * 2)]
    ljobs = []
    for lazy in (False, True):
        for md in (2, 5, 40):
            for dpt in (md - 1, md, md + 1):
                if dpt >= 1: ljobs.append((lazy, md, 10 ** 6, dpt, dpt))
        for me in (1, 7, 50, 3000):
            for cnt in (me - 1, me, me + 1):
                if cnt >= 1: ljobs.append((lazy, 1000, me, 1, cnt))
    lres = [eval_limits(j) for j in ljobs]
    lf = [dict(case=dict(lazy=r['lazy'], max_depth=r['max_depth'], max_elements=r['max_elements'], depth=r['depth'], elements=r['elements']), observed=r['got'], required=r['want']) for r in lres if r]
    out.append(result('C11.limit_sweep', f'{len(ljobs)} (lazy, limit setting, size) points at limit-1, limit, limit+1 for depth and element count x 6 source kinds (text, bytes, path, open binary / text files, BytesIO)', len(ljobs), lf, exhaustive=True,
                      samples=[dict(lazy=False, max_depth=5, depth=5)]))
    # extreme lexical values where a typed value is computed outside the datatype decoder: identity fields (XPath typed value) and facets
    ejobs = [(ver, t, v, role) for ver in ('1.0', '1.1') for t in ETYPES for v in EVALUES for role in ('key', 'enum', 'range', 'attr-key') + (('alternative', 'timezone') if ver == '1.1' else ())]
    eres = pmap(eval_extreme, ejobs)
    out.append(result('C11.extreme_values_in_fields_and_facets', f'{len(ETYPES)} builtin types x {len(EVALUES)} extreme values x (key field, attribute key field, enumeration, range facet) x 2 classes x 3 entry points',
                      len(ejobs) * 3, [dict(case=dict(extreme=True, ver=r['ver'], type=r['type'], value=r['value'], role=r['role']), observed=r['bad'], required='a verdict or a library exception')
                                       for r in eres if r], exhaustive=True, samples=[dict(type='gYear', value='99999999999999999999', role='key')]))
    # invalid content whose error is raised by a helper (blocked substitutions, blocked xsi:type derivations on a substitute): lax and skip never raise
    from . import C07
    bjobs = [(ver, hb, ab, hB) for ver in ('1.0', '1.1') for hb in (None, 'extension', 'restriction', 'substitution', '#all') for ab in (False, True) for hB in (None, 'extension', '#all')]
    bres = pmap(eval_blocked, bjobs, procs=8)
    out.append(result('C11.lax_never_raises_on_blocked_substitutions', f'{len(bjobs)} substitution-group schemas (head block x abstract member x type block x 2 classes) x 9 documents x (iter_errors, is_valid, lax decode, skip decode)',
                      sum(r['cases'] for r in bres), [dict(case=dict(blocked=True, args=list(r['args']), doc=b[0]), observed=b[1], required='a verdict / collected errors: lax and skip never raise') for r in bres for b in r['bad']],
                      exhaustive=True, samples=[dict(head_block='extension', doc='<r><m1><a>x</a><b>x</b></m1></r>')]))
    # deep nesting well within MAX_XML_DEPTH: validation must not end in RecursionError
    deep = []; known = {}
    for ver in ('1.0', '1.1'):
        import xmlschema
        s = _cls(ver)(f'<xs:schema xmlns:xs="http://www.w3.org/2001/XMLSchema"><xs:element name="a"><xs:complexType><xs:sequence><xs:element ref="a" minOccurs="0"/></xs:sequence></xs:complexType></xs:element></xs:schema>')
        for depth in (100, 300, 900):
            d = '<a>' * depth + '</a>' * depth
            try: ok = s.is_valid(d) is True
            except xmlschema.XMLSchemaException: ok = True
            except RecursionError:
                ok = False
            if not ok:
                if 'C11-recursion-error-deep-nesting' in open_findings: known['C11-recursion-error-deep-nesting'] = known.get('C11-recursion-error-deep-nesting', 0) + 1
                else: deep.append(dict(case=dict(ver=ver, depth=depth), observed='RecursionError', required='verdict or library error (depth is below MAX_XML_DEPTH = 1000)'))
    out.append(result('C11.deep_nesting', 'recursive element nested 100, 300 and 900 levels (below MAX_XML_DEPTH), both classes', 6, deep, exhaustive=True, known=known, samples=[dict(depth=300)]))
    out.append(encodings())
    return out


def replay(check_name, case):
    if case.get('encoding_doc'):
        r = encodings(); mine = [f for f in r['failures'] if f['case'] == case]; return dict(ok=not mine, observed=mine[:1], required='a verdict or a library exception')
    if case.get('blocked'):
        r = eval_blocked(tuple(case['args'])); mine = [b for b in r['bad'] if b[0] == case['doc']]
        return dict(ok=not mine, observed=mine, required='lax and skip never raise')
    if case.get('extreme'):
        r = eval_extreme((case['ver'], case['type'], case['value'], case['role']))
        return dict(ok=r is None, observed=r, required='a verdict or a library exception')
    if check_name == 'C11.limit_sweep':
        r = eval_limits((case['lazy'], case['max_depth'], case['max_elements'], case['depth'] if case['elements'] == case['depth'] else 1, case['elements']))
        return dict(ok=r is None, observed=r, required='refused exactly when a limit is exceeded')
    if check_name == 'C11.deep_nesting':
        import xmlschema
        s = _cls(case['ver'])(f'<xs:schema xmlns:xs="http://www.w3.org/2001/XMLSchema"><xs:element name="a"><xs:complexType><xs:sequence><xs:element ref="a" minOccurs="0"/></xs:sequence></xs:complexType></xs:element></xs:schema>')
        d = '<a>' * case['depth'] + '</a>' * case['depth']
        try: s.is_valid(d); return dict(ok=True, observed='verdict', required='verdict or library error')
        except xmlschema.XMLSchemaException: return dict(ok=True, observed='library error', required='')
        except RecursionError: return dict(ok=False, observed='RecursionError', required='verdict or library error')
    r = eval_doc((case['ver'], case['doc']))
    return dict(ok=not r['bad'], observed=r['bad'], required='verdict or library error')
