"""C20 bounded run-time contract (labelled bounded): schema paths match instance paths; partial decoding equals the full result.

A schema in which the local name `v` has two different declarations, plus a global reference and a substitution member.  For every element
of generated documents: schema.find(path(e)) is the declaration that governed e, as observed through the public validation_hook;
iter_errors(path=p) equals the whole-document errors restricted to the selected subtree(s) (positional and non-positional paths; a unique
constraint on the repeated intermediate element a); with max_depth the errors
above the cut are unchanged.
"""
import random
from .common import pmap, result
from .C01 import _cls
XS = 'xmlns:xs="http://www.w3.org/2001/XMLSchema"'
SCHEMA = f'''<xs:schema {XS} targetNamespace="urn:t" xmlns:t="urn:t" elementFormDefault="qualified">
 <xs:element name="archive"><xs:complexType><xs:sequence><xs:element name="a" type="xs:date" maxOccurs="unbounded"/><xs:element name="d" type="xs:int" minOccurs="0"/></xs:sequence></xs:complexType></xs:element>
 <xs:element name="r"><xs:complexType><xs:sequence>
   <xs:element name="a" maxOccurs="unbounded"><xs:complexType><xs:sequence>
       <xs:element name="v" type="xs:int" maxOccurs="unbounded"/>
       <xs:element name="w" type="xs:QName" minOccurs="0"/>
       <xs:element name="b" minOccurs="0"><xs:complexType><xs:sequence><xs:element name="v" type="xs:date"/></xs:sequence></xs:complexType></xs:element>
     </xs:sequence><xs:attribute name="lang" type="xs:language"/></xs:complexType><xs:unique name="UV"><xs:selector xpath="t:v"/><xs:field xpath="."/></xs:unique></xs:element>
   <xs:element ref="t:g" minOccurs="0" maxOccurs="unbounded"/>
   <xs:sequence minOccurs="0" maxOccurs="unbounded"><xs:element name="d" type="xs:date"/><xs:element name="n" type="xs:int"/></xs:sequence>
  </xs:sequence></xs:complexType></xs:element>
 <xs:element name="g" type="xs:token"/><xs:element name="g2" type="xs:NCName" substitutionGroup="t:g"/>
</xs:schema>'''
NS = {'t': 'urn:t'}
_S = {}


def gen(rng):
    parts = []
    for i in range(rng.randrange(1, 4)):
        vs = ''.join(f'<t:v>{rng.choice(["1", "22", "x", "1"])}</t:v>' for _ in range(rng.randrange(1, 4)))
        b = f'<t:b><t:v>{rng.choice(["2020-01-01", "nope"])}</t:v></t:b>' if rng.random() < .6 else ''
        w = f'<t:w>{rng.choice(["p:x", "t:y", "z"])}</t:w>' if rng.random() < .5 else ''
        lang = ' lang="en"' if (i + len(vs)) % 3 == 0 else ''          # under XSD 1.1 the attribute is inheritable: the validator goes on with a copy of its context below such an element
        parts.append(f'<t:a{lang}{rng.choice(["", "", " xmlns:p=" + chr(34) + "urn:p" + chr(34)])}>{vs}{w}{b}</t:a>')
    for i in range(rng.randrange(0, 3)): parts.append(rng.choice(['<t:g>tok</t:g>', '<t:g2>nc</t:g2>', '<t:g2>1bad</t:g2>']))
    # declarations with maxOccurs = 1 that repeat through their enclosing group: d[2], n[3] name real nodes
    for i in range(rng.randrange(0, 4)): parts.append(f'<t:d>{rng.choice(["2024-01-01", "2024-13-01"])}</t:d><t:n>{rng.choice(["1", "x"])}</t:n>')
    return '<t:r xmlns:t="urn:t">' + ''.join(parts) + '</t:r>'


def path_of(root, elem, positional, parent):
    steps = []; n = elem
    while n is not root:
        p = parent[n]; name = 't:' + n.tag.split('}')[1]
        if positional:
            same = [c for c in p if c.tag == n.tag]; name += f'[{same.index(n) + 1}]'
        steps.append(name); n = p
    return '/t:r/' + '/'.join(reversed(steps)) if steps else '/t:r'


def eval_doc(args):
    ver, doc = args
    import xmlschema
    from xml.etree import ElementTree as ET
    s = _S.get(ver) or _S.setdefault(ver, _cls(ver)(SCHEMA.replace('name="lang" type="xs:language"', 'name="lang" type="xs:language" inheritable="true"') if ver == '1.1' else SCHEMA))
    res = xmlschema.XMLResource(doc); root = res.root; parent = {c: p for p in root.iter() for c in p}       # from text: prefixes declared in the document stay known
    governing = {}

    def hook(e, x): governing[e] = x; return False
    bad = []; n = 0; known = []; known2 = []
    try:
        full_errs = list(s.iter_errors(res, validation_hook=hook, namespaces=NS))
        for e in root.iter():
            n += 1
            found = s.find(path_of(root, e, False, parent), NS); gov = governing.get(e)
            if gov is not None and found is not gov and getattr(gov, 'ref', None) is not found and getattr(found, 'ref', None) is not gov:
                if not (found is not None and found.name != gov.name and gov.name in [x.name for x in found.iter_substitutes()]):
                    bad.append(('find', path_of(root, e, False, parent), repr(found), repr(gov)))
            if e is not root:
                p = path_of(root, e, True, parent)
                perrs = [x.reason for x in s.iter_errors(res, path=p, namespaces=NS)]
                sub = set(e.iter()); want = [x.reason for x in full_errs if x.elem in sub]
                # a uniqueness error relates two nodes of one scope element (a): when a single v is selected its partner lies outside the part, so
                # the error is not an error "of that part"; it is compared for parts that contain the scope element and for non-positional paths
                if e.tag.endswith('}v'): want = [w for w in want if not w.startswith('duplicated value')]
                if parent[e] is root:
                    # the same part named relative to the document root ('t:a[2]', './t:a[2]'): the schema path is derived from the root's own declaration, not from any global
                    rel = p.split('/', 2)[2]
                    for rp in (rel, './' + rel):
                        rerrs = [x.reason for x in s.iter_errors(res, path=rp, namespaces=NS)]
                        if sorted(rerrs) != sorted(perrs): bad.append(('relative path', rp, rerrs[:2], perrs[:2]))
                if sorted(perrs) != sorted(want):
                    if e.tag.endswith('}w') and 'xmlns:p' in doc and [x for x in perrs if 'unmapped prefix' not in x] == [x for x in want if 'unmapped prefix' not in x]: known.append(p)
                    else: bad.append(('partial errors', p, perrs[:2], want[:2]))
                pd = s.decode(res, path=p, namespaces=NS, validation='lax')[0]
                fd = None
        # non-positional paths select elements under several instances of an ancestor; the identity constraint declared on that ancestor
        # (xs:unique on a) must be applied per instance exactly as in the whole-document run
        for p in sorted({path_of(root, e, False, parent) for e in root.iter() if e is not root}):
            n += 1
            sel = [e for e in root.iter() if e is not root and path_of(root, e, False, parent) == p]
            sub = set(x for e in sel for x in e.iter())
            perrs = [x.reason for x in s.iter_errors(res, path=p, namespaces=NS)]
            want = [x.reason for x in full_errs if x.elem in sub]
            if sorted(perrs) != sorted(want):
                if p.endswith('/t:w') and 'xmlns:p' in doc and [x for x in perrs if 'unmapped prefix' not in x] == [x for x in want if 'unmapped prefix' not in x]: known.append(p)
                else: bad.append(('partial errors (non-positional path)', p, perrs[:3], want[:3]))
        for md in (1, 2, 3):
            derrs = [(x.reason, x.path) for x in s.iter_errors(res, max_depth=md, namespaces=NS)]

            def depth(el):
                d = 0
                while el is not root: el = parent[el]; d += 1
                return d
            want = [(x.reason, x.path) for x in full_errs if x.elem is not None and depth(x.elem) < md]
            if sorted(derrs) != sorted(want): bad.append(('max_depth', md, derrs[:2], want[:2]))
        # default-namespace forms: the same unprefixed path string used for documents of two different default namespaces, one after the
        # other in this process (selectors are cached): each partial result must equal the restriction of that document's full result
        for ns, us in (('urn:t', False), ('urn:u', False), ('urn:u', True)):
            # us: the global element g is spelled g_h in schema and document (an NCName with an underscore in a path under a default namespace)
            sk = (ver, ns, us)
            if ns == 'urn:t' and not us: su = s
            else:
                su = _S.get(sk) or _S.setdefault(sk, _cls(ver)((SCHEMA.replace('t:g"', 't:g_h"').replace('name="g"', 'name="g_h"') if us else SCHEMA).replace('urn:t', ns)))
            d2 = doc.replace('xmlns:t="urn:t"', f'xmlns="{ns}"').replace('<t:', '<').replace('</t:', '</')
            if us: d2 = d2.replace('<g>', '<g_h>').replace('</g>', '</g_h>')
            full = su.decode(d2, validation='lax')
            for upath, key in (('/r/a', 'a'), ('/r/g_h' if us else '/r/g', 'g_h' if us else 'g'), ('/r/g2', 'g2')):        # g2: a member standing for its head, named by an unprefixed step
                if key == 'g2' and '<g2>' not in d2: continue
                n += 1
                part = su.decode(d2, path=upath, validation='lax', namespaces={'': ns})
                # the errors of the part are the errors of the whole document located in the selected elements
                werrs = sorted(x.reason for x in su.iter_errors(d2) if x.elem is not None and x.elem.tag.split('}')[-1] == key and 'duplicated value' not in (x.reason or ''))
                perrs = sorted(x.reason for x in su.iter_errors(d2, path=upath, namespaces={'': ns}) if x.elem is not None and x.elem.tag.split('}')[-1] == key and 'duplicated value' not in (x.reason or ''))
                if werrs != perrs: bad.append(('default-namespace path: errors of the part', ns, upath, perrs[:2], werrs[:2]))
                want = full[0].get(key) if isinstance(full[0], dict) else None
                got = part[0]
                if want is not None and not isinstance(want, list): want = [want]
                if got is not None and not isinstance(got, list): got = [got]
                if (want or None) != (got or None):
                    def strip(d):
                        if isinstance(d, dict):
                            x = {k: strip(v) for k, v in d.items() if not k.startswith('@xmlns')}
                            return x['$'] if set(x) == {'$'} else x        # a simple value selected at level 0 is reported with its declarations: {'@xmlns': .., '$': v}
                        return [strip(x) for x in d] if isinstance(d, list) else d
                    if strip(want or None) == strip(got or None): known2.append(upath)
                    else: bad.append(('default-namespace path', ns, upath, str(got)[:60], str(want)[:60]))
    except Exception as e:
        bad.append(('exception', f'{type(e).__name__}: {e}'))
    return dict(doc=doc, ver=ver, cases=n, bad=bad[:3], known=known, known2=known2)


# ---------------------------------------------------------------- a no-namespace schema written with the XSD namespace as its default namespace
SCHEMA_DEF = '''<schema xmlns="http://www.w3.org/2001/XMLSchema"><element name="root"><complexType><sequence>
 <element name="a" maxOccurs="unbounded"><complexType><sequence><element name="v" type="int" maxOccurs="unbounded"/>
   <element name="b" minOccurs="0"><complexType><sequence><element name="v" type="date"/></sequence></complexType></element></sequence></complexType></element>
 </sequence></complexType></element></schema>'''


def eval_nons(args):
    ver, doc = args
    import xmlschema
    s = _S.get((ver, 'def')) or _S.setdefault((ver, 'def'), _cls(ver)(SCHEMA_DEF))
    res = xmlschema.XMLResource(doc); root = res.root; parent = {c: p for p in root.iter() for c in p}
    bad = []; n = 0
    def path_of(e, positional):
        steps = []; x = e
        while x is not root:
            p = parent[x]; name = x.tag
            if positional: name += f'[{[c for c in p if c.tag == x.tag].index(x) + 1}]'
            steps.append(name); x = p
        return '/root/' + '/'.join(reversed(steps))
    governing = {}
    def hook(e, x): governing[e] = x; return False
    try:
        full = list(s.iter_errors(res, validation_hook=hook))
        for e in root.iter():
            if e is root: continue
            n += 1
            found = s.find(path_of(e, False), {}); gov = governing.get(e)        # the instance declares nothing: an EMPTY map (None would mean the schema's own declarations)
            if gov is not None and found is not gov: bad.append(('find', path_of(e, False), repr(found), repr(gov)))
            p = path_of(e, True)
            perrs = sorted(x.reason for x in s.iter_errors(res, path=p)); want = sorted(x.reason for x in full if x.elem in set(e.iter()))
            if perrs != want: bad.append(('partial errors', p, perrs[:2], want[:2]))
            if s.is_valid(res, path=p) != (not want): bad.append(('partial verdict', p))
        lz = sorted(x.reason for x in s.iter_errors(xmlschema.XMLResource(doc, lazy=True)))
        if lz != sorted(x.reason for x in full): bad.append(('lazy errors', len(lz), len(full)))
    except Exception as e: bad.append(('exception', f'{type(e).__name__}: {e}'))
    return dict(doc=doc, ver=ver, cases=n, bad=bad[:3])


MANUAL = '''<xs:schema xmlns:xs="http://www.w3.org/2001/XMLSchema"><xs:element name="manual"><xs:complexType><xs:sequence>
 <xs:element name="chapter" maxOccurs="unbounded"><xs:complexType><xs:sequence>
   <xs:element name="p" minOccurs="0" maxOccurs="unbounded"><xs:complexType><xs:simpleContent><xs:extension base="xs:int"><xs:attribute name="id" type="xs:ID"/><xs:attribute name="see" type="xs:IDREF"/></xs:extension></xs:simpleContent></xs:complexType></xs:element>
   <xs:element name="n" type="xs:string" minOccurs="0" maxOccurs="unbounded"/>
   <xs:element name="l" minOccurs="0" maxOccurs="unbounded"><xs:simpleType><xs:list itemType="xs:int"/></xs:simpleType></xs:element>
  </xs:sequence><xs:attribute name="id" type="xs:ID"/><xs:attribute name="next" type="xs:IDREF"/></xs:complexType></xs:element></xs:sequence></xs:complexType></xs:element></xs:schema>'''


def gen_manual(rng, dangling):
    ids = []; chapters = []
    for c in range(rng.randrange(2, 4)):
        ids.append(f'c{c}'); chapters.append((f'c{c}', [f'p{c}{k}' for k in range(rng.randrange(0, 3))])); ids += chapters[-1][1]
    ref = lambda: 'nowhere' if dangling and rng.random() < .3 else rng.choice(ids)
    out = '<manual>'
    for cid, ps in chapters:
        out += f'<chapter id="{cid}" next="{ref()}">' + ''.join(f'<p id="{p_}"' + (f' see="{ref()}"' if rng.random() < .6 else '') + f'>{rng.choice(["1", "x"])}</p>' for p_ in ps) + \
            ''.join(f'<n>{rng.choice(["", "t", "u"])}</n>' for _ in range(rng.randrange(0, 4))) + ''.join(f'<l>{rng.choice(["1 2", "3", "", "4 x"])}</l>' for _ in range(rng.randrange(0, 4))) + '</chapter>'
    return out + '</manual>'


def eval_refs(args):
    """xs:ID / xs:IDREF across the parts of a document: a part that refers to an ID outside it (or below the depth limit) has the errors of that part in the whole document - a
    reference that the whole document resolves is not an error of the part"""
    ver, doc, dangling = args
    import xmlschema
    s = _S.get((ver, 'man')) or _S.setdefault((ver, 'man'), _cls(ver)(MANUAL))
    res = xmlschema.XMLResource(doc); root = res.root; parent = {c: p for p in root.iter() for c in p}
    depth = {root: 0}
    for e in root.iter():
        for c in e: depth[c] = depth[e] + 1
    bad = []; n = 0
    def path_of(e):
        steps = []; x = e
        while x is not root:
            p = parent[x]; steps.append(f'{x.tag}[{[c for c in p if c.tag == x.tag].index(x) + 1}]'); x = p
        return '/manual/' + '/'.join(reversed(steps)) if steps else '/manual'
    try:
        full = list(s.iter_errors(res))
        for e in root.iter():
            if e is root: continue
            n += 1; p = path_of(e); sub = set(e.iter())
            want = sorted(x.reason for x in full if x.elem in sub)
            perrs = sorted(x.reason for x in s.iter_errors(res, path=p))
            if perrs != want: bad.append(('partial errors', p, perrs[:2], want[:2]))
            derrs = sorted(x.reason for x in s.decode(res, path=p, validation='lax')[1])
            if derrs != want: bad.append(('partial decode errors', p, derrs[:2], want[:2]))
        # a path that selects several elements: the data is the list of what each of them decodes to, in document order (None for a value that does not decode, included)
        for k, ch in enumerate(root, 1):
            for tag in ('p', 'n', 'l'):
                ps = [c for c in ch if c.tag == tag]
                if len(ps) < 2: continue
                n += 1
                one = [s.decode(res, path=f'/manual/chapter[{k}]/{tag}[{j}]', validation='lax')[0] for j in range(1, len(ps) + 1)]
                many = s.decode(res, path=f'/manual/chapter[{k}]/{tag}', validation='lax')[0]
                if many != one: bad.append(('data of a path that selects several elements', f'/manual/chapter[{k}]/{tag}', repr(many)[:80], repr(one)[:80]))
        if not dangling:
            for md in (1, 2, 3):
                n += 1
                want = sorted(x.reason for x in full if depth[x.elem] < md)
                got = sorted(x.reason for x in s.iter_errors(res, max_depth=md))
                if got != want: bad.append(('max_depth errors', md, got[:2], want[:2]))
                got = sorted(x.reason for x in s.decode(res, max_depth=md, validation='lax')[1])
                if got != want: bad.append(('max_depth decode errors', md, got[:2], want[:2]))
    except Exception as e: bad.append(('exception', f'{type(e).__name__}: {e}'))
    return dict(doc=doc, ver=ver, dangling=dangling, cases=n, bad=bad[:3])


EXT_A = '''<xs:schema xmlns:xs="http://www.w3.org/2001/XMLSchema" targetNamespace="urn:a" xmlns:a="urn:a" elementFormDefault="qualified">
 <xs:element name="root"><xs:complexType><xs:sequence><xs:element name="container" maxOccurs="unbounded"><xs:complexType><xs:sequence>
   <xs:element ref="a:head" maxOccurs="unbounded"/></xs:sequence></xs:complexType></xs:element></xs:sequence></xs:complexType></xs:element>
 <xs:element name="head" type="xs:decimal"/></xs:schema>'''
EXT_B = '''<xs:schema xmlns:xs="http://www.w3.org/2001/XMLSchema" targetNamespace="urn:b" xmlns:a="urn:a" xmlns:b="urn:b" elementFormDefault="qualified">
 <xs:import namespace="urn:a" schemaLocation="a.xsd"/><xs:element name="m" type="xs:int" substitutionGroup="a:head"/></xs:schema>'''


def eval_extended(args):
    """path lookups made BEFORE the schema is extended (another namespace imported and built, the maps cleared and rebuilt) do not bind later ones: after the extension a path
    resolves to the declaration that governs the element in a whole-document run, and partial validation / decoding agree with it"""
    ver, how = args
    import xmlschema, tempfile, shutil, os
    d = tempfile.mkdtemp(prefix='verif_c20_'); bad = []
    try:
        open(os.path.join(d, 'a.xsd'), 'w').write(EXT_A); open(os.path.join(d, 'b.xsd'), 'w').write(EXT_B)
        s = _cls(ver)(os.path.join(d, 'a.xsd')); ns = {'a': 'urn:a', 'b': 'urn:b'}
        first = s.find('/a:root/a:container', ns)
        list(s.iter_errors('<a:root xmlns:a="urn:a"><a:container><a:head>1.5</a:head></a:container></a:root>', path='/a:root/a:container'))
        if how == 'import': s.import_schema('urn:b', os.path.join(d, 'b.xsd'), build=True)
        elif how == 'rebuild': s.maps.clear(); s.build()
        else: s.add_schema(open(os.path.join(d, 'b.xsd')), namespace='urn:b', build=True)
        doc = '<a:root xmlns:a="urn:a" xmlns:b="urn:b"><a:container><a:head>1.5</a:head>' + ('<b:m>x</b:m><b:m>7</b:m>' if how != 'rebuild' else '<a:head>x</a:head>') + '</a:container></a:root>'
        governing = {}
        def hook(e, x): governing[e.tag] = x; return False
        full = [(e.path, e.reason[:50]) for e in s.iter_errors(doc, validation_hook=hook)]
        for tag, path in (('{urn:a}container', '/a:root/a:container'), ('{urn:a}head', '/a:root/a:container/a:head')) + ((('{urn:b}m', '/a:root/a:container/b:m'),) if how != 'rebuild' else ()):
            found = s.find(path, ns)
            # (the path of a substitution member resolves to the particle of its head: the listed finding about find and substitutes - not judged here)
            if tag != '{urn:b}m' and found is not governing.get(tag): bad.append(('find after the extension', path, repr(found), repr(governing.get(tag))))
            want = sorted(r for p, r in full if p.startswith(path)); got = sorted(e.reason[:50] for e in s.iter_errors(doc, path=path, namespaces=ns))
            if got != want: bad.append(('partial errors after the extension', path, got, want))
        if how != 'rebuild':
            dd = s.decode(doc, path='/a:root/a:container/b:m', namespaces=ns, validation='lax')[0]
            dd = [x.get('$') if isinstance(x, dict) else x for x in dd] if isinstance(dd, list) else dd      # (a selected element is reported with the declarations in scope)
            if dd != [None, 7]: bad.append(('partial data after the extension', '/a:root/a:container/b:m', repr(dd), '[None, 7]'))
    except Exception as e: bad.append(('exception', f'{type(e).__name__}: {e}'))
    finally: shutil.rmtree(d, ignore_errors=True)
    return dict(ver=ver, how=how, bad=bad[:3])


def run(tier, seed, open_findings):
    rng = random.Random(seed); n = 4000 if tier == 'thorough' else 60
    docs = [gen(rng) for _ in range(n)]
    jobs = [(ver, d) for d in docs for ver in ('1.0', '1.1')]
    res = pmap(eval_doc, jobs)
    fails = [dict(case=dict(doc=r['doc'], ver=r['ver']), observed=list(b), required='find = governing declaration; partial = restriction of the whole') for r in res for b in r['bad']]
    cases = sum(r['cases'] for r in res)
    K = 'C20-partial-validation-ignores-intermediate-xmlns'; nk = sum(len(r['known']) for r in res)
    if nk and K not in open_findings:
        fails += [dict(case=dict(doc=r['doc'], ver=r['ver']), observed=['partial errors differ by unmapped-prefix errors', r['known'][0]], required='partial = restriction of the whole') for r in res if r['known']]
    ndocs = []
    for _ in range(n // 3):
        parts = []
        for i in range(rng.randrange(1, 4)):
            vs = ''.join(f'<v>{rng.choice(["1", "22", "x"])}</v>' for _ in range(rng.randrange(1, 3)))
            parts.append(f'<a>{vs}' + (f'<b><v>{rng.choice(["2020-01-01", "nope"])}</v></b>' if rng.random() < .5 else '') + '</a>')
        ndocs.append('<root>' + ''.join(parts) + '</root>')       # no namespace declaration at all: the run-time namespace map is empty
    nres = pmap(eval_nons, [(ver, d) for d in ndocs for ver in ('1.0', '1.1')])
    fails += [dict(case=dict(nons=True, doc=r['doc'], ver=r['ver']), observed=list(b), required='find = governing declaration; partial = restriction of the whole (schema with the XSD namespace as default)') for r in nres for b in r['bad']]
    cases += sum(r['cases'] for r in nres)
    K2 = 'C20-partial-decode-drops-xmlns-declarations'; nk2 = sum(len(r['known2']) for r in res)
    if nk2 and K2 not in open_findings:
        fails += [dict(case=dict(doc=r['doc'], ver=r['ver']), observed=['partial data lacks the @xmlns entries of the selected element', r['known2'][0]], required='partial = restriction of the whole') for r in res if r['known2']]
    kn = {k: v for k, v in ((K, nk), (K2, nk2)) if v and k in open_findings}
    rjobs = [(ver, gen_manual(rng, dg), dg) for _ in range(n // 2) for dg in (False, True) for ver in ('1.0', '1.1')]
    rres = pmap(eval_refs, rjobs)
    refs = result('C20.references_across_parts', f'{len(rjobs)} generated documents with xs:ID / xs:IDREF across chapters (half of them with dangling references) x every element path (errors, lax decode) and max_depth 1-3',
                  sum(r['cases'] for r in rres), [dict(case=dict(refs=True, doc=r['doc'], ver=r['ver'], dangling=r['dangling']), observed=list(b), required='the errors of the part in the whole document') for r in rres for b in r['bad']],
                  samples=[dict(doc=rjobs[0][1][:200])])
    eres = [eval_extended((ver, how)) for ver in ('1.0', '1.1') for how in ('import', 'rebuild', 'add')]
    ext = result('C20.paths_after_the_schema_is_extended', '2 classes x (import_schema of a namespace that adds a substitution member, clear + build, add_schema) after a first path lookup: find = governing declaration, partial errors and data = those of the whole document',
                 len(eres) * 3, [dict(case=dict(extended=True, ver=r['ver'], how=r['how']), observed=list(b), required='paths resolve on the current components') for r in eres for b in r['bad']], exhaustive=True)
    return [ext, refs, result('C20.paths_and_partial_validation', f'{len(docs)} generated documents x every element x (find, positional partial errors, max_depth 1-2) x 2 classes', cases, fails, known=kn,
                   samples=[dict(doc=docs[0][:160])], distinct=cases)]


def replay(check_name, case):
    if case.get('extended'):
        r = eval_extended((case['ver'], case['how'])); return dict(ok=not r['bad'], observed=r['bad'], required='paths resolve on the current components')
    if case.get('refs'):
        r = eval_refs((case['ver'], case['doc'], case['dangling'])); return dict(ok=not r['bad'], observed=r['bad'], required='the errors of the part in the whole document')
    if case.get('nons'):
        r = eval_nons((case['ver'], case['doc'])); return dict(ok=not r['bad'], observed=r['bad'], required='find = governing declaration; partial = restriction')
    r = eval_doc((case['ver'], case['doc']))
    return dict(ok=not r['bad'] and not r['known'] and not r['known2'], observed=r['bad'] or r['known'] or r['known2'], required='find = governing declaration; partial = restriction')
