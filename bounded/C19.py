"""C19 bounded run-time contract (labelled bounded): errors point at the offending node; a single fault is reported there.

Valid generated documents x every single-node fault of a catalogue (bad text, extra child, extra attribute, dropped attribute, dropped
child, misplaced child, undeclared child at a strict wildcard position) applied at every node: the document is invalid; every error path selects exactly one node (evaluated with
elementpath the way xmlschema does, and with ElementTree for position-only paths), namely error.elem; some error is located at the
damaged node or its parent; none outside the damaged node's ancestor chain and subtree.
"""
import copy, random
from .common import pmap, result
from .C01 import _cls
from . import docgen
NS = {'t': 'urn:t', 'xs': 'http://www.w3.org/2001/XMLSchema', 'xsi': 'http://www.w3.org/2001/XMLSchema-instance'}
FAULTS = ('bad_text', 'extra_child', 'extra_attr', 'drop_attr', 'drop_child', 'swap_children', 'wild_child', 'dup_field')
_S = {}


def eval_doc(args):
    ver, doc = args
    import elementpath
    from xml.etree import ElementTree as ET
    s = _S.get(ver) or _S.setdefault(ver, _cls(ver)(docgen.schema_for(ver)))
    root = ET.fromstring(doc)
    if not s.is_valid(root, namespaces=NS): return dict(doc=doc, ver=ver, cases=0, bad=[('generator produced an invalid base document', '')])
    bad = []; n = 0
    nodes = list(root.iter())
    for idx, target in enumerate(nodes):
        for fault in FAULTS:
            r2 = copy.deepcopy(root); t2 = list(r2.iter())[idx]
            if fault == 'bad_text':
                if len(t2) or t2.tag.endswith('name'): continue
                t2.text = 'zz'
            elif fault == 'extra_child':
                # the damaged node is the inserted child itself: its siblings stay valid, whatever the model does after the break
                t2.insert(0, ET.Element('{urn:t}bogus')); t2 = t2[0]
            elif fault == 'extra_attr': t2.set('bogus', '1')
            elif fault == 'drop_attr':
                if 'code' not in t2.attrib: continue
                del t2.attrib['code']
            elif fault == 'drop_child':
                if not len(t2) or not t2[0].tag.endswith('name'): continue
                t2.remove(t2[0])
            elif fault == 'wild_child':
                # an element of another namespace at the position of the strict wildcard of item, without a declaration: the damaged node is that child
                if not t2.tag.endswith('}item'): continue
                t2.append(ET.Element('{urn:o}extra')); t2 = t2[-1]
            elif fault == 'dup_field':
                # the field of a unique constraint whose selector reaches two levels below its scope element gets a value another selected node has: located at that node
                # (the value of an EARLIER node: of two equal tuples the validator reports the second, which is then the damaged one)
                subs = list(r2.iter('{urn:t}sub')); others = [x.get('uid') for x in subs[:subs.index(t2)] if x.get('uid')] if t2 in subs else []
                if not others: continue
                t2.set('uid', others[0])
            elif fault == 'swap_children':
                if len(t2) < 2 or t2[0].tag == t2[1].tag: continue
                a = t2[0]; t2.remove(a); t2.insert(1, a)
            n += 1
            try: errs = list(s.iter_errors(r2, namespaces=NS))
            except Exception as e: bad.append((fault, f'raised {type(e).__name__}: {e}')); continue
            if not errs: bad.append((fault, f'fault at node {idx} <{t2.tag}> not detected')); continue
            parent = {c: p for p in r2.iter() for c in p}
            chain = set(); x = t2
            while x is not None: chain.add(x); x = parent.get(x)
            allowed = chain | set(t2.iter()); near = {t2, parent.get(t2)}
            # for a dropped key attribute the identity constraint error is reported on its scope element (an ancestor): allowed
            hit = False
            for e in errs:
                if e.path is None: bad.append((fault, f'error without path: {e.reason[:60]}')); continue
                # the path is evaluated with the namespace map the error itself carries (ElementTree nodes keep no declarations, so the map given to the call is what it has)
                try: sel = elementpath.select(r2, e.path, namespaces=dict(e.namespaces or NS), strict=False)
                except Exception as x: bad.append((fault, f'path {e.path} cannot be evaluated with the namespaces of the error: {type(x).__name__}')); continue
                if len(sel) != 1: bad.append((fault, f'path {e.path} selects {len(sel)} nodes'))
                elif sel[0] is not e.elem: bad.append((fault, f'path {e.path} selects another node than error.elem'))
                if e.elem in near: hit = True
                if e.elem not in allowed: bad.append((fault, f'error outside the chain/subtree of the damaged node: {e.path}: {e.reason[:50]}'))
            if not hit: bad.append((fault, f'no error at the damaged node <{t2.tag}> or its parent: {[e.path for e in errs][:3]}'))
    return dict(doc=doc, ver=ver, cases=n, bad=bad[:4])


def run(tier, seed, open_findings):
    rng = random.Random(seed); n = 1000 if tier == 'thorough' else 16
    docs = []
    for _ in range(n):
        k = rng.randrange(1, 4)
        docs.append('<t:r xmlns:t="urn:t" xmlns:xs="http://www.w3.org/2001/XMLSchema" xmlns:xsi="http://www.w3.org/2001/XMLSchema-instance">' + ''.join(
            f'<t:item id="i{i}" code="{i}"><t:name>n</t:name><t:qty>1</t:qty>' + ('<t:kind>article</t:kind>' if (i + k) % 2 else '') + ('<t:val xsi:type="xs:int">5</t:val>' if (i + k) % 3 == 0 else '') + ('<t:mark m="1"/>' if (i + k) % 3 == 1 else '') + ('<t:optx><t:n>1</t:n><t:m>2</t:m></t:optx>' if (i + k) % 2 == 0 else '<t:opt/>' if i % 3 == 0 else '') + ''.join(f'<t:sub ref="i{rng.randrange(k)}" codeRef="{rng.randrange(k)}" uid="{10 * i + j_}"><t:leaf>1</t:leaf></t:sub>'
                                                                                      for j_ in range(rng.randrange(3))) + '</t:item>' for i in range(k)) + '</t:r>')
    jobs = [(ver, d) for d in docs for ver in ('1.0', '1.1')]
    res = pmap(eval_doc, jobs, chunk=1)
    fails = [dict(case=dict(doc=r['doc'], ver=r['ver'], fault=b[0]), observed=b[1], required='invalid; unique path to error.elem; an error at the node or its parent; none outside chain/subtree') for r in res for b in r['bad']]
    cases = sum(r['cases'] for r in res)
    return [run_simple_content(), run_nested(), run_all11(), run_all10(), result('C19.single_fault_location', f'{len(docs)} valid documents x every node x {len(FAULTS)} single-node faults x 2 classes', cases, fails, samples=[dict(doc=docs[0][:160], fault='bad_text')], distinct=cases)]


ALL11 = '<xs:schema xmlns:xs="http://www.w3.org/2001/XMLSchema"><xs:element name="r"><xs:complexType><xs:sequence><xs:element name="g" maxOccurs="unbounded"><xs:complexType><xs:all>' \
        '<xs:element name="a" minOccurs="2" maxOccurs="3"/><xs:element name="b" minOccurs="0" maxOccurs="2"/><xs:element name="c"/></xs:all></xs:complexType></xs:element></xs:sequence></xs:complexType></xs:element></xs:schema>'


def eval_all11(doc):
    """XSD 1.1 all group whose particles repeat: every removal of a required occurrence from a valid document is reported, at the parent or the node"""
    import xmlschema, copy
    from xml.etree import ElementTree as ET
    s = _S.get('all11') or _S.setdefault('all11', xmlschema.XMLSchema11(ALL11))
    root = ET.fromstring(doc); bad = []; n = 0
    if not s.is_valid(root, namespaces=NS): return dict(doc=doc, cases=0, bad=[('generator', 'base document invalid')])
    for gi, g in enumerate(root):
        for ci, c in enumerate(g):
            left = sum(1 for x in g if x.tag == c.tag) - 1
            need = {'a': 2, 'b': 0, 'c': 1}[c.tag]
            if left >= need: continue
            n += 1
            r2 = copy.deepcopy(root); g2 = r2[gi]; g2.remove(g2[ci])
            errs = list(s.iter_errors(r2))
            if not errs: bad.append(('drop_child', f'g[{gi + 1}]: removing <{c.tag}> leaves {left} (minOccurs {need}): not reported'))
            elif not any(e.elem is g2 for e in errs): bad.append(('drop_child', f'g[{gi + 1}]: no error located at the parent of the missing <{c.tag}>: {[e.path for e in errs][:2]}'))
    return dict(doc=doc, cases=n, bad=bad)


ALL10 = '<xs:schema xmlns:xs="http://www.w3.org/2001/XMLSchema"><xs:element name="r"><xs:complexType><xs:choice maxOccurs="unbounded">' \
        '<xs:element name="h"><xs:complexType><xs:all><xs:element name="a"/><xs:element name="b" minOccurs="0"/></xs:all></xs:complexType></xs:element>' \
        '<xs:element name="h2"><xs:complexType><xs:all><xs:element name="a"/><xs:element name="c"/><xs:element name="b" minOccurs="0"/></xs:all></xs:complexType></xs:element>' \
        '<xs:element name="h3"><xs:complexType><xs:all minOccurs="0"><xs:element name="a"/><xs:element name="b" minOccurs="0"/></xs:all></xs:complexType></xs:element>' \
        '</xs:choice></xs:complexType></xs:element></xs:schema>'


def run_all10():
    """xs:all groups with required and optional members (both classes): removing a required member is reported at its parent - also when it was the only child, so that the
    element is left empty (an optional all group, h3, may be left empty: then nothing is damaged when its only child goes)"""
    import xmlschema, copy
    from xml.etree import ElementTree as ET
    need = {'h': {'a'}, 'h2': {'a', 'c'}, 'h3': {'a'}}
    docs = ['<r><h><a/></h></r>', '<r><h><b/><a/></h><h><a/></h></r>', '<r><h2><c/><a/></h2><h><a/><b/></h></r>', '<r><h2><a/><b/><c/></h2></r>', '<r><h3><a/><b/></h3><h3/><h><a/></h></r>']
    bad = []; n = 0
    for ver in ('1.0', '1.1'):
        s = _cls(ver)(ALL10)
        for doc in docs:
            root = ET.fromstring(doc)
            if not s.is_valid(root): bad.append(dict(case=dict(all10=True, ver=ver, doc=doc, drop='-'), observed='the base document is invalid', required='valid')); continue
            for hi, h in enumerate(root):
                for ci, c in enumerate(h):
                    if c.tag not in need[h.tag] or (h.tag == 'h3' and len(h) == 1): continue
                    n += 1
                    r2 = copy.deepcopy(root); h2 = r2[hi]; h2.remove(h2[ci])
                    errs = list(s.iter_errors(r2))
                    if not errs: bad.append(dict(case=dict(all10=True, ver=ver, doc=doc, drop=f'{h.tag}[{hi + 1}]/{c.tag}'), observed='the damaged document is reported valid', required='invalid, an error at the parent of the removed child'))
                    elif not any(e.elem is h2 for e in errs): bad.append(dict(case=dict(all10=True, ver=ver, doc=doc, drop=f'{h.tag}[{hi + 1}]/{c.tag}'), observed=f'errors at {[e.path for e in errs][:2]}', required='an error at the parent of the removed child'))
    return result('C19.all_group_missing_member', f'{len(docs)} documents over xs:all groups with required and optional members x every removal of a required member x 2 classes', n, bad, exhaustive=True)


def run_all11():
    import itertools
    docs = []
    for word in ('aac', 'aca', 'caa', 'abac', 'aaac', 'abcab', 'baacb'):
        docs.append('<r><g>' + ''.join(f'<{c}/>' for c in word) + '</g><g><a/><c/><a/></g></r>')
    res = [eval_all11(d) for d in docs]
    fails = [dict(case=dict(all11=True, doc=r['doc']), observed=b[1], required='the missing occurrence is reported at its parent') for r in res for b in r['bad']]
    cases = sum(r['cases'] for r in res)
    return result('C19.xsd11_all_missing_occurrence', f'{len(docs)} documents of an XSD 1.1 all group with repeating particles x every removal of a required occurrence', cases, fails, exhaustive=True, samples=[dict(doc=docs[0])], distinct=cases)


NESTED_DOCS = [
    # a fresh prefix declared on an inner element, a model error inside its scope
    '<t:r xmlns:t="urn:t"><t:item id="i0" code="0"><t:name>n</t:name><t:qty>1</t:qty><p:sub xmlns:p="urn:t"><p:leaf>1</p:leaf><p:bogus/></p:sub></t:item></t:r>',
    '<t:r xmlns:t="urn:t"><t:item id="i0" code="0"><t:name>n</t:name><t:qty>1</t:qty></t:item><p:item xmlns:p="urn:t" id="i1" code="1"><p:qty>1</p:qty></p:item></t:r>',
    # the root prefix rebound to another namespace on an element that a strict wildcard admits; a sibling with the same local name in the target namespace comes first
    '<t:r xmlns:t="urn:t"><t:item id="i0" code="0"><t:name>n</t:name><t:qty>1</t:qty><t:sub><t:leaf>1</t:leaf></t:sub><t:sub xmlns:t="urn:o"><t:leaf>x</t:leaf></t:sub></t:item></t:r>',
    # a default namespace declared below the root
    '<t:r xmlns:t="urn:t"><item xmlns="urn:t" id="i0" code="0"><name>n</name><qty>0</qty><sub><leaf>q</leaf><extra/></sub></item></t:r>',
    '<t:r xmlns:t="urn:t"><t:item id="i0" code="0" xmlns:q="urn:t"><q:name>n</q:name><q:qty>1</q:qty><q:sub codeRef="9"><q:leaf>1</q:leaf><q:leaf>2</q:leaf><q:leaf>3</q:leaf><q:leaf>4</q:leaf></q:sub></t:item></t:r>',
]


def eval_nested(args):
    """documents given as TEXT, with namespace declarations below the root: the path of every error, evaluated with the namespace map the error carries, selects exactly error.elem"""
    ver, doc = args
    import elementpath, xmlschema
    s = _S.get(ver) or _S.setdefault(ver, _cls(ver)(docgen.schema_for(ver)))
    res = xmlschema.XMLResource(doc); bad = []
    errs = list(s.iter_errors(res))
    for e in errs:
        if e.path is None or e.elem is None: continue
        try: sel = elementpath.select(res.root, e.path, namespaces=dict(e.namespaces or {}), strict=False)
        except Exception as x: bad.append(f'path {e.path} cannot be evaluated with the namespaces of the error {dict(e.namespaces or {})}: {type(x).__name__}'); continue
        if len(sel) != 1 or sel[0] is not e.elem: bad.append(f'path {e.path} with {dict(e.namespaces or {})} selects {len(sel)} node(s), not exactly error.elem ({e.reason[:50]})')
    return dict(ver=ver, doc=doc, errors=len(errs), bad=bad)


def run_nested():
    res = [eval_nested((ver, d)) for d in NESTED_DOCS for ver in ('1.0', '1.1')]
    fails = [dict(case=dict(nested_decl=True, ver=r['ver'], doc=r['doc']), observed=b, required='the path selects exactly error.elem under the namespace map of the error') for r in res for b in r['bad']]
    if any(r['errors'] == 0 for r in res): fails.append(dict(case=dict(nested_decl=True, ver='1.0', doc='(harness)'), observed='a document of the family has no error at all', required='every document of the family is invalid'))
    return result('C19.paths_under_nested_declarations', f'{len(NESTED_DOCS)} invalid text documents with prefixes declared, rebound or defaulted below the root x 2 classes: every error path resolves to its element with the error\'s own namespaces',
                  sum(r['errors'] for r in res), fails, exhaustive=True, samples=[dict(doc=NESTED_DOCS[0][:140])])


def sc_schema(ver):
    inh = ' inheritable="true"' if ver == '1.1' else ''
    ext = lambda base: f'<xs:complexType><xs:simpleContent><xs:extension base="{base}"><xs:attribute name="lang" type="xs:language"{inh}/><xs:attribute name="note" type="xs:token"/></xs:extension></xs:simpleContent></xs:complexType>'
    return ('<xs:schema xmlns:xs="http://www.w3.org/2001/XMLSchema">'
            '<xs:simpleType name="Code"><xs:restriction base="xs:string"><xs:pattern value="[A-Z]{2}[0-9]"/></xs:restriction></xs:simpleType>'
            '<xs:simpleType name="IB"><xs:union memberTypes="xs:int xs:boolean"/></xs:simpleType><xs:simpleType name="Ints"><xs:list itemType="xs:int"/></xs:simpleType>'
            '<xs:element name="r"><xs:complexType><xs:sequence maxOccurs="unbounded">'
            f'<xs:element name="price">{ext("xs:decimal")}</xs:element><xs:element name="label" minOccurs="0">{ext("Code")}</xs:element>'
            f'<xs:element name="u" minOccurs="0">{ext("IB")}</xs:element><xs:element name="l" minOccurs="0">{ext("Ints")}</xs:element>'
            f'<xs:element name="sec" minOccurs="0"><xs:complexType><xs:sequence><xs:element name="p" maxOccurs="unbounded">{ext("xs:int")}</xs:element></xs:sequence><xs:attribute name="lang" type="xs:language"{inh}/></xs:complexType></xs:element>'
            '</xs:sequence></xs:complexType></xs:element></xs:schema>')


def run_simple_content():
    """elements with simple content that carry attributes (inheritable ones under XSD 1.1: the validator goes on with a copy of its context): a bad text value is reported
    with a path that selects exactly the damaged element, whatever attributes the element carries"""
    import xmlschema, elementpath, copy, itertools
    from xml.etree import ElementTree as ET
    BAD = {'price': 'nine euros', 'label': 'ab1', 'u': 'maybe', 'l': '1 x 3', 'p': 'q'}
    docs = []
    for attrs in ('', ' lang="en"', ' note="n"', ' lang="fr" note="promo"'):
        docs.append(f'<r><price{attrs}>9.5</price><label{attrs}>AB1</label><u{attrs}>true</u><l{attrs}>1 2 3</l><sec{attrs.replace(" note=\"n\"", "").replace(" note=\"promo\"", "")}><p{attrs}>1</p><p>2</p></sec><price>1</price><price{attrs}>2</price></r>')
    bad = []; n = 0
    for ver in ('1.0', '1.1'):
        s = _cls(ver)(sc_schema(ver))
        for doc in docs:
            root = ET.fromstring(doc)
            if not s.is_valid(root): bad.append(dict(case=dict(simple_content=True, ver=ver, doc=doc, node='-'), observed='the base document is invalid: ' + str([e.reason[:60] for e in s.iter_errors(root)][:1]), required='valid')); continue
            nodes = [e for e in root.iter() if e.tag in BAD]
            for k, node in enumerate(nodes):
                n += 1
                r2 = copy.deepcopy(root); target = [e for e in r2.iter() if e.tag in BAD][k]; target.text = BAD[target.tag]
                for src_kind in ('element', 'text'):
                    if src_kind == 'text':
                        res = xmlschema.XMLResource(ET.tostring(r2, encoding='unicode')); top = res.root; tgt = [e for e in top.iter() if e.tag in BAD][k]
                    else: top, tgt = r2, target
                    errs = list(s.iter_errors(res if src_kind == 'text' else top)); case = dict(simple_content=True, ver=ver, doc=doc, node=f'{k}:{target.tag}', source=src_kind)
                    if not errs: bad.append(dict(case=case, observed='the damaged document is reported valid', required='invalid')); continue
                    for e in errs:
                        if e.path is None or e.elem is None: bad.append(dict(case=case, observed=f'error without a location (path={e.path!r}, elem={e.elem!r}): {e.reason[:60]}', required='every error carries a path that selects exactly one node')); break
                        sel = elementpath.select(top, e.path, namespaces=dict(e.namespaces or {}), strict=False)
                        if len(sel) != 1 or sel[0] is not e.elem: bad.append(dict(case=case, observed=f'path {e.path} selects {len(sel)} node(s), not exactly error.elem', required='the path selects exactly one node')); break
                    else:
                        if not any(e.elem is tgt for e in errs): bad.append(dict(case=case, observed=f'no error at the damaged node: {[e.path for e in errs][:2]}', required='an error located at the damaged node'))
    return result('C19.simple_content_with_attributes', f'{len(docs)} documents x every simple-content element (decimal, pattern, union, list, int below an element with the attribute) x a bad text x 2 sources x 2 classes; under XSD 1.1 the lang attribute is inheritable', n * 2, bad, exhaustive=True)


def replay(check_name, case):
    if case.get('simple_content'):
        r = run_simple_content(); mine = [f for f in r['failures'] if f['case'] == case]; return dict(ok=not mine, observed=mine[:1], required='located at the damaged node')
    if case.get('nested_decl'):
        r = eval_nested((case['ver'], case['doc'])); return dict(ok=not r['bad'], observed=r['bad'][:2], required='path selects error.elem')
    if case.get('all10'):
        r = run_all10(); mine = [f for f in r['failures'] if f['case'] == case]; return dict(ok=not mine, observed=mine[:1], required='reported at the parent')
    if case.get('all11'):
        r = eval_all11(case['doc']); return dict(ok=not r['bad'], observed=r['bad'][:2], required='the missing occurrence is reported at its parent')
    r = eval_doc((case['ver'], case['doc']))
    mine = [b for b in r['bad'] if b[0] == case.get('fault')] or r['bad']
    return dict(ok=not mine, observed=mine[:2], required='error located at the damaged node')
