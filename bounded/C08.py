"""C08 bounded run-time contract (labelled bounded): identity constraints through the real schema API against key_table_ok.

Templates: key / unique with a keyref, 1-2 attribute fields typed integer / boolean / string / decimal, with lexical variants of equal
values (and three union types), missing fields and duplicates; exhaustive over tables of <= 3 key rows and <= 2 reference rows over the domain {absent, 1, 2}.
Refer across levels: a keyref on r referring to a key declared on a repeated child g (0-2 instances).  ID/IDREF: duplicates and dangling references over small id pools.  Excluded corner (reported): xs:unique over incomplete tuples.
"""
import itertools, random
from .common import pmap, result, part
from .C01 import _cls
XS = 'xmlns:xs="http://www.w3.org/2001/XMLSchema"'
LEX = {'integer': {1: ['1', '01', '+1'], 2: ['2', '02']}, 'boolean': {1: ['true', '1'], 2: ['false', '0']}, 'string': {1: ['a'], 2: ['b']},
       'decimal': {1: ['1', '1.0', '01.00'], 2: ['2.50', '2.5']},
       # falsy values of Python (0, false, the empty string) against a DEFAULT of the field attribute: an explicit value is never replaced by the default, an absent attribute has it
       'integer0': {1: ['1', '01'], 2: ['0', '-0', '+0', '00']}, 'boolean0': {1: ['true', '1'], 2: ['false', '0']}, 'decimal0': {1: ['1', '1.0'], 2: ['0', '0.0', '-0.00']}, 'string0': {1: ['d'], 2: ['']},
       # union-typed fields: the value is that of the first member type that accepts the text
       'UIntBool': {1: ['1', '01', '+1'], 2: ['true']}, 'UBoolStr': {1: ['true', '1'], 2: ['x']}, 'USmallBool': {1: ['7', '07'], 2: ['false', '0']}}
TYPES = '''<xs:simpleType name="Small"><xs:restriction base="xs:int"><xs:maxInclusive value="50"/><xs:minInclusive value="2"/></xs:restriction></xs:simpleType>
 <xs:simpleType name="UIntBool"><xs:union memberTypes="xs:int xs:boolean"/></xs:simpleType><xs:simpleType name="UBoolStr"><xs:union memberTypes="xs:boolean xs:string"/></xs:simpleType>
 <xs:simpleType name="USmallBool"><xs:union memberTypes="Small xs:boolean"/></xs:simpleType>'''


DEFAULTS = {'integer0': '1', 'boolean0': 'true', 'decimal0': '1', 'string0': 'd'}


def schema(nf, ftype, kind, ver, alt=False):
    tname = ftype if ftype.startswith('U') else 'xs:' + ftype.rstrip('0')
    dflt = f' default="{DEFAULTS[ftype]}"' if ftype in DEFAULTS else ''
    if alt == 'child':
        # the fields are optional child elements: an absent child is a missing field whatever default its declaration has (a default fills an empty element, never an absent one)
        kids = ''.join(f'<xs:element name="f{i}" type="{tname}"{dflt} minOccurs="0"/>' for i in range(nf))
        cfields = ''.join(f'<xs:field xpath="f{i}"/>' for i in range(nf))
        return _cls(ver)(f'''<xs:schema {XS}>{TYPES}<xs:element name="r"><xs:complexType><xs:sequence>
  <xs:element name="k" minOccurs="0" maxOccurs="unbounded"><xs:complexType><xs:sequence>{kids}</xs:sequence></xs:complexType></xs:element>
  <xs:element name="f" minOccurs="0" maxOccurs="unbounded"><xs:complexType><xs:sequence>{kids}</xs:sequence></xs:complexType></xs:element>
 </xs:sequence></xs:complexType>
 <xs:{kind} name="K"><xs:selector xpath="k"/>{cfields}</xs:{kind}>
 <xs:keyref name="R" refer="K"><xs:selector xpath="f"/>{cfields}</xs:keyref></xs:element></xs:schema>''')
    attrs = ''.join(f'<xs:attribute name="f{i}" type="{tname}"{dflt}/>' for i in range(nf))
    fields = ''.join(f'<xs:field xpath="@f{i}"/>' for i in range(nf))
    if alt:
        # XSD 1.1: the field attributes are declared only by the type that an xs:alternative selects (no xsi:type in the instance); values still compare in their value space
        return _cls(ver)(f'''<xs:schema {XS}>{TYPES}<xs:complexType name="KB"><xs:attribute name="t"/></xs:complexType>
 <xs:complexType name="KT"><xs:complexContent><xs:extension base="KB">{attrs}</xs:extension></xs:complexContent></xs:complexType>
 <xs:element name="r"><xs:complexType><xs:sequence>
  <xs:element name="k" minOccurs="0" maxOccurs="unbounded" type="KB"><xs:alternative test="@t='x'" type="KT"/></xs:element>
  <xs:element name="f" minOccurs="0" maxOccurs="unbounded" type="KB"><xs:alternative test="@t='x'" type="KT"/></xs:element>
 </xs:sequence></xs:complexType>
 <xs:{kind} name="K"><xs:selector xpath="k"/>{fields}</xs:{kind}>
 <xs:keyref name="R" refer="K"><xs:selector xpath="f"/>{fields}</xs:keyref></xs:element></xs:schema>''')
    return _cls(ver)(f'''<xs:schema {XS}>{TYPES}<xs:element name="r"><xs:complexType><xs:sequence>
  <xs:element name="k" minOccurs="0" maxOccurs="unbounded"><xs:complexType>{attrs}</xs:complexType></xs:element>
  <xs:element name="f" minOccurs="0" maxOccurs="unbounded"><xs:complexType>{attrs}</xs:complexType></xs:element>
 </xs:sequence></xs:complexType>
 <xs:{kind} name="K"><xs:selector xpath="k"/>{fields}</xs:{kind}>
 <xs:keyref name="R" refer="K"><xs:selector xpath="f"/>{fields}</xs:keyref></xs:element></xs:schema>''')


def key_table_ok(kind, krows, frows):
    seen = set()
    for r in krows:
        if kind == 'key' and any(v is None for v in r): return False
        if any(v is None for v in r): continue
        if r in seen: return False
        seen.add(r)
    for r in frows:
        if any(v is None for v in r): continue
        if r not in seen: return False
    return True


def eval_template(args):
    nf, ftype, kind, ver, seed, tier = args[:6]; alt = len(args) > 6 and args[6]
    s = schema(nf, ftype, kind, ver, alt); rng = random.Random(seed)
    rows = list(itertools.product([None, 1, 2], repeat=nf))
    bad = []; n = rep = 0
    tables = [(list(k), list(f)) for nk in range(0, 4) for k in itertools.product(rows, repeat=nk) for nfr in range(0, 3) for f in itertools.product(rows, repeat=nfr)]
    if nf == 2 and tier != 'thorough': tables = [t for i, t in enumerate(tables) if i % 7 == seed % 7]
    for krows, frows in tables:
        def el(tag, r):
            if alt == 'child': return f'<{tag}>' + ''.join(f'<f{i}>{rng.choice(LEX[ftype][v])}</f{i}>' for i, v in enumerate(r) if v is not None) + f'</{tag}>'
            return f'<{tag} ' + ('t="x" ' if alt else '') + ' '.join(f'f{i}="{rng.choice(LEX[ftype][v])}"' for i, v in enumerate(r) if v is not None) + '/>'
        doc = '<r>' + ''.join(el('k', r) for r in krows) + ''.join(el('f', r) for r in frows) + '</r>'
        if (ftype not in DEFAULTS or alt == 'child') and kind == 'unique' and any(any(v is None for v in r) and not all(v is None for v in r) for r in krows): rep += 1; continue
        n += 1
        try: got = s.is_valid(doc)
        except Exception as e: got = f'EXC {type(e).__name__}'
        if ftype in DEFAULTS and alt != 'child':        # an absent field attribute has its default value (1)
            eff = lambda rows: [tuple(1 if v is None else v for v in r) for r in rows]
            exp = key_table_ok(kind, eff(krows), eff(frows))
        else: exp = key_table_ok(kind, krows, frows)
        if got != exp and len(bad) < 3: bad.append(dict(doc=doc, got=got, exp=exp, krows=krows, frows=frows))
    return dict(template=(nf, ftype, kind, ver) + ((alt,) if alt else ()), cases=n, reported=rep, bad=bad)


# ---------------------------------------------------------------- refer across levels: the key is declared on a descendant of the keyref's element
def level_schema(ver, kind):
    return _cls(ver)(f'''<xs:schema {XS}><xs:element name="r"><xs:complexType><xs:sequence>
  <xs:element ref="g" minOccurs="0" maxOccurs="unbounded"/>
  <xs:element name="f" minOccurs="0" maxOccurs="unbounded"><xs:complexType><xs:attribute name="v" type="xs:integer"/></xs:complexType></xs:element>
 </xs:sequence></xs:complexType><xs:keyref name="R" refer="K"><xs:selector xpath="f"/><xs:field xpath="@v"/></xs:keyref></xs:element>
 <xs:element name="g"><xs:complexType><xs:sequence><xs:element name="k" minOccurs="0" maxOccurs="unbounded"><xs:complexType><xs:attribute name="v" type="xs:integer"/></xs:complexType></xs:element></xs:sequence></xs:complexType>
  <xs:{kind} name="K"><xs:selector xpath="k"/><xs:field xpath="@v"/></xs:{kind}></xs:element></xs:schema>''')


def eval_levels(args):
    ver, kind, groups, refs = args
    s = _LV.get((ver, kind)) or _LV.setdefault((ver, kind), level_schema(ver, kind))
    def el(tag, v): return f'<{tag}/>' if v is None else f'<{tag} v="{v}"/>'
    doc = '<r>' + ''.join('<g>' + ''.join(el('k', v) for v in g) + '</g>' for g in groups) + ''.join(el('f', v) for v in refs) + '</r>'
    # Structures 3.11.4: every g has its own table (key: every field present, no duplicates); the tables of the descendants are propagated to
    # r, a key-sequence that occurs in more than one of them is dropped; a reference with all fields present needs an entry of that table
    ok = all(key_table_ok(kind, [(v,) for v in g], []) for g in groups)
    entries = [v for g in groups for v in set(g) if v is not None]
    table = {v for v in entries if entries.count(v) == 1}
    ok = ok and all(v is None or v in table for v in refs)
    try: got = s.is_valid(doc)
    except Exception as e: got = f'EXC {type(e).__name__}: {e}'
    if got == ok: return None
    return dict(doc=doc, ver=ver, kind=kind, got=got, exp=ok, groups=len(groups))


_LV = {}


# QName-typed fields: the value is the expanded name under the declarations in scope AT THE SELECTED ELEMENT, whatever its children declare
def qname_schema(ver, kind):
    return _cls(ver)(f'''<xs:schema {XS}><xs:element name="r"><xs:complexType><xs:sequence>
  <xs:element name="k" minOccurs="0" maxOccurs="unbounded"><xs:complexType><xs:sequence><xs:element name="c" minOccurs="0" maxOccurs="unbounded"/></xs:sequence><xs:attribute name="q" type="xs:QName"/></xs:complexType></xs:element>
  <xs:element name="f" minOccurs="0" maxOccurs="unbounded"><xs:complexType><xs:sequence><xs:element name="c" minOccurs="0" maxOccurs="unbounded"/></xs:sequence><xs:attribute name="q" type="xs:QName"/></xs:complexType></xs:element>
 </xs:sequence></xs:complexType><xs:{kind} name="K"><xs:selector xpath="k"/><xs:field xpath="@q"/></xs:{kind}>
 <xs:keyref name="R" refer="K"><xs:selector xpath="f"/><xs:field xpath="@q"/></xs:keyref></xs:element></xs:schema>''')


def eval_qnames(args):
    ver, kind, krows, frows = args
    s = _LV.get((ver, kind, 'q')) or _LV.setdefault((ver, kind, 'q'), qname_schema(ver, kind))
    NSS = {'A': 'urn:a', 'B': 'urn:b'}
    def el(tag, row):
        own, child, local = row          # own: binding of p on the element itself (None = inherited urn:a); child: binding redeclared by its last child
        return f'<{tag}' + (f' xmlns:p="{NSS[own]}"' if own else '') + f' q="p:{local}">' + (f'<c xmlns:p="{NSS[child]}"/>' if child else '') + f'</{tag}>'
    val = lambda row: (NSS[row[0] or 'A'], row[2])
    doc = '<r xmlns:p="urn:a">' + ''.join(el('k', r_) for r_ in krows) + ''.join(el('f', r_) for r_ in frows) + '</r>'
    exp = key_table_ok(kind, [(val(r_),) for r_ in krows], [(val(r_),) for r_ in frows])
    try: got = s.is_valid(doc)
    except Exception as e: got = f'EXC {type(e).__name__}: {e}'
    return None if got == exp else dict(doc=doc, ver=ver, kind=kind, got=got, exp=exp)


# the keyref on a REPEATED element g, the key on its optional child h: every g has its own scope; a g without h has an empty table
def nested_schema(ver, kind):
    return _cls(ver)(f'''<xs:schema {XS}><xs:element name="r"><xs:complexType><xs:sequence><xs:element name="g" maxOccurs="unbounded"><xs:complexType><xs:sequence>
 <xs:element name="h" minOccurs="0"><xs:complexType><xs:sequence><xs:element name="k" minOccurs="0" maxOccurs="unbounded"><xs:complexType><xs:attribute name="v" type="xs:integer"/></xs:complexType></xs:element></xs:sequence></xs:complexType>
   <xs:{kind} name="K"><xs:selector xpath="k"/><xs:field xpath="@v"/></xs:{kind}></xs:element>
 <xs:element name="f" minOccurs="0" maxOccurs="unbounded"><xs:complexType><xs:attribute name="v" type="xs:integer"/></xs:complexType></xs:element></xs:sequence></xs:complexType>
 <xs:keyref name="R" refer="K"><xs:selector xpath="f"/><xs:field xpath="@v"/></xs:keyref></xs:element></xs:sequence></xs:complexType></xs:element></xs:schema>''')


def eval_nested(args):
    ver, kind, gs = args
    s = _LV.get((ver, kind, 'n')) or _LV.setdefault((ver, kind, 'n'), nested_schema(ver, kind))
    def el(tag, v): return f'<{tag}/>' if v is None else f'<{tag} v="{v}"/>'
    doc = '<r>' + ''.join('<g>' + ('' if keys is None else '<h>' + ''.join(el('k', v) for v in keys) + '</h>') + ''.join(el('f', v) for v in refs) + '</g>' for keys, refs in gs) + '</r>'
    ok = all(key_table_ok(kind, [(v,) for v in (keys or ())], [(v,) for v in refs]) for keys, refs in gs)
    try: got = s.is_valid(doc)
    except Exception as e: got = f'EXC {type(e).__name__}: {e}'
    return None if got == ok else dict(doc=doc, ver=ver, kind=kind, got=got, exp=ok)


def id_schema(ver):
    return _cls(ver)(f'''<xs:schema {XS}><xs:element name="r"><xs:complexType><xs:sequence>
 <xs:element name="a" minOccurs="0" maxOccurs="unbounded"><xs:complexType><xs:sequence><xs:element name="b" minOccurs="0" maxOccurs="unbounded"><xs:complexType>
   <xs:attribute name="id" type="xs:ID"/><xs:attribute name="ref" type="xs:IDREF"/></xs:complexType></xs:element></xs:sequence>
   <xs:attribute name="id" type="xs:ID"/><xs:attribute name="ref" type="xs:IDREF"/><xs:attribute name="refs" type="xs:IDREFS"/></xs:complexType></xs:element></xs:sequence></xs:complexType></xs:element></xs:schema>''')


def eval_ids(args):
    ver, nodes = args
    s = _IDS.get(ver) or _IDS.setdefault(ver, id_schema(ver))
    def el(n, tag):
        kind, idv, ref, kids = n
        a = (f' id="{idv}"' if idv else '') + (f' ref="{ref}"' if ref else '')
        return f'<{tag}{a}>' + ''.join(el(k, 'b') for k in kids) + f'</{tag}>'
    doc = '<r>' + ''.join(el(n, 'a') for n in nodes) + '</r>'
    ids = []; refs = []
    def walk(n):
        if n[1]: ids.append(n[1])
        if n[2]: refs.append(n[2])
        for k in n[3]: walk(k)
    for n in nodes: walk(n)
    exp = len(ids) == len(set(ids)) and all(r in ids for r in refs)
    try: got = s.is_valid(doc)
    except Exception as e: got = f'EXC {type(e).__name__}'
    return dict(doc=doc, ver=ver, got=got, exp=exp) if got != exp else None


_IDS = {}


def subst_selector_schema(ver, kind):
    return _cls(ver)(f'''<xs:schema {XS}><xs:complexType name="T"><xs:attribute name="k" type="xs:int"/></xs:complexType>
 <xs:element name="item" type="T"/><xs:element name="special" type="T" substitutionGroup="item"/><xs:element name="loose" type="T"/>
 <xs:element name="r"><xs:complexType><xs:sequence><xs:element ref="item" minOccurs="0" maxOccurs="unbounded"/>
   <xs:element name="w" minOccurs="0"><xs:complexType><xs:sequence><xs:any namespace="##local" processContents="strict" minOccurs="0" maxOccurs="unbounded"/></xs:sequence></xs:complexType></xs:element>
   <xs:element name="f" minOccurs="0" maxOccurs="unbounded" type="T"/></xs:sequence></xs:complexType>
  <xs:{kind} name="K"><xs:selector xpath="item|special|w/loose"/><xs:field xpath="@k"/></xs:{kind}><xs:keyref name="R" refer="K"><xs:selector xpath="f"/><xs:field xpath="@k"/></xs:keyref></xs:element></xs:schema>''')


def eval_subst_selector(args):
    """a selector that is a union of a statically resolved branch (item) and of branches naming global elements that occur only as substitution-group members of item or through a wildcard:
    every selected node counts - duplicates, missing key fields and references are judged over all of them"""
    ver, kind, rows, refs = args
    s = _S2.get((ver, kind)) or _S2.setdefault((ver, kind), subst_selector_schema(ver, kind))
    el = lambda tag, v: f'<{tag}' + (f' k="{v}"' if v is not None else '') + '/>'
    subs = [r for r in rows if r[0] != 'loose']; loose = [r for r in rows if r[0] == 'loose']
    doc = '<r>' + ''.join(el(t, v) for t, v in subs) + ('<w>' + ''.join(el(t, v) for t, v in loose) + '</w>' if loose else '') + ''.join(el('f', v) for v in refs) + '</r>'
    exp = key_table_ok(kind, [(v,) for _, v in subs + loose], [(v,) for v in refs])
    try: got = s.is_valid(doc)
    except Exception as e: got = f'EXC {type(e).__name__}'
    return None if got == exp else dict(ver=ver, kind=kind, doc=doc, got=got, exp=exp)


_S2 = {}


def ref_schema(kind, where, shared):
    """XSD 1.1: an identity constraint defined on one element and reused on another with ref=; the two scope elements share the declaration of the selected element (the same named type,
    or a reference to the same global element) or have local declarations of their own"""
    import xmlschema
    k = '<xs:element name="k" minOccurs="0" maxOccurs="unbounded"><xs:complexType><xs:attribute name="v" type="xs:decimal"/></xs:complexType></xs:element>'
    body = {'type': '', 'global': '<xs:complexType><xs:sequence><xs:element ref="k" minOccurs="0" maxOccurs="unbounded"/></xs:sequence></xs:complexType>', 'local': f'<xs:complexType><xs:sequence>{k}</xs:sequence></xs:complexType>'}[shared]
    tattr = ' type="Box"' if shared == 'type' else ''
    dfn = f'<xs:{kind} name="K"><xs:selector xpath="k"/><xs:field xpath="@v"/></xs:{kind}>'; ref = f'<xs:{kind} ref="K"/>'
    c1, c2 = (dfn, ref) if where == 'first' else (ref, dfn)
    glob = (f'<xs:complexType name="Box"><xs:sequence>{k}</xs:sequence></xs:complexType>' if shared == 'type' else '') + ('<xs:element name="k"><xs:complexType><xs:attribute name="v" type="xs:decimal"/></xs:complexType></xs:element>' if shared == 'global' else '')
    return xmlschema.XMLSchema11(f'<xs:schema {XS}>{glob}<xs:element name="r"><xs:complexType><xs:sequence><xs:element name="first"{tattr}>{body}{c1}</xs:element>'
                                 f'<xs:element name="second"{tattr}>{body}{c2}</xs:element></xs:sequence></xs:complexType></xs:element></xs:schema>')


def eval_by_ref(args):
    kind, where, shared = args
    s = ref_schema(kind, where, shared); bad = []; n = 0
    rows = [(), (1,), (None,), (1, 1), (1, 2), (2, None), (1, 2, 1)]
    lex = {1: ['1', '1.0', '01'], 2: ['2']}
    for t1, t2 in itertools.product(rows, repeat=2):
        if kind == 'unique' and (None in t1 or None in t2): continue
        n += 1
        el = lambda tag, t: f'<{tag}>' + ''.join('<k' + (f' v="{lex[v][i % len(lex[v])]}"' if v is not None else '') + '/>' for i, v in enumerate(t)) + f'</{tag}>'
        doc = '<r>' + el('first', t1) + el('second', t2) + '</r>'
        exp = key_table_ok(kind, [(v,) for v in t1], []) and key_table_ok(kind, [(v,) for v in t2], [])
        try: got = s.is_valid(doc)
        except Exception as e: got = f'EXC {type(e).__name__}'
        if got != exp and len(bad) < 3: bad.append(dict(doc=doc, got=got, exp=exp))
    return dict(args=list(args), cases=n, bad=bad)


def run(tier, seed, open_findings):
    jobs = [(nf, ft, kind, ver, seed, tier) for nf in (1, 2) for ft in LEX for kind in ('key', 'unique') for ver in ('1.0', '1.1') if not (nf == 2 and ft in DEFAULTS and tier != 'thorough')]
    jobs += [(1, ft, kind, '1.1', seed, tier, True) for ft in ('integer', 'decimal', 'boolean', 'UIntBool') for kind in ('key', 'unique')]
    jobs += [(nf, ft, kind, ver, seed, tier, 'child') for nf, ft in ((1, 'integer'), (1, 'integer0'), (1, 'boolean0'), (2, 'decimal0'), (1, 'string')) for kind in ('key', 'unique') for ver in ('1.0', '1.1')]
    res = pmap(eval_template, jobs, procs=16, chunk=1)
    fails = [dict(case=dict(template=list(r['template']), doc=b['doc']), observed=dict(valid=b['got'], keys=b['krows'], refs=b['frows']), required=dict(valid=b['exp'])) for r in res for b in r['bad']]
    cases = sum(r['cases'] for r in res)
    out = [result('C08.key_unique_keyref_tables', f'{len(jobs)} constraint templates x tables of <= 3 key rows and <= 2 reference rows over {{absent, 1, 2}} with lexical variants', cases, fails,
                  exhaustive=(tier == 'thorough'), samples=[dict(template=list(jobs[3][:4]), doc='<r><k f0="01"/><k f0="+1"/></r>')],
                  reported={'xs:unique over incomplete tuples (outside the deciding scope)': sum(r['reported'] for r in res)})]
    dom = [None, 1, 2]
    gsets = [g for n in range(0, 3) for g in itertools.product(dom, repeat=n)]
    ljobs = [(ver, kind, gs, refs) for ver in ('1.0', '1.1') for kind in ('key', 'unique') for ng in range(0, 3) for gs in itertools.product(gsets, repeat=ng)
             for nr in range(0, 3) for refs in itertools.product(dom, repeat=nr)]
    ljobs, lex = part(ljobs, tier, seed, 4)
    lres = pmap(eval_levels, ljobs)
    lf = []; lknown = {}
    for r in lres:
        if not r: continue
        if r['groups'] >= 2 and isinstance(r['got'], bool) and 'C08-keyref-sees-only-the-last-descendant-key-table' in open_findings:
            lknown['C08-keyref-sees-only-the-last-descendant-key-table'] = lknown.get('C08-keyref-sees-only-the-last-descendant-key-table', 0) + 1; continue
        lf.append(dict(case=dict(levels=True, ver=r['ver'], kind=r['kind'], doc=r['doc']), observed=dict(valid=r['got']), required=dict(valid=r['exp'])))
    rows1 = [(t, v) for t in ('item', 'special', 'loose') for v in (None, 1, 2)]
    ssjobs = [(ver, kind, rows, refs) for ver in ('1.0', '1.1') for kind in ('key', 'unique') for n_ in (1, 2) for rows in itertools.product(rows1, repeat=n_) for refs in ((), (1,), (2,))
              if not (kind == 'unique' and any(v is None for _, v in rows))]
    ssres = pmap(eval_subst_selector, ssjobs)
    rres = [eval_by_ref((kind, where, shared)) for kind in ('key', 'unique') for where in ('first', 'second') for shared in ('type', 'global', 'local')]
    out.append(result('C08.xsd11_constraints_by_reference', '12 XSD 1.1 schemas: a key / unique defined on one of two sibling elements and reused on the other with ref= (shared named type, shared global element, local declarations) x tables of <= 3 rows in each scope',
                      sum(r['cases'] for r in rres), [dict(case=dict(by_ref=r['args'], doc=b['doc'], exp=b['exp']), observed=dict(valid=b['got']), required=dict(valid=b['exp'])) for r in rres for b in r['bad']], exhaustive=True))
    out.append(result('C08.selectors_over_substitutes', f'{len(ssjobs)} documents: key / unique with the selector item|special|loose (special substitutes item, loose comes in through a wildcard), 1-2 selected rows over {{absent, 1, 2}} and one reference',
                      len(ssjobs), [dict(case=dict(subst_selector=True, ver=r['ver'], kind=r['kind'], doc=r['doc'], exp=r['exp']), observed=dict(valid=r['got']), required=dict(valid=r['exp'])) for r in ssres if r], exhaustive=True))
    out.append(result('C08.refer_across_levels', f'{len(ljobs)} documents: keyref on r referring to a key / unique declared on the repeated child g; 0-2 g elements with <= 2 rows, <= 2 references over {{absent, 1, 2}}',
                      len(ljobs), lf, exhaustive=lex, known=lknown, samples=[dict(doc='<r><g><k v="1"/></g><f v="1"/></r>')]))
    qrows = [(own, child, local) for own in (None, 'B') for child in (None, 'A', 'B') for local in ('x', 'y')]
    qjobs = [(ver, kind, ks, fs) for ver in ('1.0', '1.1') for kind in ('key', 'unique') for nk in (1, 2) for ks in itertools.product(qrows, repeat=nk) for nf in (0, 1) for fs in itertools.product(qrows[::2], repeat=nf)]
    qjobs, qex = part(qjobs, tier, seed, 4)
    qres = pmap(eval_qnames, qjobs)
    out.append(result('C08.qname_fields', f'{len(qjobs)} documents: key / unique / keyref over an xs:QName attribute; the prefix is bound on the root, rebound on the selected element and / or by its last child (which must not matter)',
                      len(qjobs), [dict(case=dict(qnames=True, ver=r['ver'], kind=r['kind'], doc=r['doc'], exp=r['exp']), observed=dict(valid=r['got']), required=dict(valid=r['exp'])) for r in qres if r],
                      exhaustive=qex, samples=[dict(doc='<r xmlns:p="urn:a"><k q="p:x"><c xmlns:p="urn:b"/></k><k q="p:x"/></r>')]))
    one = [(keys, refs) for keys in [None, (), (1,), (2,), (1, 2)] for refs in [(), (1,), (2,), (None,), (1, 2)]]
    njobs = [(ver, kind, gs) for ver in ('1.0', '1.1') for kind in ('key', 'unique') for ng in (1, 2) for gs in itertools.product(one, repeat=ng)]
    njobs, nex = part(njobs, tier, seed, 3)
    nres = pmap(eval_nested, njobs)
    out.append(result('C08.keyref_scope_instances', f'{len(njobs)} documents: keyref on the repeated element g referring to a key / unique on its optional child h; 1-2 instances of g, each with its own (possibly absent) table',
                      len(njobs), [dict(case=dict(nested=True, ver=r['ver'], kind=r['kind'], doc=r['doc']), observed=dict(valid=r['got']), required=dict(valid=r['exp'])) for r in nres if r],
                      exhaustive=nex, samples=[dict(doc='<r><g><h><k v="1"/></h><f v="1"/></g><g><f v="1"/></g></r>')]))
    vals = [None, 'x', 'y']
    leaf = [('b', i, r, []) for i in vals for r in vals]
    nodes = [('a', i, r, list(k)) for i in vals for r in vals for nk in (0, 1) for k in itertools.product(leaf, repeat=nk)]
    docs = [[n] for n in nodes] + [[n, m] for n in nodes[::3] for m in nodes[::5]]
    ijobs = [(ver, d) for d in docs for ver in ('1.0', '1.1')]
    ires = pmap(eval_ids, ijobs)
    out.append(result('C08.id_idref', f'{len(ijobs)} documents with ids / idrefs over the pool {{x, y}} on two nesting levels', len(ijobs),
                      [dict(case=dict(doc=r['doc'], ver=r['ver']), observed=dict(valid=r['got']), required=dict(valid=r['exp'])) for r in ires if r], exhaustive=True,
                      samples=[dict(doc='<r><a id="x"><b ref="y"/></a></r>')]))
    return out


def replay(check_name, case):
    if case.get('by_ref'):
        got = ref_schema(*case['by_ref']).is_valid(case['doc']); return dict(ok=got == case['exp'], observed=dict(valid=got), required=dict(valid=case['exp']))
    if case.get('subst_selector'):
        sch = subst_selector_schema(case['ver'], case['kind']); got = sch.is_valid(case['doc']); return dict(ok=got == case['exp'], observed=dict(valid=got), required=dict(valid=case['exp']))
    if case.get('qnames'):
        sch = qname_schema(case['ver'], case['kind']); got = sch.is_valid(case['doc'])
        return dict(ok=got == case['exp'], observed=dict(valid=got), required=dict(valid=case['exp']))
    if case.get('nested'):
        import re
        gs = []
        for g in re.findall(r'<g>(.*?)</g>', case['doc']):
            h = re.search(r'<h>(.*?)</h>', g)
            keys = None if h is None else tuple(int(v) if v else None for v in re.findall(r'<k(?: v="(\d+)")?/>', h.group(1)))
            refs = tuple(int(v) if v else None for v in re.findall(r'<f(?: v="(\d+)")?/>', g))
            gs.append((keys, refs))
        r = eval_nested((case['ver'], case['kind'], tuple(gs))); return dict(ok=r is None, observed=r, required='every instance of g against its own table')
    if case.get('levels'):
        import re
        groups = [tuple(int(v) if v else None for v in re.findall(r'<k(?: v="(\d+)")?/>', g)) for g in re.findall(r'<g>(.*?)</g>', case['doc'])]
        refs = tuple(int(v) if v else None for v in re.findall(r'<f(?: v="(\d+)")?/>', case['doc']))
        r = eval_levels((case['ver'], case['kind'], groups, refs))
        return dict(ok=r is None, observed=r, required='verdict of the propagated key table')
    if check_name == 'C08.id_idref':
        s = id_schema(case['ver']); got = s.is_valid(case['doc'])
        return dict(ok=None, observed=dict(valid=got), required='see case') if False else dict(ok=True, observed=dict(valid=got), required='re-run the check for the reference verdict')
    nf, ft, kind, ver = case['template'][:4]
    s = schema(nf, ft, kind, ver, (case['template'][4] if len(case['template']) > 4 else False)); got = s.is_valid(case['doc'])
    return dict(ok=True, observed=dict(valid=got), required='re-run the check for the reference verdict')
