"""C02 bounded, part 2: normalize vs ws_normalize, count_digits vs digits(), restriction chains, lists and unions."""
import itertools, random, re
from decimal import Decimal
from .common import pmap, result
from .C01 import _cls
XS = 'xmlns:xs="http://www.w3.org/2001/XMLSchema"'
WSCHARS = [' ', '\t', '\n', '\r', 'a', '\xa0', ' ', '\x85']


def ws_normalize(mode, s):
    if mode == 'preserve': return s
    s = re.sub(r'[\t\n\r]', ' ', s)
    if mode == 'replace': return s
    return re.sub(r' +', ' ', s).strip(' ')


def digits(d):
    """(integer digits, fraction digits) of a decimal value: XSD totalDigits/fractionDigits count on the canonical form"""
    d = Decimal(d)
    if d == 0: return 0, 0
    sign, ds, exp = d.as_tuple()
    ds = list(ds)
    while len(ds) > 1 and ds[-1] == 0 and exp < 0: ds.pop(); exp += 1
    if exp >= 0: return len(ds) + exp - (1 if ds == [0] else 0), 0
    frac = -exp; intd = max(0, len(ds) - frac)
    return intd, frac


def eval_norm(args):
    import xmlschema
    s = _cls('1.0')(f'<xs:schema {XS}><xs:simpleType name="p"><xs:restriction base="xs:string"/></xs:simpleType>'
                    f'<xs:simpleType name="r"><xs:restriction base="xs:normalizedString"/></xs:simpleType>'
                    f'<xs:simpleType name="c"><xs:restriction base="xs:token"/></xs:simpleType></xs:schema>')
    bad = []
    for text in args:
        for name, mode in (('p', 'preserve'), ('r', 'replace'), ('c', 'collapse')):
            got = s.types[name].normalize(text); want = ws_normalize(mode, text)
            if got != want: bad.append(dict(text=text, mode=mode, got=got, want=want))
    return bad


def eval_digits(nums):
    from xmlschema.utils.decoding import count_digits
    bad = []
    for n in nums:
        try: got = tuple(count_digits(n))
        except Exception as e: got = f'raised {type(e).__name__}'
        want = digits(n)
        if got != want: bad.append(dict(number=n, got=got, want=want))
    return bad


def derived_schema(ver):
    return _cls(ver)(f'''<xs:schema {XS}>
 <xs:simpleType name="small"><xs:restriction base="xs:int"><xs:minInclusive value="0"/><xs:maxInclusive value="100"/></xs:restriction></xs:simpleType>
 <xs:simpleType name="smaller"><xs:restriction base="small"><xs:maxExclusive value="10"/><xs:pattern value="[0-9]"/></xs:restriction></xs:simpleType>
 <xs:simpleType name="word"><xs:restriction base="xs:token"><xs:minLength value="2"/><xs:maxLength value="4"/></xs:restriction></xs:simpleType>
 <xs:simpleType name="en"><xs:restriction base="word"><xs:enumeration value="ab"/><xs:enumeration value="abcd"/></xs:restriction></xs:simpleType>
 <xs:simpleType name="ien"><xs:restriction base="xs:integer"><xs:enumeration value="1"/><xs:enumeration value="12"/></xs:restriction></xs:simpleType>
 <xs:simpleType name="code3"><xs:restriction base="xs:integer"><xs:pattern value="[0-9]{{3}}"/></xs:restriction></xs:simpleType>
 <xs:simpleType name="price2"><xs:restriction base="xs:decimal"><xs:pattern value="[0-9]+\\.[0-9]{{2}}"/></xs:restriction></xs:simpleType>
 <xs:simpleType name="ilist"><xs:list itemType="small"/></xs:simpleType>
 <xs:simpleType name="pt3"><xs:restriction base="ilist"><xs:pattern value="[0-9]( [0-9]){{2}}"/></xs:restriction></xs:simpleType>
 <xs:simpleType name="ilist2"><xs:restriction base="ilist"><xs:length value="2"/></xs:restriction></xs:simpleType>
 <xs:simpleType name="u"><xs:union memberTypes="small xs:boolean word"/></xs:simpleType>
 <xs:simpleType name="us"><xs:union memberTypes="xs:int xs:string"/></xs:simpleType>
 <xs:simpleType name="umix"><xs:union memberTypes="small"><xs:simpleType><xs:restriction base="xs:boolean"/></xs:simpleType><xs:simpleType><xs:restriction base="xs:token"><xs:minLength value="2"/><xs:maxLength value="4"/></xs:restriction></xs:simpleType></xs:union></xs:simpleType>
 <xs:simpleType name="idu"><xs:union memberTypes="xs:int xs:date xs:duration"/></xs:simpleType>
 <xs:simpleType name="uenum"><xs:restriction base="idu"><xs:enumeration value="5"/><xs:enumeration value="2000-01-01"/><xs:enumeration value="P1D"/></xs:restriction></xs:simpleType>
 <xs:simpleType name="twoWords"><xs:restriction base="us"><xs:pattern value="[a-z]+ [a-z]+|[0-9]+"/></xs:restriction></xs:simpleType>
 <xs:simpleType name="lead"><xs:restriction base="us"><xs:pattern value="  [a-z]+|[0-9]+"/></xs:restriction></xs:simpleType>
 <xs:simpleType name="twoShort"><xs:restriction base="twoWords"><xs:pattern value=".{{1,5}}"/></xs:restriction></xs:simpleType>
 <xs:simpleType name="twoShortA"><xs:restriction base="twoShort"><xs:pattern value="[a1].*"/></xs:restriction></xs:simpleType>
 <xs:simpleType name="qnames"><xs:list itemType="xs:QName"/></xs:simpleType>
 <xs:simpleType name="qn23"><xs:restriction base="qnames"><xs:minLength value="2"/><xs:maxLength value="3"/></xs:restriction></xs:simpleType>
 <xs:simpleType name="qn2"><xs:restriction base="qn23"><xs:length value="2"/></xs:restriction></xs:simpleType>
 <xs:simpleType name="tok23"><xs:restriction><xs:simpleType><xs:list itemType="xs:NMTOKEN"/></xs:simpleType><xs:minLength value="2"/><xs:maxLength value="3"/></xs:restriction></xs:simpleType>
 <xs:simpleType name="strs2"><xs:restriction><xs:simpleType><xs:list itemType="xs:string"/></xs:simpleType><xs:length value="2"/></xs:restriction></xs:simpleType>
 <xs:simpleType name="durs"><xs:list itemType="xs:duration"/></xs:simpleType>
 <xs:simpleType name="stamps"><xs:list itemType="xs:dateTime"/></xs:simpleType>
 <xs:simpleType name="fmax"><xs:restriction base="xs:float"><xs:maxInclusive value="10"/></xs:restriction></xs:simpleType>
 <xs:simpleType name="dpos"><xs:restriction base="xs:double"><xs:minExclusive value="0"/></xs:restriction></xs:simpleType>
 <xs:notation name="png" public="image/png"/><xs:notation name="jpg" public="image/jpeg"/><xs:notation name="gif" public="image/gif"/>
 <xs:simpleType name="fmt"><xs:restriction base="xs:NOTATION"><xs:enumeration value="png"/><xs:enumeration value="jpg"/></xs:restriction></xs:simpleType>
 <xs:simpleType name="fmt2"><xs:restriction base="fmt"><xs:pattern value="p.*"/></xs:restriction></xs:simpleType>
 <xs:simpleType name="fmt3"><xs:restriction base="fmt2"/></xs:simpleType>
 <xs:element name="fmt" type="fmt"/><xs:element name="fmt2" type="fmt2"/><xs:element name="fmt3" type="fmt3"/>
 <xs:simpleType name="money"><xs:restriction base="xs:decimal"><xs:totalDigits value="4"/><xs:fractionDigits value="2"/></xs:restriction></xs:simpleType>
 <xs:element name="small" type="small"/><xs:element name="smaller" type="smaller"/><xs:element name="word" type="word"/><xs:element name="en" type="en"/>
 <xs:element name="ilist" type="ilist"/><xs:element name="ilist2" type="ilist2"/><xs:element name="u" type="u"/><xs:element name="money" type="money"/>
 <xs:element name="durs" type="durs"/><xs:element name="stamps" type="stamps"/><xs:element name="ien" type="ien"/><xs:element name="qn23" type="qn23"/><xs:element name="qn2" type="qn2"/><xs:element name="tok23" type="tok23"/>
 <xs:element name="code3" type="code3"/><xs:element name="price2" type="price2"/><xs:element name="pt3" type="pt3"/><xs:element name="umix" type="umix"/><xs:element name="twoWords" type="twoWords"/><xs:element name="lead" type="lead"/>
 <xs:element name="uenum" type="uenum"/><xs:element name="strs2" type="strs2"/><xs:element name="fmax" type="fmax"/><xs:element name="dpos" type="dpos"/><xs:element name="twoShort" type="twoShort"/><xs:element name="twoShortA" type="twoShortA"/></xs:schema>''')


def items(t): return [x for x in t.split(' ') if x]
def isfloat(t): return re.fullmatch(r'([+-]?([0-9]+(\.[0-9]*)?|\.[0-9]+)([Ee][+-]?[0-9]+)?)|-?INF|NaN', t) is not None
def isint(t): return re.fullmatch(r'[+-]?[0-9]+', t) is not None


def _us(t, pat):
    """restriction by pattern of union(xs:int, xs:string): the first member that accepts the text decides, and the pattern applies to the text as
    normalised by that member (xs:int collapses, xs:string preserves); a digit string outside the int range is a string"""
    c = t.strip(' \t\n\r')
    if isint(c) and -2**31 <= int(c) < 2**31: return re.fullmatch(pat, c) is not None
    return re.fullmatch(pat, t) is not None


REF = {
    'small': lambda t: isint(t) and 0 <= int(t) <= 100,
    'smaller': lambda t: re.fullmatch(r'[0-9]', t) is not None and 0 <= int(t) < 10,
    'word': lambda t: 2 <= len(t) <= 4,
    'en': lambda t: t in ('ab', 'abcd'),
    'ien': lambda t: isint(t) and int(t) in (1, 12),
    # the length facets of a LIST count its items, whatever the item type (only atomic QName / NOTATION values are exempt from them)
    # (items are separated by XML whitespace only: after collapsing, by single spaces - a no-break space is character data of an item)
    'qn23': lambda t: 2 <= len(items(t)) <= 3 and all(re.fullmatch(r'[A-Za-z_][\w.-]*', x) for x in items(t)),
    'qn2': lambda t: len(items(t)) == 2 and all(re.fullmatch(r'[A-Za-z_][\w.-]*', x) for x in items(t)),
    'tok23': lambda t: 2 <= len(items(t)) <= 3 and all(re.fullmatch(r'[\w.:-]+', x) for x in items(t)),
    'strs2': lambda t: len(items(t)) == 2,
    'uenum': lambda t: (isint(t) and int(t) == 5) or t in ('2000-01-01', 'P1D'),
    # NaN is incomparable: it satisfies no bound facet
    'fmax': lambda t: isfloat(t) and t != 'NaN' and float(t.replace('INF', 'inf')) <= 10,
    'dpos': lambda t: isfloat(t) and t != 'NaN' and float(t.replace('INF', 'inf')) > 0,
    'code3': lambda t: re.fullmatch(r'[0-9]{3}', t) is not None,
    'price2': lambda t: re.fullmatch(r'[0-9]+\.[0-9]{2}', t) is not None,
    'pt3': lambda t: re.fullmatch(r'[0-9]( [0-9]){2}', t) is not None,
    'ilist': lambda t: all(REF['small'](x) for x in t.split(' ')) if t else True,
    'ilist2': lambda t: len(t.split(' ')) == 2 and all(REF['small'](x) for x in t.split(' ')) if t else False,
    'u': lambda t: REF['small'](t) or t in ('true', 'false', '1', '0') or REF['word'](t),
    # the same members, the first one named by memberTypes and the others given as xs:simpleType children: memberTypes come first (Structures 3.16.2)
    'umix': lambda t: REF['small'](t) or t in ('true', 'false', '1', '0') or REF['word'](t),
    # restriction of a union by pattern: the pattern applies to the text as normalised by the member that validates it
    # (xs:int collapses, xs:string preserves)
    'twoWords': lambda t: _us(t, r'[a-z]+ [a-z]+|[0-9]+'),
    'lead': lambda t: _us(t, r'  [a-z]+|[0-9]+'),
    # every step of a chain of restrictions of a union contributes its patterns: the value matches all of them
    'twoShort': lambda t: _us(t, r'[a-z]+ [a-z]+|[0-9]+') and _us(t, r'.{1,5}'),
    'twoShortA': lambda t: _us(t, r'[a-z]+ [a-z]+|[0-9]+') and _us(t, r'.{1,5}') and _us(t, r'[a1].*'),
    'durs': lambda t: all(re.fullmatch(r'-?P(?=.)([0-9]+Y)?([0-9]+M)?([0-9]+D)?(T(?=.)([0-9]+H)?([0-9]+M)?([0-9]+(\.[0-9]+)?S)?)?', x) is not None for x in t.split(' ')) if t else True,
    'stamps': lambda t: all(re.fullmatch(r'-?[0-9]{4}-[0-9]{2}-[0-9]{2}T[0-9]{2}:[0-9]{2}:[0-9]{2}(\.[0-9]+)?(Z|[+-][0-9]{2}:[0-9]{2})?', x) is not None for x in t.split(' ')) if t else True,
    # xs:NOTATION: the enumeration of a step is inherited by the steps that restrict it further (by a pattern, or by nothing at all)
    'fmt': lambda t: t in ('png', 'jpg'), 'fmt2': lambda t: t == 'png', 'fmt3': lambda t: t == 'png',
    'money': lambda t: re.fullmatch(r'[+-]?([0-9]+(\.[0-9]*)?|\.[0-9]+)', t) is not None and sum(digits(t)) <= 4 and digits(t)[1] <= 2,
}
UNION_DECODE = lambda t: int(t) if REF['small'](t) else (t in ('true', '1')) if t in ('true', 'false', '1', '0') else t
DVALUES = ['P1Y0M PT60S', 'P13M  P1DT24H', 'PT1.50S', 'P1Y', '2020-01-01T24:00:00 2020-01-01T10:00:00+00:00', '2020-01-01T00:00:00.120', '2020-01-01T00:00:00Z']
VALUES = ['ab cd', 'ab  cd', ' ab cd', 'ab cd ', '  ab', ' ab', '12', ' 12 ', 'ab', '0', '5', '9', '10', '99', '100', '101', '-1', '+7', '07', 'ab', 'a', 'abc', 'abcd', 'abcde', 'true', 'false', '1', '', '1 2', '1 2 3', '100 0', '101 1', 'x y',
          '12.34', '1.234', '123.4', '12345', '0.10', '00012.30', '.5', '1e1', 'a b', '9' * 400, '012', '-' + '9' * 330, 'a b c d', 'ab cd ef', 'x', 'a\xa0b c', 'a\xa0b', 'a\u2003b c d', 'NaN', 'INF', '-INF', '10.5', '1e1', '0.0', '2000-01-01', 'P1D', ' 05 ', '2000-01-02', 'P2D']


def eval_derived(args):
    ver, name, v = args
    s = _S.setdefault(ver, derived_schema(ver))
    t = v if name not in ('word', 'en', 'ien', 'qn23', 'qn2', 'tok23', 'ilist', 'ilist2', 'code3', 'price2', 'pt3', 'u', 'umix', 'small', 'smaller', 'money', 'durs', 'stamps', 'strs2', 'fmax', 'dpos', 'uenum', 'fmt', 'fmt2', 'fmt3') else re.sub(r' +', ' ', re.sub(r'[\t\n\r]', ' ', v)).strip(' ')
    exp = REF[name](t)
    doc = f'<{name}>{v}</{name}>'
    try: got = s.is_valid(doc)
    except Exception as e: got = f'EXC {type(e).__name__}'
    out = dict(ver=ver, type=name, text=v, got=got, exp=exp, ok=got == exp)
    if got is True and exp and name in ('u', 'umix'):
        d = s.decode(doc)
        if d != UNION_DECODE(t) or type(d) is not type(UNION_DECODE(t)): out.update(ok=False, detail=f'union decoded {d!r}, first matching member gives {UNION_DECODE(t)!r}')
    if got is True and exp and name in ('durs', 'stamps') and t:
        # without typed decoding (datetime_types is off by default) dates and durations are reported as their normalised text, item by item
        d = s.decode(doc)
        if d != t.split(' '): out.update(ok=False, detail=f'list decoded {d!r}, the normalised item texts are {t.split(" ")!r}')
    if got is True and exp and out['ok'] and name not in ('code3', 'price2', 'pt3', 'twoWords', 'lead', 'twoShort', 'twoShortA', 'smaller'):
        # the value decoded from a valid text encodes again (strict), to a text that is valid and decodes to the same value (types whose pattern constrains the spelling
        # of a number are left out: the number does not remember its spelling)
        import xmlschema
        try:
            d = s.decode(doc); e = s.encode(d, path=name)
            if not s.is_valid(e): out.update(ok=False, detail=f'decode -> encode gives {e.text!r}, invalid for the type')
            elif s.decode(e) != d: out.update(ok=False, detail=f'decode -> encode -> decode gives {s.decode(e)!r}, not {d!r}')
        except xmlschema.XMLSchemaException as x: out.update(ok=False, detail=f'the decoded value {d!r} does not encode: {type(x).__name__}: {str(x).splitlines()[0][:80] if str(x) else ""}')
    if got is True and exp and name == 'ilist' and t:
        d = s.decode(doc)
        if d != ([int(x) for x in t.split(' ')] if t else []): out.update(ok=False, detail=f'list decoded {d!r}')
    return out


_S = {}


# ---------------------------------------------------------------- typed decoding options: every combination
def eval_options(args):
    ver, dt, bt, dec = args
    import xmlschema
    from decimal import Decimal
    s = _S.get(('opt', ver)) or _S.setdefault(('opt', ver), _cls(ver)(f'''<xs:schema {XS}><xs:simpleType name="HL"><xs:list itemType="xs:hexBinary"/></xs:simpleType>
 <xs:simpleType name="DL"><xs:list itemType="xs:date"/></xs:simpleType>
 <xs:element name="r"><xs:complexType><xs:sequence><xs:element name="d" type="xs:date"/><xs:element name="t" type="xs:duration"/><xs:element name="h" type="xs:hexBinary"/>
  <xs:element name="b" type="xs:base64Binary"/><xs:element name="n" type="xs:decimal"/><xs:element name="hl" type="HL"/><xs:element name="dl" type="DL"/><xs:element name="i" type="xs:int"/>{'<xs:element name="ts" type="xs:dateTimeStamp" minOccurs="0"/>' if ver == '1.1' else ''}</xs:sequence>
  <xs:attribute name="digest" type="xs:hexBinary"/><xs:attribute name="when" type="xs:dateTime"/></xs:complexType></xs:element></xs:schema>'''))
    doc = '<r digest="0AFD" when="2020-01-01T10:00:00Z"><d>2020-02-29</d><t>P1D</t><h>9afd</h><b>YWxwaGE=</b><n>1.50</n><hl>0A 0B</hl><dl>2020-01-01 2020-01-02</dl><i>7</i>' + ('<ts>2020-01-01T10:00:00Z</ts>' if ver == '1.1' else '') + '</r>'
    kw = dict(datetime_types=dt, binary_types=bt)
    if dec: kw['decimal_type'] = dec
    data = s.decode(doc, **kw)
    def kind(v):
        n = type(v).__name__
        return 'datetime' if n in ('Date10', 'Date', 'DateTime10', 'DateTime', 'Duration', 'DayTimeDuration', 'YearMonthDuration') else 'binary' if n in ('HexBinary', 'Base64Binary') else n
    want_dt = 'datetime' if dt else 'str'; want_b = 'binary' if bt else 'str'; want_n = {None: 'Decimal', str: 'str', float: 'float'}[dec]
    exp = {'d': want_dt, 't': want_dt, 'h': want_b, 'b': want_b, 'n': want_n, 'i': 'int', '@digest': want_b, '@when': want_dt}
    bad = [f'{k}: {kind(data[k])} (value {data[k]!r}), expected {v}' for k, v in exp.items() if kind(data[k]) != v]
    bad += [f'hl[{i}]: {kind(x)}, expected {want_b}' for i, x in enumerate(data['hl']) if kind(x) != want_b]
    bad += [f'dl[{i}]: {kind(x)}, expected {want_dt}' for i, x in enumerate(data['dl']) if kind(x) != want_dt]
    if ver == '1.1' and kind(data['ts']) != want_dt and type(data['ts']).__name__ != ('DateTimeStamp' if dt else 'str'): bad.append(f"ts: {kind(data['ts'])}, expected {want_dt}")
    # the typed data re-encodes under the same options and decodes to itself again
    try:
        e = s.encode(data, path='r', **kw); d2 = s.decode(e, **kw)
        if d2 != data: bad.append(f'typed round trip differs: {str(data)[:80]} vs {str(d2)[:80]}')
    except xmlschema.XMLSchemaException as x: bad.append(f'typed data does not re-encode: {type(x).__name__}: {str(x)[:120]}')
    return dict(args=[ver, dt, bt, getattr(dec, '__name__', None)], bad=bad) if bad else None


ENC_VALUES = {'code3': [123, 7, 1234, 100], 'price2': [Decimal('10.50'), Decimal('10.5'), 10.5, Decimal('1.234')], 'pt3': [[1, 2, 3], [1, 2], [1, 2, 3, 3], [1, 22, 3]],
              'small': [0, 7, 100, 101, -1], 'smaller': [0, 7, 9, 10, 12, 100], 'ien': [1, 12, 2, 120], 'money': [Decimal('12.34'), Decimal('1.234'), Decimal('123.45'), Decimal('0.5'), 12.5, 1234],
              'ilist': [[1, 2], [1, 101], []], 'ilist2': [[1, 2], [1], [1, 2, 3]], 'u': [7, True, 'abc', 'a', 101], 'word': ['ab', 'a', 'abcde'], 'en': ['ab', 'abc']}


def eval_encode(args):
    """encoding a typed value either fails or gives a text of the type's lexical space that decodes to the value again (every facet, patterns included, applies to what is written)"""
    ver, name, v = args
    s = _S.setdefault(ver, derived_schema(ver))
    import xmlschema
    try: e = s.encode(v, path=name)
    except xmlschema.XMLSchemaException: return None
    except Exception as x: return dict(ver=ver, type=name, value=repr(v), problem=f'encode raised {type(x).__name__}: {x}')
    text = e.text or ''
    if not REF[name](text): return dict(ver=ver, type=name, value=repr(v), problem=f'encode returned {text!r}, which the type rejects')
    try:
        if not s.is_valid(e): return dict(ver=ver, type=name, value=repr(v), problem=f'encode returned {text!r}, invalid for the same schema')
    except Exception as x: return dict(ver=ver, type=name, value=repr(v), problem=f'validation of the encoded element raised {type(x).__name__}')
    return None


def run(tier, seed, open_findings):
    rng = random.Random(seed)
    texts = [''.join(c) for n in range(0, 5 if tier == 'thorough' else 4) for c in itertools.product(WSCHARS, repeat=n)]
    chunks = [texts[i::16] for i in range(16)]
    bad = [b for r in pmap(eval_norm, chunks, procs=16) for b in r]
    out = [result('C02.normalize', f'all {len(texts)} strings up to length {4 if tier != "thorough" else 4} over {[repr(c) for c in WSCHARS]} x preserve/replace/collapse', len(texts) * 3,
                  [dict(case=dict(text=b['text'], mode=b['mode']), observed=b['got'], required=b['want']) for b in bad], exhaustive=True, samples=[dict(text=' a\t', modes='all')])]
    nums = []
    for digs in itertools.product('019', repeat=3):
        for exp in range(-4, 3):
            base = Decimal(int(''.join(digs))).scaleb(exp)
            nums += [str(base), '-' + str(base), '+' + format(base, 'f'), format(base, 'f') + ('0' if '.' in format(base, 'f') else '.0'), '00' + format(base, 'f')]
    nums += ['1E+3', '1.50E2', '12e-1', '0.0', '0', '-0', '000', '1e0']
    # zeros and tiny values whose Decimal form switches to exponent notation (seven or more fractional places)
    nums += ['0.0000000', '-0.0000000', '+.000000000', '000.0000000000', '0E-7', '0e-10', '0.00000010', '0.000000123', '-0.0000001', '1E-7', '0.0000001000', '0E+3', '0e3']
    nums = sorted(set(nums))
    dbad = [b for r in pmap(eval_digits, [nums[i::16] for i in range(16)], procs=16) for b in r]
    out.append(result('C02.count_digits', f'{len(nums)} spellings of decimals with <= 3 significant digits and exponent -4..2', len(nums),
                      [dict(case=dict(number=b['number']), observed=b['got'], required=b['want']) for b in dbad], exhaustive=True, samples=[dict(number=nums[10])]))
    cases = [(ver, name, v) for ver in ('1.0', '1.1') for name in REF for v in (DVALUES if name in ('durs', 'stamps') else VALUES + ['png', ' jpg ', 'gif', 'bmp', 'pn g'] if name.startswith('fmt') else VALUES)]
    res = pmap(eval_derived, cases)
    from .C02 import classify
    fails = []; known = {}
    for r in res:
        if r['ok']: continue
        fid = classify(r['type'], r['text'], r['got'], r['exp'])
        if fid and fid in open_findings: known[fid] = known.get(fid, 0) + 1; continue
        fails.append(dict(case=dict(ver=r['ver'], type=r['type'], text=r['text']), observed=dict(valid=r['got'], detail=r.get('detail')), required=dict(valid=r['exp'])))
    out.append(result('C02.derived_types', f'{len(cases)} (class, restriction/list/union type, text) cases', len(cases),
                      fails, exhaustive=True, known=known, samples=[dict(type='u', text='true')]))
    ojobs = [(ver, dt, bt, dec) for ver in ('1.0', '1.1') for dt in (False, True) for bt in (False, True) for dec in (None, str, float)]
    ores = [eval_options(j) for j in ojobs]
    out.append(result('C02.typed_decoding_options', f'{len(ojobs)} combinations of datetime_types x binary_types x decimal_type x class on one document with dates, durations, binaries, a decimal, lists and attributes: '
                      'dates / binaries are typed objects exactly when requested, text otherwise; decimals follow decimal_type', len(ojobs) * 12,
                      [dict(case=dict(options=r['args']), observed=r['bad'][:4], required='typed objects exactly when their option is set') for r in ores if r], exhaustive=True, samples=[dict(datetime_types=True, binary_types=True)]))
    ejobs = [(ver, name, v) for ver in ('1.0', '1.1') for name, vs in ENC_VALUES.items() for v in vs]
    eres = [eval_encode(j) for j in ejobs]
    out.append(result('C02.encode_typed_values', f'{len(ejobs)} (class, derived type, typed Python value): encoding fails or returns a text that the same type accepts', len(ejobs),
                      [dict(case=dict(ver=r['ver'], type=r['type'], enc_value=r['value']), observed=r['problem'], required='a validation error, or a text of the lexical space of the type') for r in eres if r], exhaustive=True,
                      samples=[dict(type='smaller', value=12)]))
    return out


def replay(check_name, case):
    if 'enc_value' in case:
        vals = {repr(v): v for v in ENC_VALUES[case['type']]}; r = eval_encode((case['ver'], case['type'], vals[case['enc_value']])); return dict(ok=r is None, observed=r, required='encode fails or returns a text of the type')
    if 'options' in case:
        o = case['options']; r = eval_options((o[0], o[1], o[2], {None: None, 'str': str, 'float': float}[o[3]])); return dict(ok=r is None, observed=r and r['bad'][:4], required='typed objects exactly when requested')
    if check_name == 'C02.normalize':
        b = [x for x in eval_norm([case['text']]) if x['mode'] == case['mode']]
        return dict(ok=not b, observed=b, required='ws_normalize')
    if check_name == 'C02.count_digits':
        b = eval_digits([case['number']]); return dict(ok=not b, observed=b, required='digits()')
    r = eval_derived((case['ver'], case['type'], case['text']))
    return dict(ok=r['ok'], observed=dict(valid=r['got'], detail=r.get('detail')), required=dict(valid=r['exp']))
