"""C04 bounded run-time contract (labelled bounded): agreement of every entry point, mode and source kind on one verdict.

For generated documents with 0-2 injected faults (type errors, duplicate keys, dangling IDREF / keyref, unexpected or missing children,
unexpected attributes): with E = [errors of iter_errors]: is_valid <=> E = []; validate raises E[0] iff E != []; strict decode raises E[0]
iff E != []; lax decode collects exactly E; package-level functions agree with the methods; all source kinds give the same errors (by
class and path) and - for sources that keep prefixes - the same data.  The CLI exit status is 0 iff the document is valid, for error
counts 0, 1, 255, 256, 257, 512 (subprocess).
"""
import io, os, random, shutil, subprocess, sys, tempfile
from .common import pmap, result
from .C01 import _cls
from . import docgen


def sig(errs): return [(type(e).__name__, e.path, (e.reason or '')[:60]) for e in errs]


def eval_doc(args):
    ver, doc, workdir = args
    import xmlschema
    from xml.etree import ElementTree as ET
    from xmlschema.validators.exceptions import XMLSchemaValidationError
    s = _S.get(ver) or _S.setdefault(ver, _cls(ver)(docgen.schema_for(ver)))
    p = os.path.join(workdir, f'd{os.getpid()}.xml'); open(p, 'w').write(doc)
    sources = {'text': lambda: doc, 'bytes': lambda: doc.encode(), 'path': lambda: p, 'url': lambda: 'file://' + p, 'open-text': lambda: open(p), 'open-bin': lambda: open(p, 'rb'),
               'StringIO': lambda: io.StringIO(doc), 'etree': lambda: ET.parse(p), 'element': lambda: ET.parse(p).getroot(), 'resource': lambda: xmlschema.XMLResource(p)}
    try:
        import lxml.etree as LE
        sources['lxml-tree'] = lambda: LE.parse(p); sources['lxml-element'] = lambda: LE.parse(p).getroot()
    except ImportError: pass
    if 'xsi:type="q:' in doc:
        # prefix-dependent values: a plain ElementTree tree does not keep the declarations, so the value cannot be resolved from it at all (not a verdict of the library)
        sources.pop('etree'); sources.pop('element')
    base = None
    for sname, mk in sources.items():
        def use(f):
            src = mk()
            try: return f(src)
            finally:
                if hasattr(src, 'close'): src.close()
        try:
            lax = use(lambda x: sig(s.iter_errors(x)))
            valid = use(lambda x: s.is_valid(x))

            def strict(x):
                try: s.validate(x); return None
                except XMLSchemaValidationError as e: return sig([e])[0]
            first = use(strict)

            def dstrict(x):
                try: return ('ok', repr(s.decode(x)))
                except XMLSchemaValidationError as e: return ('raised', sig([e])[0])
            ds = use(dstrict)
            dl = use(lambda x: s.decode(x, validation='lax')); dlax = (repr(dl[0]), sig(dl[1]))
            dskip = use(lambda x: repr(s.decode(x, validation='skip')))
            pk_valid = use(lambda x: xmlschema.is_valid(x, s)); pk_lax = use(lambda x: sig(xmlschema.iter_errors(x, s)))
            pk_dict = use(lambda x: xmlschema.to_dict(x, s, validation='lax')); pk_d = (repr(pk_dict[0]), sig(pk_dict[1]))
        except Exception as e:
            return dict(doc=doc, ver=ver, source=sname, problem=f'non-validation exception {type(e).__name__}: {e}')
        # a path is compared in expanded form: the prefix of a step depends on the namespace context at the moment the path is computed (o:extra while the
        # declaring element is in scope, {urn:o}extra afterwards); both spellings name the same node
        expand = lambda pth: (pth or '').replace('t:', '{urn:t}').replace('o:', '{urn:o}')
        strip_reason = lambda t: (t[0], expand(t[1]))
        problems = []
        if valid != (not lax): problems.append('is_valid vs iter_errors')
        if (first is None) != (not lax): problems.append('validate vs iter_errors')
        if first is not None and lax and strip_reason(first) != strip_reason(lax[0]): problems.append('validate does not raise the first lax error')
        if ds[0] != ('ok' if not lax else 'raised'): problems.append('strict decode vs iter_errors')
        if ds[0] == 'raised' and lax and strip_reason(ds[1]) != strip_reason(lax[0]): problems.append('strict decode does not raise the first lax error')
        if [strip_reason(x) for x in dlax[1]] != [strip_reason(x) for x in lax]: problems.append('lax decode errors differ from iter_errors')
        if pk_valid != valid or [strip_reason(x) for x in pk_lax] != [strip_reason(x) for x in lax]: problems.append('package-level function differs from the method')
        if pk_d != dlax: problems.append('to_dict differs from decode')
        if not lax and not (ds[1] == dlax[0] == dskip): problems.append('data of a valid document depends on the validation mode')
        data_key = dlax[0] if sname not in ('etree', 'element', 'lxml-tree', 'lxml-element') else None
        # bare Element / ElementTree sources carry no prefix map: their paths use {uri}local steps, so paths are compared in expanded form
        cmp_errs = [(c, expand(pth)) for c, pth, _ in lax]
        if base is None: base = (cmp_errs, data_key, sname)
        if cmp_errs != base[0]: problems.append(f'errors differ between source kinds {base[2]} and {sname}')
        if data_key is not None and base[1] is not None and data_key != base[1]: problems.append(f'data differs between source kinds {base[2]} and {sname}')
        if problems: return dict(doc=doc, ver=ver, source=sname, problem=problems, lax=lax[:3])
    return None


_S = {}


def cli_status(nerr, workdir):
    items = ''.join(f'<t:item id="i{i}" code="{i}"><t:name>n</t:name><t:qty>{"x" if i < nerr else 1}</t:qty></t:item>' for i in range(max(nerr, 1)))
    p = os.path.join(workdir, 'many.xml'); open(p, 'w').write(f'<t:r xmlns:t="urn:t">{items}</t:r>')
    xsd = os.path.join(workdir, 's.xsd')
    r = subprocess.run([sys.executable, '-c', 'from xmlschema.cli import validate; validate()', '--schema', xsd, p], capture_output=True, text=True)
    return r.returncode


# ---------------------------------------------------------------- verdict agreement on small schemas with features the generator lacks
EXTRA = {
    'mixed-fixed': ('<xs:schema {XS}><xs:element name="m" fixed="abc"><xs:complexType mixed="true"><xs:sequence><xs:element name="b" minOccurs="0"/></xs:sequence></xs:complexType></xs:element></xs:schema>',
                    ['<m>abc</m>', '<m> </m>', '<m/>', '<m></m>', '<m>x</m>', '<m><b/></m>', '<m>abc<b/></m>', '<m>\n</m>']),
    'date-list-enum': ('<xs:schema {XS}><xs:simpleType name="DL"><xs:list itemType="xs:date"/></xs:simpleType><xs:element name="e"><xs:simpleType><xs:restriction base="DL">'
                       '<xs:enumeration value="2020-01-01 2020-01-02"/></xs:restriction></xs:simpleType></xs:element></xs:schema>', ['<e>2020-01-01 2020-01-02</e>', '<e>2020-01-01</e>', '<e/>']),
    'decimal-list-enum': ('<xs:schema {XS}><xs:simpleType name="L"><xs:list itemType="xs:decimal"/></xs:simpleType><xs:element name="e"><xs:simpleType><xs:restriction base="L">'
                          '<xs:enumeration value="1.0 2.50"/></xs:restriction></xs:simpleType></xs:element></xs:schema>', ['<e>1 2.5</e>', '<e>1.0 2.50</e>', '<e>1</e>']),
    'idref-default': ('<xs:schema {XS}><xs:element name="r"><xs:complexType><xs:sequence><xs:element name="n" maxOccurs="unbounded"><xs:complexType><xs:attribute name="id" type="xs:ID"/>'
                      '<xs:attribute name="parent" type="xs:IDREF" default="a"/></xs:complexType></xs:element></xs:sequence></xs:complexType></xs:element></xs:schema>',
                      ['<r><n id="a"/><n id="b"/></r>', '<r><n id="b"/></r>', '<r><n id="b" parent="b"/></r>']),
    'blocked-xsi-type': ('<xs:schema {XS}><xs:complexType name="B"><xs:sequence><xs:element name="a" type="xs:string"/></xs:sequence></xs:complexType>'
                         '<xs:complexType name="E1"><xs:complexContent><xs:extension base="B"><xs:sequence><xs:element name="b" type="xs:string" minOccurs="0"/></xs:sequence></xs:extension></xs:complexContent></xs:complexType>'
                         '<xs:element name="r"><xs:complexType><xs:sequence><xs:element name="i" type="B" block="extension" maxOccurs="unbounded"/></xs:sequence></xs:complexType></xs:element></xs:schema>',
                         ['<r xmlns:xsi="http://www.w3.org/2001/XMLSchema-instance"><i xsi:type="E1"><a>x</a></i></r>', '<r xmlns:xsi="http://www.w3.org/2001/XMLSchema-instance"><i><a>x</a></i><i xsi:type="E1"><a>x</a></i><i xsi:type="E1"><a>y</a></i></r>',
                          '<r><i><a>x</a></i></r>']),
    # a root without a declaration, typed through xsi:type (every entry point builds a stand-in declaration for it), with and without xsi:nil
    'undeclared-root-xsi-type': ('<xs:schema {XS}><xs:complexType name="T"><xs:sequence><xs:element name="a" type="xs:int" minOccurs="0"/></xs:sequence><xs:attribute name="k" type="xs:int"/></xs:complexType>'
                                 '<xs:element name="r" type="T" nillable="true"/><xs:element name="s" type="T"/></xs:schema>',
                                 ['<other xmlns:xsi="http://www.w3.org/2001/XMLSchema-instance" xsi:type="T"><a>1</a></other>', '<other xmlns:xsi="http://www.w3.org/2001/XMLSchema-instance" xsi:type="T" xsi:nil="true"/>', '<other xmlns:xsi="http://www.w3.org/2001/XMLSchema-instance" xsi:type="T" xsi:nil="true" k="1"/>', '<other xmlns:xsi="http://www.w3.org/2001/XMLSchema-instance" xsi:type="T" xsi:nil="false"><a>1</a></other>',
                                  '<other xmlns:xsi="http://www.w3.org/2001/XMLSchema-instance" xsi:type="T"><a>x</a></other>', '<other xmlns:xsi="http://www.w3.org/2001/XMLSchema-instance" xsi:nil="true"/>', '<r xmlns:xsi="http://www.w3.org/2001/XMLSchema-instance" xsi:nil="true"/>', '<r xmlns:xsi="http://www.w3.org/2001/XMLSchema-instance" xsi:nil="true"><a>1</a></r>', '<s xmlns:xsi="http://www.w3.org/2001/XMLSchema-instance" xsi:nil="true"/>', '<s xmlns:xsi="http://www.w3.org/2001/XMLSchema-instance" xsi:type="T" xsi:nil="false"/>',
                                  '<other xmlns:xsi="http://www.w3.org/2001/XMLSchema-instance" xsi:type="xs:int" xmlns:xs="http://www.w3.org/2001/XMLSchema" xsi:nil="true"/>', '<other xmlns:xsi="http://www.w3.org/2001/XMLSchema-instance" xsi:type="xs:int" xmlns:xs="http://www.w3.org/2001/XMLSchema">5</other>']),
    'date-list-fixed': ('<xs:schema {XS}><xs:simpleType name="DL"><xs:list itemType="xs:date"/></xs:simpleType><xs:element name="e" type="DL" fixed="2000-01-01Z 2000-01-02Z"/></xs:schema>',
                        ['<e>2000-01-01Z 2000-01-02Z</e>', '<e>2000-01-01Z   2000-01-02Z</e>', '<e>2000-01-01Z</e>', '<e/>']),
    'string-fixed': ('<xs:schema {XS}><xs:element name="r"><xs:complexType><xs:sequence><xs:element name="k" type="xs:token" fixed="article"/><xs:element name="u" type="xs:anyURI" fixed="urn:x" minOccurs="0"/></xs:sequence></xs:complexType></xs:element></xs:schema>',
                     ['<r><k>article</k></r>', '<r><k>service</k></r>', '<r><k> article </k></r>', '<r><k/></r>', '<r><k>article</k><u>urn:y</u></r>', '<r><k>articles</k><u>urn:x</u></r>']),
    # a local declaration that shares its name with a global one of another type: the children are governed by the local one, however the document is read (a lazy resource
    # looks the declaration of each streamed child up by its path)
    'local-vs-global-name': ('<xs:schema {XS}><xs:element name="item" type="xs:int"/><xs:element name="label" type="xs:string"/>'
                             '<xs:element name="catalog"><xs:complexType><xs:sequence><xs:element name="item" type="xs:string" maxOccurs="unbounded"/><xs:element name="label" type="xs:int" minOccurs="0"/></xs:sequence></xs:complexType></xs:element></xs:schema>',
                             ['<catalog><item>abc</item></catalog>', '<catalog><item>5</item><label>7</label></catalog>', '<catalog><item>5</item><label>seven</label></catalog>', '<catalog><item>a</item><item>b</item><label>x</label></catalog>']),
    # attributes and children that only a strict wildcard admits and that have no declaration: 'not found' is an error in every mode
    'strict-wildcards': ('<xs:schema {XS} targetNamespace="urn:t" xmlns:t="urn:t"><xs:attribute name="known" type="xs:int"/><xs:element name="k" type="xs:int"/><xs:element name="r"><xs:complexType><xs:sequence>'
                         '<xs:any namespace="##targetNamespace" minOccurs="0" maxOccurs="unbounded"/></xs:sequence><xs:anyAttribute namespace="##targetNamespace"/></xs:complexType></xs:element></xs:schema>',
                         ['<t:r xmlns:t="urn:t" t:known="1"/>', '<t:r xmlns:t="urn:t" t:unknown="1"/>', '<t:r xmlns:t="urn:t" t:known="x"/>', '<t:r xmlns:t="urn:t"><t:k>1</t:k></t:r>',
                          '<t:r xmlns:t="urn:t"><t:k>x</t:k></t:r>', '<t:r xmlns:t="urn:t" t:known="1" t:unknown="2"><t:k>1</t:k></t:r>']),      # (undeclared CHILDREN under a strict wildcard: a listed C06 finding for the lazy channels)
    'simple-fixed': ('<xs:schema {XS}><xs:element name="f" type="xs:decimal" fixed="1.0"/></xs:schema>', ['<f>1</f>', '<f/>', '<f> 1.00 </f>', '<f>2</f>', '<f> </f>']),
}
XS = 'xmlns:xs="http://www.w3.org/2001/XMLSchema"'


def eval_extra(args):
    name, ver, doc = args
    import xmlschema
    from xmlschema.validators.exceptions import XMLSchemaValidationError
    s = _S.get((name, ver)) or _S.setdefault((name, ver), _cls(ver)(EXTRA[name][0].replace('{XS}', XS)))
    v = {}
    try:
        v['is_valid'] = s.is_valid(doc); v['iter_errors'] = not list(s.iter_errors(doc))
        try: s.validate(doc); v['validate'] = True
        except XMLSchemaValidationError: v['validate'] = False
        v['decode_lax'] = not s.decode(doc, validation='lax')[1]
        try: s.decode(doc); v['decode_strict'] = True
        except XMLSchemaValidationError: v['decode_strict'] = False
        v['package_is_valid'] = xmlschema.is_valid(doc, s)
        for thin in (True, False): v[f'lazy_resource_thin_{thin}'] = s.is_valid(xmlschema.XMLResource(doc, lazy=True, thin_lazy=thin))
        v['package_is_valid_lazy'] = xmlschema.is_valid(doc, s, lazy=True)
    except Exception as e: return dict(name=name, ver=ver, doc=doc, verdicts=v, problem=f'{type(e).__name__}: {str(e)[:80]}')
    return dict(name=name, ver=ver, doc=doc, verdicts=v, problem='entry points disagree on the verdict') if len(set(v.values())) > 1 else None


def eval_given_schema(workdir):
    """the package-level functions called with a schema INSTANCE use that instance - whatever namespace the root of the document is in and whatever location hints it carries"""
    import xmlschema
    from xmlschema.validators.exceptions import XMLSchemaValidationError
    d = os.path.join(workdir, 'given'); os.makedirs(d, exist_ok=True)
    XS_ = 'xmlns:xs="http://www.w3.org/2001/XMLSchema"'
    open(os.path.join(d, 'a.xsd'), 'w').write(f'<xs:schema {XS_} targetNamespace="urn:a" xmlns:a="urn:a" elementFormDefault="qualified"><xs:element name="doc"><xs:complexType><xs:sequence>'
                                              f'<xs:element ref="a:head" maxOccurs="unbounded"/></xs:sequence></xs:complexType></xs:element><xs:element name="head" type="xs:string"/></xs:schema>')
    open(os.path.join(d, 'm.xsd'), 'w').write(f'<xs:schema {XS_} targetNamespace="urn:m" xmlns:m="urn:m" xmlns:a="urn:a" elementFormDefault="qualified"><xs:import namespace="urn:a" schemaLocation="a.xsd"/>'
                                              f'<xs:element name="special" substitutionGroup="a:head"><xs:simpleType><xs:restriction base="xs:string"><xs:maxLength value="3"/></xs:restriction></xs:simpleType></xs:element></xs:schema>')
    bad = []; n = 0
    for ver in ('1.0', '1.1'):
        s = _cls(ver)(os.path.join(d, 'm.xsd'))
        for hint in ('', f' xmlns:xsi="http://www.w3.org/2001/XMLSchema-instance" xsi:schemaLocation="urn:a {os.path.join(d, "a.xsd")}"'):
            for body, label in (('<a:head>one</a:head><m:special>two</m:special>', 'valid'), ('<a:head>one</a:head><m:special>toolong</m:special>', 'invalid')):
                doc = f'<a:doc xmlns:a="urn:a" xmlns:m="urn:m"{hint}>{body}</a:doc>'
                p = os.path.join(d, 'doc.xml'); open(p, 'w').write(doc)
                for src in (doc, p):
                    n += 1
                    want = (s.is_valid(src), [e.reason for e in s.iter_errors(src)], repr(s.decode(src, validation='lax')[0]))
                    got = (xmlschema.is_valid(src, s), [e.reason for e in xmlschema.iter_errors(src, s)], repr(xmlschema.to_dict(src, s, validation='lax')[0]))
                    try: xmlschema.validate(src, s); v = True
                    except XMLSchemaValidationError: v = False
                    if got != want or v != want[0]: bad.append(dict(ver=ver, hint=bool(hint), label=label, source='text' if src is doc else 'path', observed=dict(package=str(got)[:200], validate=v, method=str(want)[:200])))
    return n, bad


def run(tier, seed, open_findings):
    rng = random.Random(seed)
    n = 1200 if tier == 'thorough' else 40
    workdir = tempfile.mkdtemp(prefix='verif_c04_')
    try:
        open(os.path.join(workdir, 's.xsd'), 'w').write(docgen.SCHEMA)
        docs = []
        for i in range(n):
            d = docgen.gen(rng, rng.randrange(1, 4)); d = docgen.faulty(rng, d, i % 3)
            if i % 4 == 1:       # comments and a processing instruction inside simple content: not data, whatever the parser keeps of them
                d = d.replace('<t:qty>', '<t:qty><!-- c -->', 1).replace('</t:name>', '<?pi x?></t:name>', 1).replace('</t:leaf>', '<!-- c --></t:leaf>', 1)
            if i % 5 == 2:       # the same prefix declared on two adjacent siblings, each using it in a prefix-dependent value (xsi:type): a source kind that rebuilds the declarations must find both
                X = 'xmlns:q="http://www.w3.org/2001/XMLSchema"'
                d = d.replace('<t:r xmlns:t="urn:t"', '<t:r xmlns:t="urn:t" xmlns:xsi="http://www.w3.org/2001/XMLSchema-instance"', 1)
                d = d.replace('<t:name>', f'<t:name {X} xsi:type="q:token">', 1).replace('<t:qty>', f'<t:qty {X} xsi:type="q:positiveInteger">', 1)
            docs.append(d)
        # every ordered pair of faults on one fixed document: two faults meeting in one element (a content-model error and a value error of a child)
        # is what separates 'strict raises the first error that lax collects' from 'strict raises some error'
        base = docgen.gen(random.Random(7), 2)
        pairs = [(a, b) for a in docgen.FAULTS for b in docgen.FAULTS if a != b]
        for (a1, b1), (a2, b2) in pairs:
            d = base
            if a1 in d: d = d.replace(a1, b1, 1)
            if a2 in d: d = d.replace(a2, b2, 1)
            docs.append(d)
        jobs = [(ver, d, workdir) for d in docs for ver in ('1.0', '1.1')]
        res = pmap(eval_doc, jobs)
        fails = [dict(case=dict(doc=r['doc'], ver=r['ver']), observed=dict(source=r['source'], problem=r['problem'], errors=r.get('lax')), required='all entry points, modes and source kinds agree') for r in res if r]
        out = [result('C04.entry_points_agree', f'{len(docs)} generated documents (0-2 faults) x 2 classes x 12 source kinds (lxml trees included) x 9 entry points', len(jobs) * 12, fails,
                      samples=[dict(doc=docs[1][:200])], distinct=len(set(docs)) * 2)]
        gn, gbad = eval_given_schema(workdir)
        out.append(result('C04.package_functions_use_the_given_schema', 'a schema instance that imports urn:a and adds a substitution member; documents rooted in urn:a with and without an xsi:schemaLocation hint x text / path x 2 classes: the package-level functions agree with the methods',
                          gn, [dict(case=dict(given=True, **{k: b[k] for k in ('ver', 'hint', 'label', 'source')}), observed=b['observed'], required='the package-level function gives what the method of the given schema gives') for b in gbad], exhaustive=True))
        ejobs = [(nm_, ver, d) for nm_, (_, ds) in EXTRA.items() for d in ds for ver in ('1.0', '1.1')]
        eres = [eval_extra(j) for j in ejobs]
        ef = []; ek = {}
        K = 'C04-list-of-dates-or-decimals-enumeration-decode'
        for r in eres:
            if not r: continue
            if r['name'] in ('date-list-enum', 'decimal-list-enum', 'date-list-fixed') and r['problem'].startswith('entry points') and K in open_findings and r['verdicts'].get('is_valid') is True: ek[K] = ek.get(K, 0) + 1; continue
            K2 = 'C04-lazy-chunks-below-an-undeclared-xsi-type-root-are-not-validated'
            if r['name'] == 'undeclared-root-xsi-type' and r['problem'].startswith('entry points') and K2 in open_findings and r['doc'].startswith('<other ') and '<a>x</a>' in r['doc'] \
                    and all(v is (k.startswith('lazy') or k.endswith('lazy')) for k, v in r['verdicts'].items()): ek[K2] = ek.get(K2, 0) + 1; continue
            ef.append(dict(case=dict(extra=r['name'], ver=r['ver'], doc=r['doc']), observed=dict(verdicts=r['verdicts'], problem=r['problem']), required='one verdict on every entry point'))
        out.append(result('C04.verdict_agreement_small_schemas', f'{len(ejobs)} (schema, document, class) over {len(EXTRA)} small schemas (mixed content with a fixed value, enumerations on lists of dates / decimals, an IDREF default, a blocked xsi:type, a fixed decimal) x 6 entry points',
                          len(ejobs) * 6, ef, exhaustive=True, known=ek, samples=[dict(extra='mixed-fixed', doc='<m> </m>')]))
        cfail = []
        counts = (0, 1, 255, 256, 257, 512) if tier == 'thorough' else (0, 1, 255, 256, 512)
        for nerr in counts:
            st = cli_status(nerr, workdir)
            if (st == 0) != (nerr == 0): cfail.append(dict(case=dict(errors=nerr), observed=f'exit status {st}', required='0 iff valid'))
        out.append(result('C04.cli_exit_status', f'xmlschema-validate subprocess on documents with {list(counts)} errors', len(counts), cfail, exhaustive=True, samples=[dict(errors=256)]))
        return out
    finally:
        shutil.rmtree(workdir, ignore_errors=True)


def replay(check_name, case):
    if case.get('given'):
        wd = tempfile.mkdtemp(prefix='verif_c04_')
        try:
            n, bad = eval_given_schema(wd); mine = [b for b in bad if all(b[k] == case[k] for k in ('ver', 'hint', 'label', 'source'))]
            return dict(ok=not mine, observed=mine[:1], required='package-level function = method')
        finally: shutil.rmtree(wd, ignore_errors=True)
    if 'extra' in case:
        r = eval_extra((case['extra'], case['ver'], case['doc'])); return dict(ok=r is None, observed=r, required='one verdict on every entry point')
    workdir = tempfile.mkdtemp(prefix='verif_c04_')
    try:
        open(os.path.join(workdir, 's.xsd'), 'w').write(docgen.SCHEMA)
        if check_name == 'C04.cli_exit_status':
            st = cli_status(case['errors'], workdir); return dict(ok=(st == 0) == (case['errors'] == 0), observed=f'exit status {st}', required='0 iff valid')
        if 'doc' not in case: return dict(ok=True, observed='n/a', required='')
        r = eval_doc((case['ver'], case['doc'], workdir))
        return dict(ok=r is None, observed=r, required='all entry points agree')
    finally:
        shutil.rmtree(workdir, ignore_errors=True)
