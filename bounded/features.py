"""Small schemas that each exercise one XSD 1.1-only (or rarely used) feature, with documents around the feature's decision points.

Shared by the bounded families that need inputs the main generators lack: C11 (only library exceptions, errors can be rendered), C06 (lazy = loaded),
C04 (entry points agree), C10 (no residue), C19 (errors located).  The schemas are inputs; every contract using them is metamorphic or states its own oracle.
"""
XS = 'xmlns:xs="http://www.w3.org/2001/XMLSchema"'
T = f'<xs:schema {XS} targetNamespace="urn:t" xmlns:t="urn:t" elementFormDefault="qualified"'
R = '<t:r xmlns:t="urn:t" xmlns:o="urn:o" xmlns:a="urn:a">'

# name -> (versions, schema text, documents)
FEATURES = {
    'wildcard-notNamespace': (('1.1',), f'{T}><xs:element name="r"><xs:complexType><xs:sequence><xs:element name="h" type="xs:int"/><xs:any notNamespace="urn:a ##targetNamespace" processContents="strict"/>'
                              f'<xs:element name="z" minOccurs="0"/></xs:sequence></xs:complexType></xs:element><xs:element name="g" type="xs:int"/></xs:schema>',
                              [R + '<t:h>1</t:h><o:x/></t:r>', R + '<t:h>1</t:h></t:r>', R + '<t:h>1</t:h><a:x/></t:r>', R + '<t:h>1</t:h><t:g>1</t:g></t:r>', R + '<t:h>x</t:h><t:z/></t:r>', R + '<t:z/></t:r>', R + '</t:r>']),
    'wildcard-notQName': (('1.1',), f'{T}><xs:element name="r"><xs:complexType><xs:sequence><xs:any notQName="t:g ##defined" processContents="lax" minOccurs="0" maxOccurs="2"/>'
                          f'<xs:element name="z" minOccurs="0"/></xs:sequence><xs:anyAttribute notQName="t:at" processContents="lax"/></xs:complexType></xs:element><xs:element name="g" type="xs:int"/><xs:attribute name="at" type="xs:int"/></xs:schema>',
                          [R + '<o:x/></t:r>', R + '<t:g>1</t:g></t:r>', R + '<o:x/><o:y/><o:w/></t:r>', '<t:r xmlns:t="urn:t" t:at="1"/>', '<t:r xmlns:t="urn:t" xmlns:o="urn:o" o:at="x"/>', R + '<t:z/><o:x/></t:r>']),
    'wildcard-empty-namespace': (('1.0', '1.1'), f'{T}><xs:element name="r"><xs:complexType><xs:sequence><xs:element name="h" minOccurs="0"/><xs:any namespace="" processContents="strict" minOccurs="0"/>'
                                 f'</xs:sequence></xs:complexType></xs:element></xs:schema>', [R + '<t:h/></t:r>', R + '<t:h/><o:x/></t:r>', R + '<o:x/></t:r>', R + '</t:r>']),
    'open-content-interleave': (('1.1',), f'{T}><xs:element name="r"><xs:complexType><xs:openContent mode="interleave"><xs:any namespace="##other" processContents="lax"/></xs:openContent>'
                                f'<xs:sequence><xs:element name="a" type="xs:int"/><xs:element name="b" minOccurs="0"/></xs:sequence></xs:complexType></xs:element></xs:schema>',
                                [R + '<t:a>1</t:a></t:r>', R + '<o:x/><t:a>1</t:a><o:y/><t:b/><o:z/></t:r>', R + '<t:b/></t:r>', R + '<t:a>1</t:a><t:a>2</t:a></t:r>', R + '<t:a>x</t:a><o:x/></t:r>', R + '<o:x/></t:r>']),
    'open-content-suffix-default': (('1.1',), f'{T}><xs:defaultOpenContent mode="suffix"><xs:any namespace="##other" processContents="skip"/></xs:defaultOpenContent>'
                                    f'<xs:element name="r"><xs:complexType><xs:sequence><xs:element name="a" type="xs:int" maxOccurs="2"/></xs:sequence></xs:complexType></xs:element></xs:schema>',
                                    [R + '<t:a>1</t:a><o:x/><o:y/></t:r>', R + '<o:x/><t:a>1</t:a></t:r>', R + '<t:a>1</t:a><t:a>2</t:a><t:a>3</t:a></t:r>', R + '<o:x/></t:r>']),
    'alternatives': (('1.1',), f'{T}><xs:element name="r"><xs:complexType><xs:sequence><xs:element name="v" maxOccurs="unbounded" type="t:B"><xs:alternative test="@k=\'i\'" type="t:I"/>'
                     f'<xs:alternative test="@k=\'d\'" type="t:D"/><xs:alternative test="@k=\'e\'" type="xs:error"/></xs:element></xs:sequence></xs:complexType></xs:element>'
                     f'<xs:complexType name="B"><xs:simpleContent><xs:extension base="xs:string"><xs:attribute name="k"/></xs:extension></xs:simpleContent></xs:complexType>'
                     f'<xs:complexType name="I"><xs:simpleContent><xs:restriction base="t:B"><xs:pattern value="[0-9]+"/></xs:restriction></xs:simpleContent></xs:complexType>'
                     f'<xs:complexType name="D"><xs:simpleContent><xs:restriction base="t:B"><xs:pattern value="[0-9]{{4}}-[0-9]{{2}}"/></xs:restriction></xs:simpleContent></xs:complexType></xs:schema>',
                     [R + '<t:v k="i">12</t:v><t:v k="d">2020-01</t:v><t:v>free</t:v></t:r>', R + '<t:v k="i">x</t:v></t:r>', R + '<t:v k="d">12</t:v><t:v k="i">3</t:v></t:r>', R + '<t:v k="e">1</t:v></t:r>', R + '<t:v k="q">z</t:v></t:r>']),
    'alternatives-default': (('1.1',), f'{T}><xs:element name="r"><xs:complexType><xs:sequence><xs:element name="shape" maxOccurs="unbounded" type="t:Base"><xs:alternative test="@kind=\'c\'" type="t:Circle"/>'
                             f'<xs:alternative type="t:Ext"/></xs:element><xs:element name="size" minOccurs="0" type="xs:decimal"><xs:alternative test="not(@unit)" type="t:Pos"/></xs:element></xs:sequence></xs:complexType></xs:element>'
                             f'<xs:complexType name="Base"><xs:sequence><xs:element name="id" type="xs:int"/></xs:sequence><xs:attribute name="kind"/></xs:complexType>'
                             f'<xs:complexType name="Circle"><xs:complexContent><xs:extension base="t:Base"><xs:sequence><xs:element name="radius" type="xs:decimal"/></xs:sequence></xs:extension></xs:complexContent></xs:complexType>'
                             f'<xs:complexType name="Ext"><xs:complexContent><xs:extension base="t:Base"><xs:sequence><xs:element name="note" type="xs:string" minOccurs="0"/></xs:sequence></xs:extension></xs:complexContent></xs:complexType>'
                             f'<xs:simpleType name="Pos"><xs:restriction base="xs:decimal"><xs:minExclusive value="0"/></xs:restriction></xs:simpleType></xs:schema>',
                             [R + '<t:shape><t:id>1</t:id><t:note>n</t:note></t:shape><t:shape kind="c"><t:id>2</t:id><t:radius>1.5</t:radius></t:shape><t:size>2</t:size></t:r>',
                              R + '<t:shape><t:id>1</t:id></t:shape><t:size>-1</t:size></t:r>', R + '<t:shape kind="c"><t:id>1</t:id><t:note>n</t:note></t:shape></t:r>', R + '<t:shape kind="q"><t:id>1</t:id><t:note>n</t:note></t:shape></t:r>']),
    'assertions': (('1.1',), f'{T}><xs:element name="r"><xs:complexType><xs:sequence><xs:element name="lo" type="xs:int"/><xs:element name="hi" type="xs:int"/><xs:element name="s" minOccurs="0">'
                   f'<xs:simpleType><xs:restriction base="xs:int"><xs:assertion test="$value mod 2 = 0"/></xs:restriction></xs:simpleType></xs:element></xs:sequence>'
                   f'<xs:attribute name="n" type="xs:int"/><xs:assert test="t:lo le t:hi"/><xs:assert test="not(@n) or @n = count(*)"/></xs:complexType></xs:element></xs:schema>',
                   [R + '<t:lo>1</t:lo><t:hi>2</t:hi></t:r>', R + '<t:lo>3</t:lo><t:hi>2</t:hi></t:r>', '<t:r xmlns:t="urn:t" n="3"><t:lo>1</t:lo><t:hi>2</t:hi><t:s>4</t:s></t:r>',
                    '<t:r xmlns:t="urn:t" n="2"><t:lo>1</t:lo><t:hi>2</t:hi><t:s>3</t:s></t:r>', R + '<t:lo>x</t:lo><t:hi>2</t:hi></t:r>', R + '<t:hi>2</t:hi></t:r>']),
    'all-with-occurs': (('1.1',), f'{T}><xs:element name="r"><xs:complexType><xs:all><xs:element name="a" minOccurs="2" maxOccurs="3"/><xs:element name="b" minOccurs="0" maxOccurs="2"/>'
                        f'<xs:element name="c"/><xs:any namespace="##other" processContents="lax" minOccurs="0"/></xs:all></xs:complexType></xs:element></xs:schema>',
                        [R + '<t:a/><t:c/><t:a/></t:r>', R + '<t:a/><t:c/></t:r>', R + '<t:b/><t:a/><t:b/><t:a/><t:c/><t:a/></t:r>', R + '<t:a/><t:a/><t:a/><t:a/><t:c/></t:r>', R + '<t:a/><o:x/><t:a/><t:c/></t:r>',
                         R + '<t:a/><t:a/></t:r>', R + '<t:a/><t:a/><t:c/><t:b/><t:b/><t:b/></t:r>', R + '<o:x/><o:y/><t:a/><t:a/><t:c/></t:r>']),
    'default-attributes': (('1.1',), f'{T} defaultAttributes="t:DA"><xs:attributeGroup name="DA"><xs:attribute name="lang" type="xs:language"/><xs:attribute name="rev" type="xs:int" default="1"/></xs:attributeGroup>'
                           f'<xs:element name="r"><xs:complexType><xs:sequence><xs:element name="p" minOccurs="0"><xs:complexType defaultAttributesApply="false"><xs:attribute name="x"/></xs:complexType></xs:element>'
                           f'</xs:sequence></xs:complexType></xs:element></xs:schema>',
                           ['<t:r xmlns:t="urn:t" lang="en" rev="2"><t:p x="1"/></t:r>', '<t:r xmlns:t="urn:t" rev="x"/>', '<t:r xmlns:t="urn:t"><t:p lang="en"/></t:r>', '<t:r xmlns:t="urn:t" lang="not a lang"/>']),
    'nillable-fixed-mixed': (('1.0', '1.1'), f'{T}><xs:element name="r"><xs:complexType><xs:sequence><xs:element name="n" nillable="true" type="xs:int" minOccurs="0"/>'
                             f'<xs:element name="f" fixed="7" type="xs:int" minOccurs="0"/><xs:element name="m" minOccurs="0"><xs:complexType mixed="true"><xs:sequence><xs:element name="i" minOccurs="0" maxOccurs="unbounded"/></xs:sequence></xs:complexType></xs:element>'
                             f'</xs:sequence></xs:complexType></xs:element></xs:schema>',
                             ['<t:r xmlns:t="urn:t" xmlns:xsi="http://www.w3.org/2001/XMLSchema-instance"><t:n xsi:nil="true"/><t:f>07</t:f><t:m>a<t:i/>b<t:i/>c</t:m></t:r>',
                              '<t:r xmlns:t="urn:t" xmlns:xsi="http://www.w3.org/2001/XMLSchema-instance"><t:n xsi:nil="true">1</t:n></t:r>', '<t:r xmlns:t="urn:t" xmlns:xsi="http://www.w3.org/2001/XMLSchema-instance"><t:f xsi:nil="true"/></t:r>',
                              '<t:r xmlns:t="urn:t"><t:f>8</t:f></t:r>', '<t:r xmlns:t="urn:t"><t:f/></t:r>', '<t:r xmlns:t="urn:t"><t:m><t:j/></t:m></t:r>']),
    'substitution-block-lazy-depth': (('1.0', '1.1'), f'{T}><xs:element name="r"><xs:complexType><xs:sequence><xs:element ref="t:head" maxOccurs="unbounded"/></xs:sequence></xs:complexType></xs:element>'
                                      f'<xs:complexType name="B"><xs:sequence><xs:element name="x" minOccurs="0"/></xs:sequence></xs:complexType>'
                                      f'<xs:complexType name="E"><xs:complexContent><xs:extension base="t:B"><xs:sequence><xs:element name="y" minOccurs="0"/></xs:sequence></xs:extension></xs:complexContent></xs:complexType>'
                                      f'<xs:complexType name="Rs"><xs:complexContent><xs:restriction base="t:B"><xs:sequence/></xs:restriction></xs:complexContent></xs:complexType>'
                                      f'<xs:element name="head" type="t:B" block="extension"/><xs:element name="mext" type="t:E" substitutionGroup="t:head"/><xs:element name="mres" type="t:Rs" substitutionGroup="t:head"/>'
                                      f'<xs:element name="msame" type="t:B" substitutionGroup="t:head"/></xs:schema>',
                                      ['<t:r xmlns:t="urn:t"><t:head/><t:mres/><t:msame/></t:r>', '<t:r xmlns:t="urn:t"><t:mext/></t:r>', '<t:r xmlns:t="urn:t" xmlns:xsi="http://www.w3.org/2001/XMLSchema-instance"><t:msame xsi:type="t:E"/></t:r>',
                                       '<t:r xmlns:t="urn:t" xmlns:xsi="http://www.w3.org/2001/XMLSchema-instance"><t:head xsi:type="t:Rs"/><t:head xsi:type="t:E"><t:y/></t:head></t:r>']),
    'idref-root-and-chunks': (('1.0', '1.1'), f'{T}><xs:element name="r"><xs:complexType><xs:sequence><xs:element name="i" maxOccurs="unbounded"><xs:complexType><xs:sequence><xs:element name="ref" type="xs:IDREF" minOccurs="0"/></xs:sequence>'
                              f'<xs:attribute name="id" type="xs:ID"/><xs:attribute name="to" type="xs:IDREF"/></xs:complexType></xs:element></xs:sequence><xs:attribute name="main" type="xs:IDREF"/></xs:complexType></xs:element></xs:schema>',
                              ['<t:r xmlns:t="urn:t" main="a"><t:i id="a" to="b"/><t:i id="b"><t:ref>a</t:ref></t:i></t:r>', '<t:r xmlns:t="urn:t" main="zz"><t:i id="a"/></t:r>', '<t:r xmlns:t="urn:t"><t:i id="a" to="p9"/></t:r>',
                               '<t:r xmlns:t="urn:t"><t:i id="a"><t:ref>nope</t:ref></t:i><t:i id="a"/></t:r>']),
}


def build(name, ver):
    from .C01 import _cls
    vers, xsd, docs = FEATURES[name]
    return _cls(ver)(xsd)


def items():
    for name, (vers, xsd, docs) in FEATURES.items():
        for ver in vers:
            for i, d in enumerate(docs): yield name, ver, i, d
