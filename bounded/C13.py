"""C13 bounded run-time contract (labelled bounded): defused parsing refuses every entity declaration before any expansion.

defuse mode x source kind (text, bytes, path, file URL, StringIO, BytesIO, open text/binary file, non-seekable stream) x DTD payload
catalogue x role (instance; main schema; included schema).  When defusing applies: a document with a declaration is refused with
XMLResourceForbidden and the file named by external entities is never opened (audit hook); a document without declarations parses to the
same tree as without defusing.  Nothing but library exceptions is raised.
"""
import io, itertools, os, shutil, sys, tempfile
from .common import result
_secret = [None]; _events = []; _hooked = [False]
XS = 'xmlns:xs="http://www.w3.org/2001/XMLSchema"'


def _hook(ev, a):
    if ev == 'open' and _secret[0] and isinstance(a[0], str) and a[0] == _secret[0]: _events.append(a[0])


class NonSeek(io.BufferedReader):
    def seekable(self): return False
    def seek(self, *a): raise io.UnsupportedOperation('seek')


def payloads(secret, big):
    return {
        'none': '<r>ok</r>',
        'none-decl': '<?xml version="1.0" encoding="UTF-8"?><!-- c --><r>ok</r>',
        'internal': '<!DOCTYPE r [<!ENTITY a "EXPANDED">]><r>&a;</r>',
        'internal-unused': '<!DOCTYPE r [<!ENTITY a "EXPANDED">]><r>ok</r>',
        'external': f'<!DOCTYPE r [<!ENTITY a SYSTEM "file://{secret}">]><r>&a;</r>',
        'parameter': f'<!DOCTYPE r [<!ENTITY % p SYSTEM "file://{secret}"> %p;]><r>ok</r>',
        # declared and never referred to: the declaration alone is what the property forbids
        'parameter-declared-only': f'<!DOCTYPE r [<!ENTITY % p SYSTEM "file://{secret}">]><r>ok</r>',
        'parameter-public-declared-only': f'<!DOCTYPE r [<!ENTITY % p PUBLIC "-//V//P" "file://{secret}">]><r>ok</r>',
        'parameter-internal-declared-only': '<!DOCTYPE r [<!ENTITY % p "<!ELEMENT r ANY>">]><r>ok</r>',
        'external-declared-only': f'<!DOCTYPE r [<!ENTITY a SYSTEM "file://{secret}">]><r>ok</r>',
        # an undefined parameter-entity reference before the declaration (a standalone document: the real parser skips the reference and reads on)
        'undefined-pe-then-entity-standalone': '<?xml version="1.0" standalone="yes"?><!DOCTYPE r [ %x; <!ENTITY e "EXPANDED">]><r>&e;</r>',
        'unparsed': '<!DOCTYPE r [<!NOTATION n SYSTEM "n"><!ENTITY u SYSTEM "u.bin" NDATA n>]><r>ok</r>',
        'ext-subset': f'<!DOCTYPE r SYSTEM "file://{secret}"><r>ok</r>',
        'ext-subset-standalone': f'<?xml version="1.0" standalone="yes"?><!DOCTYPE r SYSTEM "file://{secret}"><r>ok</r>',
        'ext-subset-public': f'<?xml version="1.0" standalone="no"?><!DOCTYPE r PUBLIC "-//V//T" "file://{secret}"><r>ok</r>',
        'nested': '<!DOCTYPE r [<!ENTITY a "x"><!ENTITY b "&a;&a;">]><r>&b;</r>',
        'late-comment': '<?xml version="1.0"?><!-- c --><!DOCTYPE r [<!ENTITY a "EXPANDED">]><r>&a;</r>',
        'prolog-60k': '<?xml version="1.0"?><!--' + 'c' * big + '--><!DOCTYPE r [<!ENTITY a "EXPANDED">]><r>&a;</r>',
    }


def sources(text, root):
    p = os.path.join(root, 'doc.xml'); open(p, 'w').write(text)
    yield 'text', lambda: text
    yield 'bytes', lambda: text.encode()
    yield 'path', lambda: p
    yield 'file-url', lambda: 'file://' + p
    yield 'StringIO', lambda: io.StringIO(text)
    yield 'BytesIO', lambda: io.BytesIO(text.encode())
    yield 'open-text', lambda: open(p)
    yield 'open-binary', lambda: open(p, 'rb')
    yield 'nonseekable', lambda: NonSeek(io.BytesIO(text.encode()))
    # a seekable stream whose position is not at the start when the resource is built (a file just written, a stream the caller has read from): the library rewinds it
    def at(mode, where):
        f = open(p, mode); f.seek(0, 2) if where == 'end' else f.read(max(1, len(text) // 2)); return f
    yield 'open-binary-at-end', lambda: at('rb', 'end')
    yield 'open-text-at-end', lambda: at('r', 'end')
    yield 'open-binary-read-half', lambda: at('rb', 'half')
    def just_written():
        f = tempfile.TemporaryFile('w+b', dir=root); f.write(text.encode()); f.flush(); return f
    yield 'tempfile-just-written', just_written
    # other encodings: the ASCII bytes of '<!DOCTYPE' do not occur in UTF-16 data; a BOM precedes the declaration
    t16 = text.replace('encoding="UTF-8"', 'encoding="UTF-16"')
    for enc, data in (('utf-16', t16.encode('utf-16')), ('utf-16-be-bom', b'\xfe\xff' + t16.encode('utf-16-be')), ('utf-8-sig', text.encode('utf-8-sig'))):
        p2 = os.path.join(root, f'doc-{enc}.xml'); open(p2, 'wb').write(data)
        yield f'bytes-{enc}', (lambda d=data: d)
        yield f'BytesIO-{enc}', (lambda d=data: io.BytesIO(d))
        yield f'path-{enc}', (lambda q=p2: q)
        yield f'nonseekable-{enc}', (lambda d=data: NonSeek(io.BytesIO(d)))


def run(tier, seed, open_findings):
    import xmlschema
    from xmlschema.exceptions import XMLSchemaException, XMLResourceForbidden
    if not _hooked[0]: sys.addaudithook(_hook); _hooked[0] = True
    root = tempfile.mkdtemp(prefix='verif_c13_'); secret = os.path.join(root, 'secret.txt'); open(secret, 'w').write('TOPSECRET'); _secret[0] = secret
    fails = []; n = 0; known = {}
    try:
        for (pname, text), defuse in itertools.product(payloads(secret, 60000).items(), ['always', 'remote', 'nonlocal', 'never']):
            for sname, mk in sources(text, root):
                n += 1; _events.clear(); src = mk()
                try:
                    r = xmlschema.XMLResource(src, defuse=defuse); out = ('parsed', (r.root.text or ''))
                except XMLResourceForbidden: out = ('forbidden', '')
                except XMLSchemaException as e: out = ('libexc:' + type(e).__name__, str(e)[:60])
                except Exception as e: out = ('OTHER:' + type(e).__name__, str(e)[:60])
                finally:
                    if hasattr(src, 'close'): src.close()
                has_decl = not pname.startswith('none')
                applies = defuse == 'always'      # every source here is local or in memory: 'remote' / 'nonlocal' do not apply
                prob = None
                if applies and has_decl and out[0] != 'forbidden': prob = 'declaration not refused'
                elif applies and not has_decl and out != ('parsed', 'ok'): prob = 'clean document not parsed to the same tree'
                elif _events: prob = 'file named by an external entity was opened'
                elif out[0].startswith('OTHER'): prob = 'non-library exception'
                elif 'TOPSECRET' in out[1]: prob = 'external entity expanded'
                if prob: fails.append(dict(case=dict(payload=pname, defuse=defuse, source=sname), observed=dict(outcome=out, problem=prob), required='forbidden before any expansion / same tree'))
        out = [result('C13.instance_payloads', f'{len(payloads(secret, 10))} payloads x 4 defuse modes x 25 source kinds (text, bytes, paths, streams, streams positioned past the prolog; UTF-8, UTF-8 with BOM, UTF-16 LE/BE with BOM) (instance role)', n, fails, exhaustive=True,
                      samples=[dict(payload='external', defuse='always', source='nonseekable')])]
        # schema roles: main schema and included schema carrying a declaration
        sfails = []; m = 0
        for pname in ('internal-unused', 'external', 'parameter', 'ext-subset'):
            dtd = payloads(secret, 10)[pname].split('<r>')[0]
            inc = os.path.join(root, 'inc.xsd'); open(inc, 'w').write(dtd.replace('DOCTYPE r', 'DOCTYPE xs:schema') + f'<xs:schema {XS}><xs:element name="x"/></xs:schema>')
            mainp = os.path.join(root, 'main.xsd'); open(mainp, 'w').write(f'<xs:schema {XS}><xs:include schemaLocation="inc.xsd"/><xs:element name="r"/></xs:schema>')
            for role, path in (('included-schema', mainp), ('main-schema', inc)):
                for cls in (xmlschema.XMLSchema10, xmlschema.XMLSchema11):
                    m += 1; _events.clear()
                    try: cls(path, defuse='always'); outc = 'built'
                    except XMLResourceForbidden: outc = 'forbidden'
                    except XMLSchemaException as e: outc = 'libexc:' + type(e).__name__
                    except Exception as e: outc = 'OTHER:' + type(e).__name__
                    if outc != 'forbidden' or _events:
                        sfails.append(dict(case=dict(payload=pname, role=role, cls=cls.__name__), observed=dict(outcome=outc, secret_opened=bool(_events)), required='refused with the forbidden-resource error, nothing fetched'))
            # the document with the declaration is pulled in by include / redefine / override, the main schema given as a path or as text with a base URL, in every validation mode
            # of the schema: the refusal is the forbidden-resource error itself (not a collected or converted one) and nothing of the document is used
            for mech, cls in (('include', xmlschema.XMLSchema10), ('redefine', xmlschema.XMLSchema10), ('include', xmlschema.XMLSchema11), ('override', xmlschema.XMLSchema11)):
                text = f'<xs:schema {XS}><xs:{mech} schemaLocation="inc.xsd"/><xs:element name="r"/></xs:schema>'
                open(mainp, 'w').write(text)
                for how, mode in itertools.product(('path', 'text+base_url'), ('strict', 'lax', 'skip')):
                    m += 1; _events.clear()
                    try:
                        (cls(mainp, defuse='always', validation=mode) if how == 'path' else cls(text, base_url=root, defuse='always', validation=mode)); outc = 'built'
                    except XMLResourceForbidden: outc = 'forbidden'
                    except XMLSchemaException as e: outc = 'libexc:' + type(e).__name__
                    except Exception as e: outc = 'OTHER:' + type(e).__name__
                    if outc != 'forbidden' or _events:
                        sfails.append(dict(case=dict(payload=pname, role=f'{mech}d-schema:{how}:{mode}', cls=cls.__name__), observed=dict(outcome=outc, secret_opened=bool(_events)), required='refused with the forbidden-resource error, nothing fetched'))
        # schema documents reached through an xsi:schemaLocation hint of the instance (root or inner element; a new namespace or one already loaded), use_location_hints on
        for pname in ('internal-unused', 'external', 'parameter', 'ext-subset'):
            dtd = payloads(secret, 10)[pname].split('<r>')[0].replace('DOCTYPE r', 'DOCTYPE xs:schema')
            hin = os.path.join(root, 'hinted-new.xsd'); open(hin, 'w').write(dtd + f'<xs:schema {XS} targetNamespace="urn:h"><xs:element name="h"/></xs:schema>')
            hsame = os.path.join(root, 'hinted-same.xsd'); open(hsame, 'w').write(dtd + f'<xs:schema {XS} targetNamespace="urn:m"><xs:element name="late"/></xs:schema>')
            hmain = os.path.join(root, 'hmain.xsd')
            open(hmain, 'w').write(f'<xs:schema {XS} targetNamespace="urn:m" xmlns:m="urn:m" elementFormDefault="qualified"><xs:element name="r"><xs:complexType><xs:sequence>'
                                   f'<xs:element name="in" minOccurs="0"><xs:complexType><xs:sequence><xs:any minOccurs="0" maxOccurs="unbounded" processContents="lax"/></xs:sequence></xs:complexType></xs:element>'
                                   f'<xs:any namespace="##other" minOccurs="0" maxOccurs="unbounded" processContents="lax"/></xs:sequence></xs:complexType></xs:element></xs:schema>')
            XSI = 'xmlns:xsi="http://www.w3.org/2001/XMLSchema-instance"'
            docs = {'root-new-namespace': f'<m:r xmlns:m="urn:m" xmlns:h="urn:h" {XSI} xsi:schemaLocation="urn:h {hin}"><h:h/></m:r>',
                    'inner-new-namespace': f'<m:r xmlns:m="urn:m" xmlns:h="urn:h" {XSI}><m:in xsi:schemaLocation="urn:h {hin}"><h:h/></m:in></m:r>',
                    'inner-same-namespace': f'<m:r xmlns:m="urn:m" {XSI}><m:in xsi:schemaLocation="urn:m {hsame}"><m:late/></m:in></m:r>'}
            for place, doc in docs.items():
                for cls in (xmlschema.XMLSchema10, xmlschema.XMLSchema11):
                    for api in ('iter_errors', 'is_valid', 'decode'):
                        m += 1; _events.clear()
                        try:
                            sch = cls(hmain, defuse='always')
                            r_ = getattr(sch, api)(doc, use_location_hints=True) if api != 'decode' else sch.decode(doc, use_location_hints=True, validation='lax')
                            if api == 'iter_errors': list(r_)
                            outc = 'processed'
                        except XMLResourceForbidden: outc = 'forbidden'
                        except XMLSchemaException as e: outc = 'libexc:' + type(e).__name__
                        except Exception as e: outc = 'OTHER:' + type(e).__name__
                        # a hint on the ROOT goes through the import machinery, which treats a refused location as an access failure and goes on without it (as for xs:import):
                        # there the clause is only that nothing is expanded or fetched; a hint met DURING validation is refused with the error
                        if (outc != 'forbidden' and not place.startswith('root')) or outc.startswith('OTHER') or _events:
                            sfails.append(dict(case=dict(payload=pname, role='hinted-schema:' + place, cls=cls.__name__, api=api), observed=dict(outcome=outc, secret_opened=bool(_events)), required='refused with the forbidden-resource error, nothing fetched'))
        # document-level API: the schema is built by the API from a source; the caller's defuse mode must govern that schema too
        for pname in ('internal-unused', 'external', 'ext-subset'):
            dtd = payloads(secret, 10)[pname].split('<r>')[0]
            inc = os.path.join(root, 'api.xsd'); open(inc, 'w').write(dtd.replace('DOCTYPE r', 'DOCTYPE xs:schema') + f'<xs:schema {XS}><xs:element name="r"/></xs:schema>')
            for api in ('validate', 'is_valid', 'iter_errors', 'to_dict'):
                m += 1; _events.clear()
                try:
                    f = getattr(xmlschema, api); r_ = f('<r>ok</r>', inc, defuse='always')
                    if api == 'iter_errors': list(r_)
                    outc = 'built'
                except XMLResourceForbidden: outc = 'forbidden'
                except XMLSchemaException as e: outc = 'libexc:' + type(e).__name__
                except Exception as e: outc = 'OTHER:' + type(e).__name__
                if outc == 'built' or outc.startswith('OTHER') or _events:
                    sfails.append(dict(case=dict(payload=pname, role='schema-of-document-api', cls=api), observed=dict(outcome=outc, secret_opened=bool(_events)), required='refused, nothing fetched'))
        out.append(result('C13.schema_roles', '4 payloads x (main schema, included schema) x 2 classes, and 3 payloads x 4 package-level functions that build the schema from a path, with defuse=always', m, sfails, exhaustive=True, samples=[dict(payload='external', role='included-schema')]))
        # large prolog on a non-seekable stream (the first start tag lies beyond the 64 KiB look-ahead buffer)
        # a lazy resource reads its source again at every use: what it reads then is defused like what it read first (the source may have changed in between)
        rf = []; nr = 0
        for pname in ('internal', 'external', 'parameter-declared-only'):
            bad_doc = payloads(secret, 10)[pname].replace('<r>', '<r><c>').replace('</r>', '</c></r>')
            for kind in ('file-object', 'path'):
                for use in ('iter', 'iter_depth', 'iterfind', 'is_valid'):
                    nr += 1; _events.clear()
                    pth = os.path.join(root, f'reopen_{nr}.xml'); open(pth, 'w').write('<r><c>ok</c></r>')
                    fobj = open(pth, 'r+b') if kind == 'file-object' else None
                    try:
                        res = xmlschema.XMLResource(fobj if fobj is not None else pth, lazy=True, defuse='always')
                        if fobj is not None: fobj.seek(0); fobj.truncate(); fobj.write(bad_doc.encode()); fobj.flush(); fobj.seek(0)
                        else: open(pth, 'w').write(bad_doc)
                        if use == 'iter': out_ = [e.text for e in res.iter()]
                        elif use == 'iter_depth': out_ = [e.text for e in res.iter_depth()]
                        elif use == 'iterfind': out_ = [e.text for e in res.iterfind('/r/c')]
                        else: out_ = xmlschema.XMLSchema10(f'<xs:schema {XS}><xs:element name="r"><xs:complexType><xs:sequence><xs:element name="c" maxOccurs="9"/></xs:sequence></xs:complexType></xs:element></xs:schema>').is_valid(res)
                        outc = f'processed: {out_!r}'[:80]
                    except XMLResourceForbidden: outc = 'forbidden'
                    except XMLSchemaException as e: outc = 'libexc:' + type(e).__name__
                    except Exception as e: outc = 'OTHER:' + type(e).__name__ + ': ' + str(e)[:60]
                    finally:
                        if fobj is not None: fobj.close()
                    if outc != 'forbidden' or _events:
                        rf.append(dict(case=dict(reopen=True, payload=pname, source=kind, use=use), observed=dict(outcome=outc, secret_opened=bool(_events)), required='refused with the forbidden-resource error at the second reading too'))
        out.append(result('C13.lazy_reopen_is_defused', '3 payloads written behind a lazy resource after its creation from a harmless document x (file object, path) x (iter, iter_depth, iterfind, validation), defuse=always', nr, rf, exhaustive=True))
        from xmlschema.exceptions import XMLResourceOSError
        from xml.etree import ElementTree as PET
        bigs = {'comment-70k': '<?xml version="1.0"?><!--' + 'c' * 70000 + '--><r>ok</r>',
                # the root start tag ends just below 64 KiB and 3 000 children follow: what is parsed after the defusing pass must be the whole document
                'late-root-many-children': '<?xml version="1.0"?><!--' + 'c' * 65440 + '--><r>' + ''.join(f'<c>{i}</c>' for i in range(3000)) + '</r>',
                'comment-64k-exact': '<?xml version="1.0"?><!--' + 'c' * (65536 - 40) + '--><r><c>1</c><c>2</c></r>'}
        lf = []
        for bname, big in bigs.items():
            want = PET.tostring(xmlschema.XMLResource(big, defuse='never').root)
            try:
                r = xmlschema.XMLResource(NonSeek(io.BytesIO(big.encode())), defuse='always'); outc = 'same tree' if PET.tostring(r.root) == want else f'another tree ({len(r.root)} children for {len(PET.fromstring(want))})'
            except XMLResourceOSError as e: outc = 'refused: rewind not possible'
            except XMLSchemaException as e: outc = f'{type(e).__name__}: {str(e)[:80]}'
            if outc == 'same tree': continue
            # listed finding: the look-ahead buffer is 64 KiB; a stream that cannot be rewound further is REFUSED with the library's OS error - anything else (a parse
            # error, another tree) means the parser did not see the bytes that were checked
            if outc.startswith('refused') and 'C13-nonseekable-large-prolog' in open_findings: known['C13-nonseekable-large-prolog'] = known.get('C13-nonseekable-large-prolog', 0) + 1
            else: lf.append(dict(case=dict(prolog_bytes=len(big), source='nonseekable', doc=bname), observed=outc, required='parsed to the same tree as without defusing'))
        out.append(result('C13.large_prolog_nonseekable', f'{len(bigs)} clean documents whose root start tag lies around / beyond the 64 KiB look-ahead, on a non-seekable binary stream, defuse=always: the same tree as without defusing', len(bigs), lf, exhaustive=True, known=known,
                          samples=[dict(prolog_bytes=70000)]))
        return out
    finally:
        _secret[0] = None
        shutil.rmtree(root, ignore_errors=True)


def replay(check_name, case):
    if case.get('reopen'):
        out = run('quick', 0, {'C13-nonseekable-large-prolog': True}); mine = [f for b_ in out for f in b_['failures'] if f['case'] == case]; return dict(ok=not mine, observed=mine[:1], required='refused at the second reading too')
    if 'prolog_bytes' in case and 'doc' not in case:
        import xmlschema
        big = '<?xml version="1.0"?><!--' + 'c' * case['prolog_bytes'] + '--><r>ok</r>'
        try: r = xmlschema.XMLResource(NonSeek(io.BytesIO(big.encode())), defuse='always'); return dict(ok=r.root.text == 'ok', observed='parsed', required='parsed')
        except Exception as e: return dict(ok=False, observed=f'{type(e).__name__}: {str(e)[:100]}', required='parsed to the same tree as without defusing')
    out = run('quick', 0, {})
    mine = [f for b in out for f in b['failures'] if f['case'] == case]
    return dict(ok=not mine, observed=mine[:1], required='refused before expansion')
