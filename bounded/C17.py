"""C17 bounded run-time contract (labelled bounded): names survive prefix mapping.

Generated documents whose elements redeclare a pool of prefixes (p, q, default) over a pool of URIs at random depths; decoded with the
default converter (xmlns declarations reported as @xmlns / @xmlns:p keys): every element key, resolved with the declarations the data
reports for that node and its ancestors, denotes the expanded name of the corresponding XML node (per item: same-key children may carry
different declarations, and a child's key is chosen after the child's own declarations are pushed).  Encoding the data restores the
expanded names of the tree.  Also JsonML and Parker-free converters that keep namespace information: BadgerFish.
"""
import random
from .common import pmap, result
from .C01 import _cls
XS = 'xmlns:xs="http://www.w3.org/2001/XMLSchema"'
URIS = ['urn:u', 'urn:v', 'urn:w']; PFX = ['p', 'q', '']


def schema(ver):
    main = f'<xs:schema {XS} targetNamespace="urn:u" xmlns:u="urn:u" elementFormDefault="qualified">' + \
           ''.join(f'<xs:import namespace="{x}"/>' for x in URIS[1:]) + \
           '<xs:element name="n"><xs:complexType><xs:sequence><xs:any namespace="##any" processContents="lax" minOccurs="0" maxOccurs="unbounded"/></xs:sequence>' \
           '<xs:anyAttribute namespace="##any" processContents="lax"/></xs:complexType></xs:element></xs:schema>'
    # a declared simple-content element, in a namespace of its own so that the main schema keeps a single global element (the one an encode call selects by default)
    other = f'<xs:schema {XS} targetNamespace="urn:s" elementFormDefault="qualified"><xs:element name="s"><xs:complexType><xs:simpleContent><xs:extension base="xs:string">' \
            '<xs:anyAttribute namespace="##any" processContents="lax"/></xs:extension></xs:simpleContent></xs:complexType></xs:element></xs:schema>'
    return _cls(ver)([main, other])


def gen(rng, depth, scope):
    decl = {}
    for p in PFX:
        if rng.random() < 0.4: decl[p] = rng.choice(URIS)
    sc = dict(scope); sc.update(decl)
    usable = list(sc.items())
    if not usable: decl['p'] = 'urn:u'; sc['p'] = 'urn:u'; usable = [('p', 'urn:u')]
    p, u = rng.choice(usable)
    tag = f'{p}:n' if p else 'n'
    xmlns = ''.join(f' xmlns{":" + k if k else ""}="{v}"' for k, v in decl.items())
    kids = ''.join(gen(rng, depth - 1, sc) for _ in range(rng.randrange(0, 3))) if depth > 0 else ''
    # simple-content leaves in no namespace: when a default namespace is in scope it has to be undeclared on the leaf itself (xmlns="")
    if rng.random() < 0.35:
        kids += ('<c xmlns="">t</c>' if sc.get('') else '<c>t</c>')
    # a declared simple-content leaf with a qualified attribute whose prefix is inherited, or declared / redeclared on the leaf itself
    if rng.random() < 0.4:
        ap = rng.choice(['p', 'q', 'r']); redecl = rng.random() < 0.5 or ap not in sc
        kids += f'<e:s xmlns:e="urn:s"' + (f' xmlns:{ap}="{rng.choice(URIS)}"' if redecl else '') + f' {ap}:ga="1" plain="2">t</e:s>'
    # a qualified attribute on the element itself, its prefix from the declarations in scope here
    named = [k for k in sc if k]
    at = f' {rng.choice(named)}:a="1"' if named and rng.random() < 0.4 else ''
    if rng.random() < 0.15: at += rng.choice([' xml:lang="en"', ' xml:space="preserve"'])      # the XML namespace: bound by definition, declared by nobody
    return f'<{tag}{xmlns}{at}>{kids}</{tag}>'


KNOWN_A = 'C17-unprefixed-attribute-key-encoded-into-the-default-namespace'
KNOWN_B = 'C17-default-namespace-attribute-decoded-to-an-unprefixed-key'


def own(v):
    d = {}
    if isinstance(v, dict):
        for k2, v2 in v.items():
            if k2 == '@xmlns': d[''] = v2
            elif k2.startswith('@xmlns:'): d[k2[7:]] = v2
    return d


def check(data, elem, scope, bad, path='/', attrs=False):
    sc = dict(scope); sc.update(own(data))
    if not isinstance(data, dict): return
    children = list(elem)
    keys = [k for k in data if not k.startswith('@') and k != '$']

    def resolve(k, v):
        sc2 = dict(sc); sc2.update(own(v))
        p, _, local = k.rpartition(':')
        uri = sc2.get(p) if ':' in k else sc2.get('', '')
        return f'{{{uri}}}{local}' if uri else local
    # attribute keys: a prefixed key resolves with the declarations in scope at the element (its own included), an unprefixed one is in no namespace
    def akey(k):
        if k[1:2] == '{': return k[1:]          # a name left in expanded form (no prefix for its namespace is in scope: the XML namespace, unless the document declares xmlns:xml)
        return (f'{{{sc.get(k[1:].partition(":")[0])}}}' + k.partition(':')[2]) if ':' in k else k[1:]
    akeys = sorted(akey(k) for k in data if k.startswith('@') and not k.startswith('@xmlns'))
    if attrs and akeys != sorted(elem.attrib):
        # listed finding: an attribute in the namespace that is also the default one is reported under an unprefixed key (which, read by the rules of XML, is in no namespace)
        dflt = sc.get('')
        as_lib = sorted(f'{{{dflt}}}{k[1:]}' if dflt and ':' not in k and ('{' + dflt + '}' + k[1:]) in elem.attrib else akey(k) for k in data if k.startswith('@') and not k.startswith('@xmlns'))
        bad.append((KNOWN_B if as_lib == sorted(elem.attrib) else path + '@', akeys, sorted(elem.attrib))); return
    want = [c.tag for c in children]
    items = []
    for k in keys:
        for v in (data[k] if isinstance(data[k], list) else [data[k]]): items.append((k, v, resolve(k, v)))
    if sorted(n for _, _, n in items) != sorted(want):
        bad.append((path, sorted((k, n) for k, _, n in items), sorted(want))); return
    pools = {}
    for k, v, n in items: pools.setdefault(n, []).append(v)
    for c in children:
        v = pools[c.tag].pop(0); check(v, c, sc, bad, path + c.tag.split('}')[-1] + '/', attrs)


def tree_sig(e):
    return (e.tag, tuple(sorted(e.attrib.items())), tuple(tree_sig(c) for c in e))


_S = {}


def eval_doc(args):
    ver, doc = args
    from xml.etree import ElementTree as ET
    s = _S.get(ver) or _S.setdefault(ver, schema(ver))
    root = ET.fromstring(doc)
    if root.tag != '{urn:u}n': return None
    try:
        data, errors = s.decode(doc, validation='lax')
    except Exception as e:
        return dict(doc=doc, ver=ver, problem=f'decode raised {type(e).__name__}: {e}')
    bad = []; check(data, root, {}, bad, attrs=True)
    if bad and bad[0][0] == KNOWN_B: return dict(doc=doc, ver=ver, known=KNOWN_B)
    if bad: return dict(doc=doc, ver=ver, problem=dict(path=bad[0][0], keys=bad[0][1], expected=bad[0][2]))
    # the same document given as an lxml tree (its declarations are read off the nsmap of each node, not off parser events): the same data
    try:
        import lxml.etree as LET
        # (an lxml tree does not keep a redundant redeclaration, so the data may spell the same names with other prefixes: the contract is the same one - every key resolves)
        dl = s.decode(LET.fromstring(doc.encode()), validation='lax')[0]
        bl = []; check(dl, root, {}, bl, attrs=True)
        if bl and bl[0][0] == KNOWN_B: return dict(doc=doc, ver=ver, known=KNOWN_B)
        if bl: return dict(doc=doc, ver=ver, problem=dict(source='lxml tree', path=bl[0][0], keys=bl[0][1], expected=bl[0][2]))
    except ImportError: pass
    except Exception as e: return dict(doc=doc, ver=ver, problem=f'decode of the lxml tree raised {type(e).__name__}: {e}')
    # user-supplied namespace maps that collide with the document's own declarations, alias them or cover them partly: the keys resolve with the user's map
    # overlaid by the declarations the data reports
    for um in ({'p': 'urn:v'}, {'p': 'urn:w', 'q': 'urn:u'}, {'z': 'urn:u'}, {'q': 'urn:w'}):       # (a user-supplied DEFAULT namespace cannot coexist with the no-namespace leaves of these documents: not judged)
        try: d3 = s.decode(doc, validation='lax', namespaces=um)[0]
        except Exception as e: return dict(doc=doc, ver=ver, problem=f'decode with namespaces={um} raised {type(e).__name__}: {e}')
        b3 = []; check(d3, root, dict(um), b3, attrs=True)
        if b3 and b3[0][0] == KNOWN_B: return dict(doc=doc, ver=ver, known=KNOWN_B)
        if b3: return dict(doc=doc, ver=ver, problem=dict(user_map=um, path=b3[0][0], keys=b3[0][1], expected=b3[0][2]))
    # the other processing modes that keep namespace information: every declaration collapsed on the root (colliding prefixes renamed), with and without a user map
    # (only documents that declare no default namespace: one map for the whole document cannot say that the default namespace is unset or changes below the root)
    for mode in (('collapsed',) if ' xmlns="' not in doc else ()):
        for um in (None, {'p': 'urn:zzz'}, {'p': 'urn:w', 'q': 'urn:u'}, {'q': 'urn:zzz', 'z': 'urn:v'}):
            try: d4 = s.decode(doc, validation='lax', xmlns_processing=mode, **({'namespaces': um} if um else {}))[0]
            except Exception as e: return dict(doc=doc, ver=ver, problem=f'decode with xmlns_processing={mode!r} namespaces={um} raised {type(e).__name__}: {e}')
            b4 = []; check(d4, root, dict(um or {}), b4, attrs=True)
            if b4 and b4[0][0] == KNOWN_B: continue
            if b4: return dict(doc=doc, ver=ver, problem=dict(xmlns_processing=mode, user_map=um, path=b4[0][0], keys=b4[0][1], expected=b4[0][2]))
    # encode restores the expanded names.  Decided for documents of at most three element levels; deeper documents are reported only:
    # below a wildcard-matched grandchild the encoder loses track of the nesting level and pops xmlns contexts too early (an open
    # defect outside the three-level scope, see DESIGN.md)
    def depth(e): return 1 + max([depth(c) for c in e], default=0)
    try:
        enc = s.encode(data, validation='lax')
        enc = enc[0] if isinstance(enc, tuple) else enc
        def names(e): return [e.tag] + ['@' + a for a in e.attrib] + [n for c in e for n in names(c)]
        if enc is not None and sorted(names(enc)) != sorted(names(root)):
            en, rn = sorted(names(enc)), sorted(names(root))
            import collections
            ea, ra = [x for x in en if x[0] == '@'], [x for x in rn if x[0] == '@']; ee, re_ = [x for x in en if x[0] != '@'], [x for x in rn if x[0] != '@']
            kn = []
            if ea != ra:
                extra = collections.Counter(ea) - collections.Counter(ra); missing = collections.Counter(ra) - collections.Counter(ea)
                # listed finding: an unprefixed attribute key is completed with the default namespace in scope when the attribute is not declared (admitted by a wildcard)
                if ' xmlns="urn' in doc and all(x.startswith('@{') for x in extra) and all('{' not in x for x in missing) and sorted('@' + x.split('}')[1] for x in extra.elements()) == sorted(missing.elements()):
                    kn.append(KNOWN_A)
                else: kn.append(None)
            if ee != re_:
                if 'xmlns=""' in doc and len(ee) == len(re_) and sorted(x.split('}')[-1] for x in ee) == sorted(x.split('}')[-1] for x in re_) \
                        and all(a == b or (not b.startswith('{') and a.endswith('}' + b)) for a, b in zip(sorted(ee, key=lambda x: x.split('}')[-1] + x), sorted(re_, key=lambda x: x.split('}')[-1] + x))):
                    kn.append('C17-encode-ignores-default-namespace-undeclaration')
                else: kn.append(None)
            if None not in kn: return dict(doc=doc, ver=ver, known='+'.join(kn))
            return dict(doc=doc, ver=ver, problem=dict(encode_names=sorted(names(enc))[:8], expected=sorted(names(root))[:8]))
    except Exception as e:
        return dict(doc=doc, ver=ver, problem=f'encode raised {type(e).__name__}: {str(e)[:120]}')
    # the other conventions that keep namespace information: encoding their own data restores the expanded names as well
    import xmlschema
    # (documents that declare a default namespace below the root are the subject of the listed C05 / C17 findings: not judged here)
    if ' xmlns="' not in doc.split('>', 1)[1]:
        # BadgerFish / GData take a dictionary with one key equal to the element's own name as the element's wrapper: with this generator (every element is called n) an
        # element whose only child is another n is ambiguous by construction, so the dictionary conventions are exercised by bounded/C05.py on other names instead
        for cname, conv in (('JsonML', xmlschema.JsonMLConverter),):
            try:
                d2 = s.decode(doc, converter=conv, validation='lax')[0]
                e2 = s.encode(d2, converter=conv, validation='lax'); e2 = e2[0] if isinstance(e2, tuple) else e2
            except Exception as e:
                return dict(doc=doc, ver=ver, problem=f'{cname}: decode / encode raised {type(e).__name__}: {str(e)[:120]}')
            if e2 is None or sorted(names(e2)) != sorted(names(root)):
                return dict(doc=doc, ver=ver, problem=dict(converter=cname, encode_names=sorted(names(e2))[:8] if e2 is not None else None, expected=sorted(names(root))[:8]))
    return False


SAME_KEY_DOCS = ['<p:n xmlns:p="urn:u"><p:n/><p:n xmlns:p="urn:w"/></p:n>', '<p:n xmlns:p="urn:u"><p:n xmlns:p="urn:v"/><p:n xmlns:p="urn:w"/><p:n/></p:n>',
                 '<p:n xmlns:p="urn:u"><p:n xmlns:p="urn:v"><p:n xmlns:p="urn:u"/><p:n/></p:n><p:n/></p:n>']


def eval_same_key(args):
    """children that share one key but bind its prefix differently: every convention that reports declarations restores each child's own expanded name"""
    ver, doc, cname = args
    import xmlschema
    from xml.etree import ElementTree as ET
    conv = {'default': None, 'BadgerFish': xmlschema.BadgerFishConverter, 'GData': xmlschema.GDataConverter, 'JsonML': xmlschema.JsonMLConverter}[cname]
    s = _S.get(ver) or _S.setdefault(ver, schema(ver)); kw = dict(converter=conv) if conv else {}
    def names(e): return [e.tag] + [n for c in e for n in names(c)]
    try:
        d = s.decode(doc, validation='lax', **kw)[0]
        e = s.encode(d, validation='lax', **kw); errs = e[1] if isinstance(e, tuple) else []; e = e[0] if isinstance(e, tuple) else e
    except Exception as x: return dict(ver=ver, doc=doc, converter=cname, problem=f'raised {type(x).__name__}: {str(x)[:100]}')
    want = names(ET.fromstring(doc))
    if e is None or names(e) != want: return dict(ver=ver, doc=doc, converter=cname, problem=dict(encoded=names(e) if e is not None else None, expected=want, errors=[x.reason for x in errs][:2]))
    return None


UNDECL_DOCS = ['<node xmlns="urn:a"><leaf xmlns="">w</leaf><leaf>z</leaf></node>',
               '<p:node xmlns:p="urn:a" xmlns:q="urn:b"><node xmlns="urn:b" id="1"><node xmlns="" id="2" q:attr="k"><leaf>m</leaf><q:leaf>n</q:leaf></node><leaf>o</leaf></node></p:node>',
               '<node xmlns="urn:a" id="1"><node xmlns="" id="2"><leaf>m</leaf></node></node>', '<node xmlns="urn:a"><node xmlns=""><node xmlns="urn:b"><leaf xmlns="">x</leaf><leaf>y</leaf></node></node><leaf>z</leaf></node>',
               '<p:node xmlns:p="urn:a" xmlns:q="urn:b" q:attr="1"><p:node xmlns:p="urn:b" id="x"><q:leaf xmlns:q="urn:a" p:attr="2">t</q:leaf><p:leaf>u</p:leaf></p:node><node xmlns="urn:a" id="y"><leaf>z</leaf></node><q:leaf>v</q:leaf></p:node>']


def eval_undeclared(ver):
    """global elements node / leaf in urn:a, urn:b and in NO namespace (three schema documents importing each other): documents that set a default namespace and unset it again
    (xmlns="") on an inner element decode and encode back to the same expanded element and attribute names - default and unordered conventions"""
    import os, shutil, tempfile, xmlschema
    from xml.etree import ElementTree as ET
    XS_ = 'xmlns:xs="http://www.w3.org/2001/XMLSchema"'
    body = '<xs:element name="node" type="a:NodeType"/><xs:element name="leaf" type="a:LeafType"/>'
    types = ('<xs:complexType name="NodeType"><xs:choice minOccurs="0" maxOccurs="unbounded"><xs:element ref="a:node"/><xs:element ref="b:node"/><xs:element ref="node"/><xs:element ref="a:leaf"/><xs:element ref="b:leaf"/><xs:element ref="leaf"/></xs:choice>'
             '<xs:attribute ref="a:attr"/><xs:attribute ref="b:attr"/><xs:attribute name="id" type="xs:string"/></xs:complexType>'
             '<xs:complexType name="LeafType"><xs:simpleContent><xs:extension base="xs:string"><xs:attribute ref="a:attr"/><xs:attribute ref="b:attr"/><xs:attribute name="id" type="xs:string"/></xs:extension></xs:simpleContent></xs:complexType>')
    d = tempfile.mkdtemp(prefix='verif_c17_'); bad = []; n = 0
    try:
        open(os.path.join(d, 'a.xsd'), 'w').write(f'<xs:schema {XS_} xmlns:a="urn:a" xmlns:b="urn:b" targetNamespace="urn:a" elementFormDefault="qualified"><xs:import namespace="urn:b" schemaLocation="b.xsd"/><xs:import schemaLocation="n.xsd"/>{types}{body}<xs:attribute name="attr" type="xs:string"/></xs:schema>')
        open(os.path.join(d, 'b.xsd'), 'w').write(f'<xs:schema {XS_} xmlns:a="urn:a" targetNamespace="urn:b" elementFormDefault="qualified"><xs:import namespace="urn:a" schemaLocation="a.xsd"/>{body}<xs:attribute name="attr" type="xs:string"/></xs:schema>')
        open(os.path.join(d, 'n.xsd'), 'w').write(f'<xs:schema {XS_} xmlns:a="urn:a"><xs:import namespace="urn:a" schemaLocation="a.xsd"/>{body}</xs:schema>')
        s = _cls(ver)(os.path.join(d, 'a.xsd'))
        sig = lambda r: [(e.tag, sorted(e.attrib), (e.text or '').strip()) for e in r.iter()]
        for doc in UNDECL_DOCS:
            for cname in ('default', 'unordered'):
                n += 1; kw = dict(converter=xmlschema.UnorderedConverter) if cname == 'unordered' else {}
                if not s.is_valid(doc): bad.append(dict(ver=ver, doc=doc, converter=cname, problem='the document is invalid: ' + str([e.reason[:60] for e in s.iter_errors(doc)][:1]))); continue
                try:
                    data = s.decode(doc, **kw); e = s.encode(data, path=ET.fromstring(doc).tag, **kw)
                except xmlschema.XMLSchemaException as x: bad.append(dict(ver=ver, doc=doc, converter=cname, problem=f'decode / encode raised {type(x).__name__}: {str(x).strip().splitlines()[0][:100] if str(x).strip() else ""}')); continue
                a, b = sig(ET.fromstring(doc)), sig(e)
                if (sorted(a) if cname == 'unordered' else a) != (sorted(b) if cname == 'unordered' else b): bad.append(dict(ver=ver, doc=doc, converter=cname, problem=f'encoding the decoded data does not restore the expanded names: {[t for t, _, _ in a]} became {[t for t, _, _ in b]}'))
    finally: shutil.rmtree(d, ignore_errors=True)
    return n, bad


def run(tier, seed, open_findings):
    rng = random.Random(seed); n = 15000 if tier == 'thorough' else 400
    docs = []
    while len(docs) < n:
        d = gen(rng, 3, {})
        if d.startswith('<p:n') or ' xmlns' in d.split('>')[0]: docs.append(d)
    docs += ['<n xmlns="urn:u"><c xmlns="">t</c><c xmlns="">u</c></n>', '<p:n xmlns:p="urn:u"><p:n xmlns:q="urn:v"><q:n/></p:n><p:n xmlns:q="urn:v"><q:n/></p:n></p:n>',
             '<n xmlns="urn:u"><e:s xmlns:e="urn:s" plain="2">t</e:s></n>', '<n xmlns="urn:u" xmlns:p="urn:u" p:a="1"/>', '<n xmlns="urn:u"><c xmlns="">t</c></n>', '<n xmlns="urn:u"><n><c xmlns="">t</c></n><c xmlns="">u</c></n>', '<p:n xmlns:p="urn:u"><c>t</c></p:n>']
    jobs = [(ver, d) for d in docs for ver in ('1.0', '1.1')]
    res = pmap(eval_doc, jobs)
    used = [r for r in res if r is not None]
    fails = [dict(case=dict(doc=r['doc'], ver=r['ver']), observed=r['problem'], required='every key resolves to the expanded name of its node; encode restores the names') for r in used if r and 'problem' in r]
    rep = sum(1 for r in used if r and 'reported' in r)
    known = {}
    for r in used:
        if r and 'known' in r:
            if all(k in open_findings for k in r['known'].split('+')):
                for k in r['known'].split('+'): known[k] = known.get(k, 0) + 1
            else: fails.append(dict(case=dict(doc=r['doc'], ver=r['ver']), observed=r['known'], required='encode restores the names'))
    sk = [eval_same_key((ver, d, c)) for ver in ('1.0', '1.1') for d in SAME_KEY_DOCS for c in ('default', 'BadgerFish', 'GData', 'JsonML')]
    skf = [dict(case=dict(same_key=True, ver=r['ver'], doc=r['doc'], converter=r['converter']), observed=r['problem'], required='encode restores the expanded name of every child') for r in sk if r]
    ud = [eval_undeclared(ver) for ver in ('1.0', '1.1')]
    return [result('C17.default_namespace_undeclared_for_no_namespace_globals', f'{len(UNDECL_DOCS)} documents that unset the default namespace (xmlns="") on inner elements declared globally in no namespace x 2 conventions x 2 classes', sum(n_ for n_, _ in ud),
                   [dict(case=dict(undeclared=True, ver=b['ver'], doc=b['doc'], converter=b['converter']), observed=b['problem'], required='encode restores the expanded names') for _, bs in ud for b in bs], exhaustive=True),
            result('C17.same_key_children_own_declarations', f'{len(SAME_KEY_DOCS)} documents whose same-key children bind the prefix differently x 4 conventions x 2 classes', len(sk), skf, exhaustive=True, samples=[dict(doc=SAME_KEY_DOCS[0])]),
            result('C17.decoded_keys_resolve', f'{len(used)} generated documents (root in urn:u) with prefixes p/q/default redeclared over 3 URIs, depth <= 4, default converter, both classes',
                   len(used), fails, known=known, samples=[dict(doc=docs[0][:200])], reported={'encode names differ below the third level (reported only)': rep}, distinct=len({d for _, d in jobs}))]


def replay(check_name, case):
    if case.get('undeclared'):
        mine = [b for b in eval_undeclared(case['ver'])[1] if b['doc'] == case['doc'] and b['converter'] == case['converter']]; return dict(ok=not mine, observed=mine[:1], required='encode restores the expanded names')
    if case.get('same_key'):
        r = eval_same_key((case['ver'], case['doc'], case['converter'])); return dict(ok=r is None, observed=r, required='encode restores the expanded names')
    r = eval_doc((case['ver'], case['doc']))
    return dict(ok=not (r and ('problem' in r or 'known' in r)), observed=r, required='keys resolve to the expanded names')
