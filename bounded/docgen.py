"""Shared document generator for the bounded checks of C04, C06, C10, C19, C20: one schema with nested complex types,
simple content, key/keyref and ID/IDREF spanning the children of the root, plus a fault catalogue."""
import types
XS = 'xmlns:xs="http://www.w3.org/2001/XMLSchema"'
SCHEMA = f'''<xs:schema {XS} targetNamespace="urn:t" xmlns:t="urn:t" elementFormDefault="qualified">
 <xs:element name="r"><xs:complexType><xs:sequence>
   <xs:element name="item" maxOccurs="unbounded"><xs:complexType><xs:sequence>
      <xs:element name="name" type="xs:token"/><xs:element name="qty" type="xs:positiveInteger"/>
      <xs:element name="kind" type="xs:token" fixed="article" minOccurs="0"/>
      <xs:element name="val" minOccurs="0" nillable="true"/>
      <xs:element name="mark" minOccurs="0"><xs:complexType><xs:attribute name="m" type="xs:int"/><xs:anyAttribute namespace="##other" processContents="skip"/></xs:complexType></xs:element>
      <xs:element ref="t:opt" minOccurs="0" maxOccurs="2"/>
      <xs:element name="sub" minOccurs="0" maxOccurs="unbounded"><xs:complexType><xs:sequence>
          <xs:element name="leaf" type="xs:int" minOccurs="0" maxOccurs="3"/></xs:sequence>
          <xs:attribute name="ref" type="xs:IDREF"/><xs:attribute name="codeRef" type="xs:int"/><xs:attribute name="uid" type="xs:int"/></xs:complexType></xs:element>
      <xs:any namespace="##other" processContents="strict" minOccurs="0" maxOccurs="unbounded"/>
     </xs:sequence><xs:attribute name="id" type="xs:ID" use="required"/><xs:attribute name="code" type="xs:int" use="required"/><xs:attribute name="lang" type="xs:language"/></xs:complexType></xs:element>
  </xs:sequence><xs:attribute name="first" type="xs:int"/></xs:complexType>
  <xs:keyref name="R0" refer="t:K"><xs:selector xpath="."/><xs:field xpath="@first"/></xs:keyref>
  <xs:key name="K"><xs:selector xpath="t:item"/><xs:field xpath="@code"/></xs:key>
  <xs:keyref name="R" refer="t:K"><xs:selector xpath="t:item/t:sub"/><xs:field xpath="@codeRef"/></xs:keyref>
  <xs:unique name="U"><xs:selector xpath="t:item/t:sub"/><xs:field xpath="@uid"/></xs:unique>
 </xs:element>
 <xs:complexType name="OptT"><xs:sequence><xs:element name="n" type="xs:int" minOccurs="0"/></xs:sequence></xs:complexType>
 <xs:complexType name="OptX"><xs:complexContent><xs:extension base="t:OptT"><xs:sequence><xs:element name="m" type="xs:int"/></xs:sequence></xs:extension></xs:complexContent></xs:complexType>
 <xs:element name="opt" type="t:OptT"/><xs:element name="optx" type="t:OptX" substitutionGroup="t:opt"/>
</xs:schema>'''


def schema_for(ver):
    """XSD 1.1: the lang attribute of item is inheritable (the validator then works on a copy of its context inside such an item)"""
    return SCHEMA.replace('name="lang" type="xs:language"', 'name="lang" type="xs:language" inheritable="true"') if ver == '1.1' else SCHEMA


def gen(rng, nitems):
    items = []
    for i in range(nitems):
        subs = ''.join(f'<t:sub ref="i{rng.randrange(nitems)}" codeRef="{rng.randrange(nitems)}">' + ''.join(f'<t:leaf>{rng.randrange(9)}</t:leaf>' for _ in range(rng.randrange(3))) + '</t:sub>'
                       for _ in range(rng.randrange(3)))
        items.append(f'<t:item id="i{i}" code="{i}"' + (' lang="en"' if rng.random() < .3 else '') + f'><t:name>n{i}</t:name><t:qty>{i + 1}</t:qty>' + (rng.choice(['<t:kind>article</t:kind>', '<t:kind> article </t:kind>', '<t:kind/>']) if rng.random() < .4 else '') + (rng.choice(['<t:mark m="1"/>', '<t:mark/>']) if rng.random() < .3 else '') + f'{subs}</t:item>')
    # a key reference held by the root element itself (collected when the root is processed: last, in a lazy run)
    first = f' first="{rng.randrange(nitems)}"' if rng.random() < .5 else ''
    return f'<t:r xmlns:t="urn:t"{first}>' + ''.join(items) + '</t:r>'


FAULTS = [(' first="', ' first="98'), ('>article<', '>service<'), ('qty>', 'qty>x'), ('code="0"', 'code="1"'), ('ref="i0"', 'ref="zz"'), ('codeRef="1"', 'codeRef="77"'), ('<t:name>', '<t:bogus/><t:name>'), (' id="i1"', ''), ('</t:item>', '<o:extra xmlns:o="urn:o"/></t:item>'),
          ('<t:leaf>1', '<t:leaf>q'), ('code="1"', 'code="0"'), ('<t:qty>', '<t:qty extra="1">'), ('</t:item>', '<t:name>dup</t:name></t:item>'),
          ('<t:mark m="1"/>', '<t:mark m="1"><t:bogus/></t:mark>'), ('<t:mark/>', '<t:mark>text</t:mark>')]


def faulty(rng, doc, k):
    for _ in range(k):
        a, b = rng.choice(FAULTS)
        if a in doc: doc = doc.replace(a, b, 1)
    return doc


def materialise(d):
    """data decoded through a lazy resource carries the same generator object in place of every pruned subtree"""
    import xmlschema
    if isinstance(d, types.GeneratorType):
        for item in d:
            if not isinstance(item, xmlschema.XMLSchemaValidationError): return materialise(item)
        return None
    if isinstance(d, dict): return {k: materialise(v) for k, v in d.items()}
    if isinstance(d, list): return [materialise(v) for v in d]
    return d
