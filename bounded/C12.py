"""C12 bounded run-time contract (labelled bounded): every fetch is confined to the allowed class of locations.

allow mode x reference mechanism (include / import / redefine, instance schemaLocation hint, main source) x location spelling catalogue,
built in a symlink-free temporary tree; fetches are observed with sys.addaudithook (event `open`) and a stub opener for http(s).
Exhaustive over the catalogue.
"""
import io, itertools, os, shutil, sys, tempfile, urllib.request
from .common import pmap, result
XS = 'xmlns:xs="http://www.w3.org/2001/XMLSchema"'
INC = f'<xs:schema {XS}><xs:element name="x"/></xs:schema>'
IMP = f'<xs:schema {XS} targetNamespace="urn:i"><xs:element name="y"/></xs:schema>'
_events = []; _root = [None]; _hooked = [False]


def _hook(ev, args):
    r = _root[0]
    if r is None: return
    if ev == 'open' and isinstance(args[0], str) and args[0].startswith(r): _events.append(('open', os.path.realpath(args[0])))


class Stub(urllib.request.BaseHandler):
    def http_open(self, req): _events.append(('remote-fetch', req.full_url)); return io.BytesIO(INC.encode())
    https_open = http_open


def allowed(mode, kind, path, base):
    p = os.path.realpath(path) if kind == 'open' else path
    inside = kind == 'open' and (p == base or p.startswith(base + os.sep))
    return {'all': True, 'none': False, 'remote': kind != 'open', 'local': kind == 'open', 'sandbox': inside}[mode]


def eval_xmlns_hint(_):
    """the hint of an inner element names a namespace that the META-SCHEMA owns (the XML namespace): nothing outside the allowed class is fetched, and the class-level
    meta-schema is not extended by an instance"""
    import xmlschema
    from xmlschema.exceptions import XMLSchemaException
    if not _hooked[0]: sys.addaudithook(_hook); _hooked[0] = True
    root = os.path.realpath(tempfile.mkdtemp(prefix='verif_c12x_')); _root[0] = root
    base = os.path.join(root, 'sand'); evil = os.path.join(root, 'sand_evil'); fails = []; n = 0
    try:
        xns = 'http://www.w3.org/XML/1998/namespace'
        for d_ in (base, evil): os.makedirs(d_); open(os.path.join(d_, 'xmlns.xsd'), 'w').write(f'<xs:schema {XS} targetNamespace="{xns}"><xs:attribute name="evil" type="xs:int"/></xs:schema>')
        main = (f'<xs:schema {XS}><xs:element name="r"><xs:complexType><xs:sequence><xs:element name="c"><xs:complexType><xs:sequence><xs:any minOccurs="0" processContents="lax"/></xs:sequence>'
                f'<xs:anyAttribute processContents="skip"/></xs:complexType></xs:element></xs:sequence></xs:complexType></xs:element></xs:schema>')
        SP = {'inside': 'xmlns.xsd', 'evil-rel': '../sand_evil/xmlns.xsd', 'evil-abs': os.path.join(evil, 'xmlns.xsd'), 'evil-url': 'file://' + os.path.join(evil, 'xmlns.xsd'), 'remote': 'http://example.invalid/xmlns.xsd'}
        for mode, (sp, loc) in itertools.product(['sandbox', 'none', 'remote', 'local', 'all'], SP.items()):
            n += 1; _events.clear(); outcome = 'ok'
            docp = os.path.join(base, 'doc.xml')
            open(docp, 'w').write(f'<r xmlns:xsi="http://www.w3.org/2001/XMLSchema-instance"><c xsi:schemaLocation="{xns} {loc}" xml:evil="x"/></r>')
            try:
                opener = urllib.request.build_opener(Stub)
                sch = xmlschema.XMLSchema10(main, allow=mode, opener=opener, base_url=base)
                list(sch.iter_errors(xmlschema.XMLResource(docp, allow='all'), use_location_hints=True))
            except XMLSchemaException as e: outcome = type(e).__name__
            except Exception as e: outcome = 'OTHER:' + type(e).__name__ + ': ' + str(e)[:80]
            own = {os.path.realpath(docp)}
            viol = [(k, p_) for k, p_ in _events if not (k == 'open' and p_ in own) and not allowed(mode, 'open' if k == 'open' else 'remote', p_, base)]
            polluted = '{%s}evil' % xns in xmlschema.XMLSchema10.meta_schema.maps.attributes
            if polluted: viol.append(('meta-schema', 'the class-level meta-schema now declares xml:evil'))
            if viol or outcome.startswith('OTHER'):
                fails.append(dict(case=dict(mode=mode, mechanism='nested-hint-xml-namespace', spelling=sp, location=loc.replace(root, '<root>')),
                                  observed=dict(outcome=outcome, fetched=[(k, p_.replace(root, '<root>')) for k, p_ in viol]), required='no fetch outside the allowed class; the meta-schema is not extended'))
            if polluted: break          # the process is damaged from here on
        return n, fails
    finally:
        _root[0] = None; shutil.rmtree(root, ignore_errors=True)


def run(tier, seed, open_findings):
    import xmlschema
    from xmlschema.exceptions import XMLSchemaException
    if not _hooked[0]: sys.addaudithook(_hook); _hooked[0] = True
    root = os.path.realpath(tempfile.mkdtemp(prefix='verif_c12_')); _root[0] = root
    base = os.path.join(root, 'sand'); evil = os.path.join(root, 'sand_evil'); sib = os.path.join(root, 'other')
    try:
        for d in (base, evil, sib, os.path.join(base, 'sub')):
            os.makedirs(d)
            open(os.path.join(d, 'inc.xsd'), 'w').write(INC); open(os.path.join(d, 'imp.xsd'), 'w').write(IMP)
        SPELL = {
            'inside': 'inc.xsd', 'inside-sub': 'sub/inc.xsd', 'inside-dotted': './sub/../inc.xsd', 'inside-abs': os.path.join(base, 'inc.xsd'), 'inside-url': 'file://' + os.path.join(base, 'inc.xsd'),
            'evil-rel': '../sand_evil/inc.xsd', 'evil-abs': os.path.join(evil, 'inc.xsd'), 'evil-url': 'file://' + os.path.join(evil, 'inc.xsd'), 'evil-pct': '../sand%5Fevil/inc.xsd',
            'sibling-rel': '../other/inc.xsd', 'sibling-dots': 'sub/../../other/inc.xsd', 'sibling-pct-dots': 'sub/%2E%2E/%2E%2E/other/inc.xsd', 'remote': 'http://example.invalid/inc.xsd',
            'remote-https': 'https://example.invalid/inc.xsd',
            # dot segments percent-encoded twice / three times: a literal '%2E%2E' directory name after one decoding, never a parent reference (some mechanisms normalise twice)
            'sibling-pct2-dots': '%252E%252E/other/inc.xsd', 'sibling-pct3-dots': '%25252E%25252E/other/inc.xsd', 'evil-pct2-sub': 'sub/%252E%252E/%252E%252E/sand_evil/inc.xsd',
            # absolute file URLs with literal dot segments: inside by prefix, outside once resolved (and the converse)
            'url-dots-out': 'file://' + base + '/../other/inc.xsd', 'url-dots-out2': 'file://' + base + '/sub/../../sand_evil/inc.xsd', 'url-dots-in': 'file://' + evil + '/../sand/sub/inc.xsd',
        }
        fails = []; n = 0
        main = os.path.join(base, 'main.xsd')
        combos = [(m_, me, sl, True) for m_, me, sl in itertools.product(['all', 'none', 'local', 'remote', 'sandbox'], ['include', 'import', 'redefine', 'hint', 'locations'], SPELL.items())]
        # the sandbox root taken from the location of the main schema (no explicit base_url): every reference mechanism must inherit it
        combos += [('sandbox', me, sl, False) for me, sl in itertools.product(['include', 'import', 'redefine', 'hint', 'locations'], SPELL.items())]
        # the same references with the schema built through the settings route: XMLSchema.from_settings(settings, source, allow=...) - a per-call argument overrides the settings object
        combos += [(m_, me + '@from_settings', sl, wb) for m_, me, sl, wb in combos if me in ('include', 'import') and sl[0] in ('inside', 'evil-rel', 'evil-abs', 'evil-url', 'sibling-rel', 'url-dots-out', 'remote')]
        from xmlschema.settings import SchemaSettings
        for mode, mech, (sp, loc), with_base in combos:
            n += 1; bkw = dict(base_url=base) if with_base else {}
            mech_full, mech = mech, mech.split('@')[0]
            tag = {'include': f'<xs:include schemaLocation="{loc}"/>', 'redefine': f'<xs:redefine schemaLocation="{loc}"/>', 'hint': '', 'locations': '',
                   'import': f'<xs:import namespace="urn:i" schemaLocation="{loc.replace("inc.xsd", "imp.xsd")}"/>'}[mech]
            open(main, 'w').write(f'<xs:schema {XS}>{tag}<xs:element name="r"><xs:complexType><xs:sequence><xs:any minOccurs="0" processContents="lax"/></xs:sequence>'
                                  f'<xs:anyAttribute processContents="skip"/></xs:complexType></xs:element></xs:schema>')
            _events.clear(); outcome = 'ok'
            try:
                opener = urllib.request.build_opener(Stub)
                # 'locations': the location comes in through the locations argument; a location refused when the schema is built is asked for again when a wildcard meets the namespace
                lkw = dict(locations={'urn:i': loc.replace('inc.xsd', 'imp.xsd')}) if mech == 'locations' else {}
                if mech_full.endswith('@from_settings'): s = xmlschema.XMLSchema10.from_settings(SchemaSettings(), main, allow=mode, opener=opener, **bkw, **lkw)
                else: s = xmlschema.XMLSchema10(main, allow=mode, opener=opener, **bkw, **lkw)
                if mech in ('hint', 'locations'):
                    hint = f' xsi:schemaLocation="urn:i {loc.replace("inc.xsd", "imp.xsd")}"' if mech == 'hint' else ''
                    doc = (f'<r xmlns:xsi="http://www.w3.org/2001/XMLSchema-instance" xmlns:i="urn:i"{hint}><i:y/></r>')
                    docp = os.path.join(base, 'doc.xml'); open(docp, 'w').write(doc)
                    list(s.iter_errors(xmlschema.XMLResource(docp, allow=mode, opener=opener, **bkw), use_location_hints=True))
            except XMLSchemaException as e: outcome = type(e).__name__
            except Exception as e: outcome = 'OTHER:' + type(e).__name__ + ': ' + str(e)[:80]
            own = {os.path.realpath(main), os.path.realpath(os.path.join(base, 'doc.xml'))}
            fetched = [(k, p) for k, p in _events if not (k == 'open' and p in own)]
            viol = [(k, p) for k, p in fetched if not allowed(mode, 'open' if k == 'open' else 'remote', p, base)]
            if any(k == 'open' and p in own for k, p in _events) and not allowed(mode, 'open', main, base): viol.append(('open', 'MAIN'))
            if viol or outcome.startswith('OTHER'):
                fails.append(dict(case=dict(mode=mode, mechanism=mech_full, spelling=sp, location=loc.replace(root, '<root>'), explicit_base_url=with_base), observed=dict(outcome=outcome, fetched=[(k, p.replace(root, '<root>')) for k, p in viol]),
                                  required='no fetch outside the allowed class; only library exceptions'))
        # the main schema given as something that has no location of its own (a parsed tree, an open file, a text stream) under allow='sandbox' without a base_url: there is
        # no sandbox root to derive, so nothing outside the data's directory may be fetched through it (the library refuses such a resource)
        from xml.etree import ElementTree as PET
        def src_kinds(path):
            return {'etree': lambda: PET.parse(path), 'element': lambda: PET.parse(path).getroot(), 'open-bin': lambda: open(path, 'rb'), 'open-text': lambda: open(path),
                    'stringio': lambda: io.StringIO(open(path).read()), 'bytesio': lambda: io.BytesIO(open(path, 'rb').read())}
        for mech, (sp, loc) in itertools.product(['include', 'redefine', 'import', 'hint'], [(k, v) for k, v in SPELL.items() if k in ('inside-abs', 'evil-abs', 'evil-url', 'sibling-rel', 'url-dots-out', 'remote')]):
            tag = {'include': f'<xs:include schemaLocation="{loc}"/>', 'redefine': f'<xs:redefine schemaLocation="{loc}"/>', 'hint': '',
                   'import': f'<xs:import namespace="urn:i" schemaLocation="{loc.replace("inc.xsd", "imp.xsd")}"/>'}[mech]
            open(main, 'w').write(f'<xs:schema {XS}>{tag}<xs:element name="r"><xs:complexType><xs:sequence><xs:any minOccurs="0" processContents="lax"/></xs:sequence>'
                                  f'<xs:anyAttribute processContents="skip"/></xs:complexType></xs:element></xs:schema>')
            docp = os.path.join(base, 'doc.xml')
            open(docp, 'w').write(f'<r xmlns:xsi="http://www.w3.org/2001/XMLSchema-instance" xmlns:i="urn:i" xsi:schemaLocation="urn:i {loc.replace("inc.xsd", "imp.xsd")}"><i:y/></r>')
            for sk in src_kinds(main):
                n += 1; _events.clear(); outcome = 'ok'; src = None
                try:
                    opener = urllib.request.build_opener(Stub)
                    if mech == 'hint':
                        sch = xmlschema.XMLSchema10(main, allow='sandbox', opener=opener)
                        src = src_kinds(docp)[sk]()
                        list(sch.iter_errors(src, use_location_hints=True))
                    else:
                        src = src_kinds(main)[sk]()
                        xmlschema.XMLSchema10(src, allow='sandbox', opener=opener)
                except XMLSchemaException as e: outcome = type(e).__name__
                except Exception as e: outcome = 'OTHER:' + type(e).__name__ + ': ' + str(e)[:80]
                finally:
                    if hasattr(src, 'close'): src.close()
                own = {os.path.realpath(main), os.path.realpath(docp)}
                viol = [(k, p_) for k, p_ in _events if not (k == 'open' and p_ in own) and not allowed('sandbox', 'open' if k == 'open' else 'remote', p_, base)]
                if viol or outcome.startswith('OTHER'):
                    fails.append(dict(case=dict(mode='sandbox', mechanism=mech, spelling=sp, location=loc.replace(root, '<root>'), source_kind=sk, explicit_base_url=False),
                                      observed=dict(outcome=outcome, fetched=[(k, p_.replace(root, '<root>')) for k, p_ in viol]), required='no fetch outside the allowed class; only library exceptions'))
        # the hint on an element BELOW the root (imported while the element is validated), the document given as something without a location: text, a resource built from text
        # with the permissive default, parsed trees; the schema was created with allow='sandbox' and its own location is the only sandbox root there is
        for mode, (sp, loc) in itertools.product(['sandbox', 'none', 'local', 'remote'], [(k, v) for k, v in SPELL.items() if k in ('inside-abs', 'inside', 'evil-abs', 'evil-url', 'evil-rel', 'sibling-rel', 'url-dots-out', 'remote')]):
            open(main, 'w').write(f'<xs:schema {XS}><xs:element name="r"><xs:complexType><xs:sequence><xs:element name="c"><xs:complexType><xs:sequence><xs:any minOccurs="0" processContents="lax"/></xs:sequence>'
                                  f'<xs:anyAttribute processContents="skip"/></xs:complexType></xs:element></xs:sequence></xs:complexType></xs:element></xs:schema>')
            text = f'<r xmlns:xsi="http://www.w3.org/2001/XMLSchema-instance" xmlns:i="urn:i"><c xsi:schemaLocation="urn:i {loc.replace("inc.xsd", "imp.xsd")}"><i:y/></c></r>'
            kinds = {'resource-from-text': lambda: xmlschema.XMLResource(text), 'element': lambda: PET.fromstring(text), 'etree': lambda: PET.ElementTree(PET.fromstring(text)),
                     'stringio-resource': lambda: xmlschema.XMLResource(io.StringIO(text)), 'lazy-resource-from-text': lambda: xmlschema.XMLResource(text, lazy=True)}
            for sk, mk in kinds.items():
                n += 1; _events.clear(); outcome = 'ok'
                try:
                    opener = urllib.request.build_opener(Stub)
                    sch = xmlschema.XMLSchema10(main, allow=mode, opener=opener) if mode != 'none' and mode != 'remote' else xmlschema.XMLSchema10(open(main).read(), allow=mode, opener=opener, base_url=base)
                    list(sch.iter_errors(mk(), use_location_hints=True))
                except XMLSchemaException as e: outcome = type(e).__name__
                except Exception as e: outcome = 'OTHER:' + type(e).__name__ + ': ' + str(e)[:80]
                own = {os.path.realpath(main)}
                viol = [(k, p_) for k, p_ in _events if not (k == 'open' and p_ in own) and not allowed(mode, 'open' if k == 'open' else 'remote', p_, base)]
                if viol or outcome.startswith('OTHER'):
                    fails.append(dict(case=dict(mode=mode, mechanism='nested-hint', spelling=sp, location=loc.replace(root, '<root>'), source_kind=sk),
                                      observed=dict(outcome=outcome, fetched=[(k, p_.replace(root, '<root>')) for k, p_ in viol]), required='no fetch outside the allowed class; only library exceptions'))
        # the hint of an inner element names a namespace that the META-SCHEMA owns: evaluated in a worker process (a failure extends the class-level meta-schema of the process)
        import multiprocessing as mp
        with mp.get_context('fork').Pool(1) as pool: xn, xf = pool.apply(eval_xmlns_hint, (0,))
        n += xn; fails.extend(xf)
        # document-level API: the schema is built by the API itself from the instance's location hint, with the caller's allow mode
        hint_doc = os.path.join(base, 'hinted.xml')
        APIS = {'is_valid': lambda d, **kw: xmlschema.is_valid(d, **kw), 'iter_errors': lambda d, **kw: list(xmlschema.iter_errors(d, **kw)),
                'to_dict': lambda d, **kw: xmlschema.to_dict(d, validation='lax', **kw), 'XmlDocument': lambda d, **kw: xmlschema.XmlDocument(d, **kw),
                'fetch_schema_locations': lambda d, **kw: xmlschema.fetch_schema_locations(d, **kw)}
        doc_combos = [(m_, 'is_valid', sl, True) for m_, sl in itertools.product(['all', 'none', 'local', 'remote', 'sandbox'], SPELL.items())]
        # the other entry points, and the sandbox root taken from the location of the instance (no explicit base_url)
        doc_combos += [('sandbox', a, sl, wb) for a, sl, wb in itertools.product(APIS, SPELL.items(), [True, False]) if not (a == 'is_valid' and wb)]
        for mode, api, (sp, loc), with_base in doc_combos:
            n += 1; bkw = dict(base_url=base) if with_base else {}
            open(hint_doc, 'w').write(f'<x xmlns:xsi="http://www.w3.org/2001/XMLSchema-instance" xsi:noNamespaceSchemaLocation="{loc}"/>')
            _events.clear(); outcome = 'ok'
            try:
                opener = urllib.request.build_opener(Stub)
                if api == 'fetch_schema_locations': APIS[api](hint_doc, allow=mode, **bkw)
                else: APIS[api](hint_doc, allow=mode, opener=opener, **bkw)
            except XMLSchemaException as e: outcome = type(e).__name__
            except Exception as e: outcome = 'OTHER:' + type(e).__name__ + ': ' + str(e)[:80]
            own = {os.path.realpath(hint_doc)}
            viol = [(k, p) for k, p in _events if not (k == 'open' and p in own) and not allowed(mode, 'open' if k == 'open' else 'remote', p, base)]
            if any(k == 'open' and p in own for k, p in _events) and not allowed(mode, 'open', hint_doc, base): viol.append(('open', 'INSTANCE'))
            if viol or outcome.startswith('OTHER'):
                case = dict(mode=mode, mechanism='document-api-hint', spelling=sp, location=loc.replace(root, '<root>'))
                if api != 'is_valid' or not with_base: case.update(api=api, explicit_base_url=with_base)
                fails.append(dict(case=case,
                                  observed=dict(outcome=outcome, fetched=[(k, p.replace(root, '<root>')) for k, p in viol]), required='no fetch outside the allowed class; only library exceptions'))
        # a resource / document object re-used for another source: parse() rebuilds the object with its own arguments, the allow mode included
        inst = os.path.join(base, 'inst.xml'); open(inst, 'w').write('<r/>')
        plain = xmlschema.XMLSchema10(f'<xs:schema {XS}><xs:element name="r"/></xs:schema>')
        targets = {'inside': inst, 'inside-url': 'file://' + inst, 'evil-abs': os.path.join(evil, 'inst.xml'), 'remote': 'http://example.invalid/inst.xml'}
        open(os.path.join(evil, 'inst.xml'), 'w').write('<r/>')
        for mode, kind, (sp, loc) in itertools.product(['all', 'none', 'local', 'remote', 'sandbox'], ['XMLResource.parse', 'XmlDocument.parse'], targets.items()):
            n += 1; _events.clear(); outcome = 'ok'
            try:
                opener = urllib.request.build_opener(Stub)
                obj = xmlschema.XMLResource('<r/>', allow=mode, base_url=base, opener=opener) if kind == 'XMLResource.parse' else \
                    xmlschema.XmlDocument('<r/>', schema=plain, allow=mode, base_url=base, opener=opener)
                obj.parse(loc)
            except XMLSchemaException as e: outcome = type(e).__name__
            except Exception as e: outcome = 'OTHER:' + type(e).__name__ + ': ' + str(e)[:80]
            viol = [(k, p) for k, p in _events if not allowed(mode, 'open' if k == 'open' else 'remote', p, base)]
            if viol or outcome.startswith('OTHER'):
                fails.append(dict(case=dict(mode=mode, mechanism=kind, spelling=sp, location=loc.replace(root, '<root>')),
                                  observed=dict(outcome=outcome, fetched=[(k, p.replace(root, '<root>')) for k, p in viol]), required='no fetch outside the allowed class; only library exceptions'))
        # a schema built from a LIST of sources: the second and later sources are fetched under the same mode and, in sandbox mode without base_url, inside the directory of the first one
        open(main, 'w').write(f'<xs:schema {XS}><xs:element name="r"/></xs:schema>')
        for mode, with_base, (sp, loc) in [(m_, wb, sl) for m_ in ('all', 'none', 'local', 'remote', 'sandbox') for wb in (True, False) for sl in SPELL.items()
                                           if sl[0] in ('inside-abs', 'inside-url', 'evil-abs', 'evil-url', 'url-dots-out', 'url-dots-out2', 'url-dots-in', 'remote') and (wb or m_ == 'sandbox')]:
            n += 1; _events.clear(); outcome = 'ok'; bkw = dict(base_url=base) if with_base else {}
            try:
                opener = urllib.request.build_opener(Stub)
                xmlschema.XMLSchema10([main, loc], allow=mode, opener=opener, **bkw)
            except XMLSchemaException as e: outcome = type(e).__name__
            except Exception as e: outcome = 'OTHER:' + type(e).__name__ + ': ' + str(e)[:80]
            own = {os.path.realpath(main)}
            viol = [(k, p_) for k, p_ in _events if not (k == 'open' and p_ in own) and not allowed(mode, 'open' if k == 'open' else 'remote', p_, base)]
            if any(k == 'open' and p_ in own for k, p_ in _events) and not allowed(mode, 'open', main, base): viol.append(('open', 'MAIN'))
            if viol or outcome.startswith('OTHER'):
                fails.append(dict(case=dict(mode=mode, mechanism='source-list', spelling=sp, location=loc.replace(root, '<root>'), explicit_base_url=with_base), observed=dict(outcome=outcome, fetched=[(k, p_.replace(root, '<root>')) for k, p_ in viol]),
                                  required='no fetch outside the allowed class; only library exceptions'))
        # base_url='' (e.g. os.path.dirname('main.xsd')): the working directory is the base directory, not "no base"
        cwd = os.getcwd()
        try:
            os.chdir(base)
            for kind, (sp, loc) in itertools.product(['main-source', 'document-api-hint', 'schema-include'], [(k, v) for k, v in SPELL.items() if k in ('inside', 'evil-rel', 'evil-abs', 'evil-url', 'sibling-rel', 'url-dots-out')]):
                n += 1; _events.clear(); outcome = 'ok'
                try:
                    if kind == 'main-source': xmlschema.XMLResource(loc, base_url='', allow='sandbox')
                    elif kind == 'document-api-hint':
                        open(hint_doc, 'w').write(f'<x xmlns:xsi="http://www.w3.org/2001/XMLSchema-instance" xsi:noNamespaceSchemaLocation="{loc}"/>')
                        xmlschema.is_valid('hinted.xml', base_url='', allow='sandbox')
                    else:
                        xmlschema.XMLSchema10(f'<xs:schema {XS}><xs:include schemaLocation="{loc}"/><xs:element name="r"/></xs:schema>', base_url='', allow='sandbox')
                except XMLSchemaException as e: outcome = type(e).__name__
                except Exception as e: outcome = 'OTHER:' + type(e).__name__ + ': ' + str(e)[:80]
                own = {os.path.realpath(hint_doc)}
                viol = [(k, p_) for k, p_ in _events if not (k == 'open' and p_ in own) and not allowed('sandbox', 'open' if k == 'open' else 'remote', p_, base)]
                if viol or outcome.startswith('OTHER'):
                    fails.append(dict(case=dict(mode='sandbox', mechanism=kind, spelling=sp, location=loc.replace(root, '<root>'), base_url=''), observed=dict(outcome=outcome, fetched=[(k, p_.replace(root, '<root>')) for k, p_ in viol]),
                                      required='no fetch outside the working directory; only library exceptions'))
        finally: os.chdir(cwd)
        return [result('C12.confinement_catalogue', f'5 allow modes x 5 mechanisms (include, import, redefine, instance hint on a built schema, instance hint through the package-level API) x {len(SPELL)} location spellings, plus parse() of a resource / document object created with the mode x 4 targets; audit hook on open + stub http opener', n, fails, exhaustive=True,
                       samples=[dict(mode='sandbox', mechanism='include', location='../sand_evil/inc.xsd')])]
    finally:
        _root[0] = None
        shutil.rmtree(root, ignore_errors=True)


def replay(check_name, case):
    out = run('quick', 0, {})
    mine = [f for f in out[0]['failures'] if f['case'] == case]
    return dict(ok=not mine, observed=mine[:1], required='no fetch outside the allowed class')
