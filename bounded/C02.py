"""C02 bounded run-time contract through the real schema API (labelled bounded):

    for every built-in atomic type in scope and every text of the boundary catalogue (plus seeded mutations):
      is_valid(text) <=> text, after the type's whitespace normalisation, is in the XSD lexical space and value range;
      decode(text) denotes the XSD value; decode(encode(decode(text))) = decode(text).

Reference validity functions are written from XSD Part 2 (3.2/3.3/3.4 and Appendix D/E for date and time), not from xmlschema.
Also: XsdSimpleType.normalize against ws_normalize, count_digits against digits(), restriction chains / lists / unions.
"""
import itertools, random, re
from decimal import Decimal
from .common import pmap, result
from .C01 import _cls

XS = 'xmlns:xs="http://www.w3.org/2001/XMLSchema"'


def collapse(s):
    s = re.sub(r'[\t\n\r]', ' ', s); s = re.sub(r' +', ' ', s); return s.strip(' ')


INT = {'integer': (None, None), 'long': (-2**63, 2**63 - 1), 'int': (-2**31, 2**31 - 1), 'short': (-2**15, 2**15 - 1), 'byte': (-128, 127),
       'nonNegativeInteger': (0, None), 'positiveInteger': (1, None), 'nonPositiveInteger': (None, 0), 'negativeInteger': (None, -1),
       'unsignedLong': (0, 2**64 - 1), 'unsignedInt': (0, 2**32 - 1), 'unsignedShort': (0, 2**16 - 1), 'unsignedByte': (0, 255)}


def v_int(lo, hi):
    def f(t, ver):
        t = collapse(t)
        if not re.fullmatch(r'[+-]?[0-9]+', t): return False
        n = int(t); return (lo is None or n >= lo) and (hi is None or n <= hi)
    return f


def v_decimal(t, ver): return re.fullmatch(r'[+-]?([0-9]+(\.[0-9]*)?|\.[0-9]+)', collapse(t)) is not None
def v_boolean(t, ver): return collapse(t) in ('true', 'false', '1', '0')


def v_float(t, ver):
    t = collapse(t)
    if ver == '1.0': return re.fullmatch(r'([+-]?([0-9]+(\.[0-9]*)?|\.[0-9]+)([Ee][+-]?[0-9]+)?)|INF|-INF|NaN', t) is not None
    return re.fullmatch(r'([+-]?([0-9]+(\.[0-9]*)?|\.[0-9]+)([Ee][+-]?[0-9]+)?)|[+-]?INF|NaN', t) is not None


TZ = r'(Z|[+-](0[0-9]|1[0-3]):[0-5][0-9]|[+-]14:00)?'


def year_ok(y, ver):
    if not re.fullmatch(r'-?[0-9]{4,}', y): return False
    d = y.lstrip('-')
    if len(d) > 9: return None          # implementation-defined limit on the year: outside the deciding scope
    if len(d) > 4 and d[0] == '0': return False
    if ver == '1.0' and int(d) == 0: return False
    return True


def days_in(y, m):
    leap = (y % 4 == 0 and y % 100 != 0) or y % 400 == 0
    return [31, 29 if leap else 28, 31, 30, 31, 30, 31, 31, 30, 31, 30, 31][m - 1]


def v_date(t, ver):
    m = re.fullmatch(r'(-?[0-9]{4,})-([0-9]{2})-([0-9]{2})' + TZ, collapse(t))
    if not m: return False
    if year_ok(m.group(1), ver) is None: return None
    if not year_ok(m.group(1), ver): return False
    mo, d = int(m.group(2)), int(m.group(3))
    if not 1 <= mo <= 12: return False
    y = int(m.group(1))
    if y < 0 and mo == 2 and d == 29: return None    # leap days BCE: the proleptic rule is not fixed by XSD 1.0 and differs in 1.1 -> outside the deciding scope
    if ver == '1.0' and y < 0: y += 1
    return 1 <= d <= days_in(y, mo)


def v_time(t, ver):
    m = re.fullmatch(r'([0-9]{2}):([0-9]{2}):([0-9]{2})(\.[0-9]+)?' + TZ, collapse(t))
    if not m: return False
    h, mi, s = int(m.group(1)), int(m.group(2)), int(m.group(3))
    if h == 24: return mi == 0 and s == 0 and (m.group(4) is None or set(m.group(4)[1:]) == {'0'})
    return h < 24 and mi < 60 and s < 60


def v_gyear(t, ver):
    m = re.fullmatch(r'(-?[0-9]{4,})' + TZ, collapse(t))
    return bool(m) and year_ok(m.group(1), ver)


def v_gyearmonth(t, ver):
    m = re.fullmatch(r'(-?[0-9]{4,})-([0-9]{2})' + TZ, collapse(t))
    if not m: return False
    y = year_ok(m.group(1), ver)
    if not y: return y
    return 1 <= int(m.group(2)) <= 12


def v_datetime(t, ver):
    c = collapse(t)
    m = re.fullmatch(r'(-?[0-9]{4,}-[0-9]{2}-[0-9]{2})T([0-9]{2}:[0-9]{2}:[0-9]{2}(\.[0-9]+)?)' + TZ, c)
    if not m: return False
    d = v_date(m.group(1), ver)
    if not d: return d
    return v_time(m.group(2), ver)


def v_gmonthday(t, ver):
    m = re.fullmatch(r'--([0-9]{2})-([0-9]{2})' + TZ, collapse(t))
    return bool(m) and 1 <= int(m.group(1)) <= 12 and 1 <= int(m.group(2)) <= [31, 29, 31, 30, 31, 30, 31, 31, 30, 31, 30, 31][int(m.group(1)) - 1]


def v_gmonth(t, ver):
    m = re.fullmatch(r'--([0-9]{2})' + TZ, collapse(t))
    return bool(m) and 1 <= int(m.group(1)) <= 12


def v_gday(t, ver):
    m = re.fullmatch(r'---([0-9]{2})' + TZ, collapse(t))
    return bool(m) and 1 <= int(m.group(1)) <= 31


def v_duration(t, ver):
    m = re.fullmatch(r'-?P(([0-9]+Y)?([0-9]+M)?([0-9]+D)?)(T([0-9]+H)?([0-9]+M)?([0-9]+(\.[0-9]+)?S)?)?', collapse(t))
    if not m: return False
    if not (m.group(2) or m.group(3) or m.group(4) or m.group(6) or m.group(7) or m.group(8)): return False
    return not (m.group(5) == 'T')


def v_hex(t, ver): return re.fullmatch(r'([0-9a-fA-F]{2})*', collapse(t)) is not None


TYPES = {k: v_int(*r) for k, r in INT.items()}
TYPES.update(decimal=v_decimal, boolean=v_boolean, double=v_float, float=v_float, date=v_date, time=v_time, gYear=v_gyear, hexBinary=v_hex,
             gYearMonth=v_gyearmonth, dateTime=v_datetime, gMonthDay=v_gmonthday, gMonth=v_gmonth, gDay=v_gday, duration=v_duration)
NBSP = '\xa0'
CAT = {
    'int': ['0', '-0', '+0', '00012', ' 12 ', '12\n', '1 2', '1_2', '１２', '12.', '12.0', '1e2', '', '-', '+', '--1', '0x10', ' 12', NBSP + '12', ' 12',
            '127', '128', '-128', '-129', '255', '256', '32767', '32768', '-32768', '-32769', '65535', '65536', '2147483647', '2147483648', '-2147483648', '-2147483649',
            '4294967295', '4294967296', '9223372036854775807', '9223372036854775808', '-9223372036854775808', '-9223372036854775809', '18446744073709551615',
            '18446744073709551616', '-1', '1', '٣', '1__2', '_1', '+ 1'],
    'decimal': ['0', '.5', '5.', '-.5', '+1.0', '1.2.3', '1e3', 'INF', 'NaN', '1,5', ' 1.5 ', '1 5', '1_0.5', '٣.٥', '', '.', '-', '+.', '0.000000000000000000001', '1' * 40, NBSP + '1.5'],
    'boolean': ['true', 'false', '1', '0', 'True', 'TRUE', ' true ', 'yes', '', '01', 'tru e', NBSP + 'true'],
    'float': ['1', '1.5', '-1.5E3', '1e-3', '.5', '5.', 'INF', '-INF', '+INF', 'NaN', 'nan', 'inf', 'Infinity', '1e', 'e5', '1_0', '0x1p3', ' 1.5 ', '1e400', '-0', '٣', NBSP + '1'],
    'date': ['2020-02-29', '2019-02-29', '1900-02-29', '2000-02-29', '2020-13-01', '2020-00-10', '2020-01-32', '2020-04-31', '0000-01-01', '-0001-01-01', '02020-01-01', '12020-01-01', '12020-02-29', '20000-02-29', '12021-02-29',
             '2020-01-01Z', '2020-01-01+14:00', '2020-01-01+14:01', '2020-01-01-14:00', '2020-01-01+13:59', '2020-01-01+5:00', '2020-1-1', '20200101', '2020-01-01T00:00:00', ' 2020-01-01 ',
             '2020-01-01z', '99999999999-01-01'],
    'time': ['00:00:00', '23:59:59', '24:00:00', '24:00:01', '24:00:00.0', '24:00:00.1', '12:60:00', '12:00:60', '12:00:61', '12:00:00.123', '12:00:00.', '1:00:00', '12:00', '12:00:00Z',
             '12:00:00+14:00', '12:00:00+14:30', '12:00:00-00:00'],
    'gYear': ['2020', '0000', '-0001', '02020', '12020', '202', '2020Z', '2020+14:00', '2020+15:00', '99999999999999999999', '+2020'],
    'gYearMonth': ['2020-02', '0000-03', '-0001-03', '02020-03', '12020-03', '2020-13', '2020-00', '2020-2', '2020-02Z', '2020-02+14:00', '2020-02+14:01', '2020', '2020-02-01', '99999999999-01'],
    'dateTime': ['2020-02-29T12:00:00', '2019-02-29T12:00:00', '0000-01-01T00:00:00', '-0001-01-01T00:00:00', '2020-01-01T24:00:00', '2020-01-01T24:00:01', '2020-01-01T23:59:60', '2020-01-01T12:00:00.5Z',
                 '2020-01-01T12:00:00+14:00', '2020-01-01T12:00:00+14:01', '2020-01-01 12:00:00', '2020-01-01T12:00', '2020-01-01', '12020-01-01T00:00:00', '02020-01-01T00:00:00', '2020-13-01T00:00:00', '2020-01-01t00:00:00'],
    'gMonthDay': ['--02-29', '--02-30', '--04-31', '--12-31', '--13-01', '--00-10', '--1-1', '--02-29Z', '-02-29', '--02-29+14:00'],
    'gMonth': ['--01', '--12', '--13', '--00', '--1', '--01Z', '--01--', '-01'],
    'gDay': ['---01', '---31', '---32', '---00', '---1', '---01Z', '--01'],
    'duration': ['P1Y', 'P1Y2M3DT4H5M6.7S', '-P1D', 'PT1S', 'P', 'PT', 'P1YT', 'P1S', 'PT1Y', 'P1.5Y', 'P-1Y', '+P1Y', 'P1Y2D3M', 'PT1.S', 'PT.5S', 'p1y', 'P1M', 'PT1M', 'P0Y'],
    'hexBinary': ['', '0A', '0a', '0', 'GG', '0A 0B', ' 0A ', '0A0B0C'],
}
# BCE leap day under XSD 1.0 is kept out of the deciding scope (XSD 1.0 does not fix the proleptic rule): reported only
REPORT_ONLY = {('date', '-0004-02-29')}


def cat_for(t):
    if t in INT: return CAT['int']
    if t in ('double', 'float'): return CAT['float']
    return CAT[t]


def esc(s): return s.replace('&', '&amp;').replace('<', '&lt;').replace('\r', '&#13;')


def py_int_extra(v):
    """the text is outside the XSD integer lexical space but Python's int() accepts it (underscores, non-ASCII digits, Unicode spaces)"""
    try: int(v)
    except ValueError: return False
    return re.fullmatch(r'[+-]?[0-9]+', collapse(v)) is None


def py_decimal_extra(v):
    c = collapse(v)
    if v_decimal(v, '1.0'): return False
    try: d = Decimal(c.replace(' ', ''))
    except Exception: return False
    return d.is_finite() and not re.search(r'[eE]', c)


def classify(t, v, got, exp, ver=None):
    if t in INT and got is True and exp is False and py_int_extra(v): return 'C02-integer-lexical-python-int'
    if t in ('date', 'dateTime') and ver == '1.1' and got != exp and re.fullmatch(r'[0-9]{5,}-02-29.*', collapse(v)): return 'C02-large-year-leap-day-xsd11'
    if t in ('decimal', 'money') and got is True and exp is False and py_decimal_extra(v): return 'C02-decimal-lexical-python-decimal'
    return None


_SCHEMAS = {}


def schema(ver):
    if ver not in _SCHEMAS:
        _SCHEMAS[ver] = _cls(ver)(f'<xs:schema {XS}>' + ''.join(f'<xs:element name="{t}" type="xs:{t}"/>' for t in TYPES) + '</xs:schema>')
    return _SCHEMAS[ver]


def eval_case(args):
    ver, t, v = args
    s = schema(ver)
    try: got = s.is_valid(f'<{t}>{esc(v)}</{t}>')
    except Exception as e: got = 'EXC:' + type(e).__name__
    exp = TYPES[t](v, ver)
    if exp is None: return dict(ver=ver, type=t, text=v, got=got, exp=None, ok=not str(got).startswith('EXC'))
    out = dict(ver=ver, type=t, text=v, got=got, exp=exp, ok=(got == exp))
    if got is True and exp is True:
        # decoded value denotes the XSD value; re-encoding round-trips
        try:
            d = s.decode(f'<{t}>{esc(v)}</{t}>')
            if t in INT and d != int(collapse(v)): out.update(ok=False, detail=f'decoded {d!r}')
            if t == 'boolean' and d is not (collapse(v) in ('true', '1')): out.update(ok=False, detail=f'decoded {d!r}')
            if t == 'decimal' and Decimal(str(d)) != Decimal(collapse(v)): out.update(ok=False, detail=f'decoded {d!r}')
            e = s.encode(d, path=t)
            d2 = s.decode(e)
            if d2 != d and not (d != d and d2 != d2) and not (d in ('', None) and d2 in ('', None)): out.update(ok=False, detail=f'round trip {d!r} -> {e.text!r} -> {d2!r}')
        except Exception as e:
            out.update(ok=False, detail=f'decode/encode raised {type(e).__name__}: {e}')
    return out


def mutations(rng, n):
    out = []
    for _ in range(n):
        t = rng.choice(list(TYPES)); v = rng.choice(cat_for(t))
        op = rng.choice(['ws', 'dup', 'del', 'sign', 'pad'])
        if op == 'ws': v = rng.choice([' ', '\t', '\n']) + v + rng.choice([' ', '', '\r'])
        elif op == 'dup' and v: i = rng.randrange(len(v)); v = v[:i] + v[i] + v[i:]
        elif op == 'del' and v: i = rng.randrange(len(v)); v = v[:i] + v[i + 1:]
        elif op == 'sign': v = rng.choice('+-') + v
        elif op == 'pad': v = '0' + v
        out.append((t, v))
    return out


def run(tier, seed, open_findings):
    rng = random.Random(seed)
    cases = [(ver, t, v) for ver in ('1.0', '1.1') for t in TYPES for v in cat_for(t) if (t, v) not in REPORT_ONLY]
    muts = [(ver, t, v) for t, v in mutations(rng, 30000 if tier == 'thorough' else 600) for ver in ('1.0', '1.1')]
    out = []
    for label, cs, exhaustive in (('C02.boundary_catalogue', cases, True), ('C02.seeded_mutations', muts, False)):
        res = pmap(eval_case, cs)
        failures = []; known = {}
        for r in res:
            if r['ok']: continue
            fid = classify(r['type'], r['text'], r['got'], r['exp'], r['ver'])
            if fid and fid in open_findings: known[fid] = known.get(fid, 0) + 1; continue
            # seeded mutations may only raise an alarm for texts whose class is decidable by the reference: dates/times with odd shapes are
            failures.append(dict(case=dict(ver=r['ver'], type=r['type'], text=r['text']), observed=dict(valid=r['got'], detail=r.get('detail')), required=dict(valid=r['exp'])))
        out.append(result(label, f'{len(cs)} (class, type, text) cases over {len(TYPES)} built-in types', len(cs), failures, exhaustive=exhaustive, known=known,
                          samples=[dict(type=cs[3][1], text=cs[3][2])], distinct=len({(c[1], c[2]) for c in cs})))
    from . import C02_more
    out += C02_more.run(tier, seed, open_findings)
    return out


def replay(check_name, case):
    if not check_name.startswith(('C02.boundary', 'C02.seeded')):
        from . import C02_more
        return C02_more.replay(check_name, case)
    r = eval_case((case['ver'], case['type'], case['text']))
    return dict(ok=r['ok'], observed=dict(valid=r['got'], detail=r.get('detail')), required=dict(valid=r['exp']))
