"""C07 bounded run-time contract (labelled bounded): xsi:type, substitution, nil against a reference decision procedure written from
Structures 3.3.4 (Element Locally Valid), 3.4.6 (Type Derivation OK) and 3.3.6 (substitution groups).

Type graph B <- E1 <- E2 (extension), B <- R1 (restriction), E1 <- R2 (restriction of an extension), R1 <- X2 (extension of a restriction), with abstract / block flags on every type, nillable / abstract / block on
the element, blockDefault on the schema; every xsi:type x nil flag x content variant.  Substitution: head h with members m1 (type E1) and
m2 (substituting m1, type E2), block='substitution' / 'extension' on the head, abstract members.  Exhaustive over the flag products that
fit the budget (quick: a seeded quarter).
"""
import itertools, random
from .common import pmap, result, part
from .C01 import _cls
XS = 'xmlns:xs="http://www.w3.org/2001/XMLSchema"'; XSI = 'xmlns:xsi="http://www.w3.org/2001/XMLSchema-instance"'
TYPES = {'B': (None, None, ['a']), 'E1': ('B', 'extension', ['a', 'b']), 'E2': ('E1', 'extension', ['a', 'b', 'c']), 'R1': ('B', 'restriction', ['a']),
         # mixed chains: a restriction of an extension and an extension of a restriction (a blocked step may be any step of the chain)
         'R2': ('E1', 'restriction', ['a', 'b']), 'X2': ('R1', 'extension', ['a', 'd'])}
SAME_CONTENT = {'R1': 'B', 'R2': 'E1'}
BLK = [None, '', 'extension', 'restriction', '#all']       # '' = an explicit empty attribute, which overrides blockDefault


def types_xml(tflags):
    t = ''
    for name, (base, how, kids) in TYPES.items():
        fl = tflags.get(name, {})
        attrs = ''.join(f' {k}="{v}"' for k, v in fl.items())
        seq = lambda ks: '<xs:sequence>' + ''.join(f'<xs:element name="{k}" type="xs:string"/>' for k in ks) + '</xs:sequence>'
        if base is None: t += f'<xs:complexType name="{name}"{attrs}>{seq(kids)}</xs:complexType>'
        elif how == 'extension': t += f'<xs:complexType name="{name}"{attrs}><xs:complexContent><xs:extension base="{base}">{seq(kids[len(TYPES[base][2]):])}</xs:extension></xs:complexContent></xs:complexType>'
        else: t += f'<xs:complexType name="{name}"{attrs}><xs:complexContent><xs:restriction base="{base}">{seq(kids)}</xs:restriction></xs:complexContent></xs:complexType>'
    return t


def steps(tname):
    out = []; n = tname
    while TYPES[n][0] is not None: out.append(TYPES[n][1]); n = TYPES[n][0]
    return out


def eff(flag, default):
    if flag is None: return set(default.split()) if default != '#all' else {'extension', 'restriction', 'substitution'}
    return {'extension', 'restriction', 'substitution'} if flag == '#all' else set(flag.split())


def ref_valid(tflags, eflags, bd, xsi_type, nil, content_for):
    if eflags.get('abstract') == 'true': return False
    gov = 'B'
    if xsi_type is not None:
        if xsi_type not in TYPES: return False
        blocked = (eff(eflags.get('block'), bd) | eff(tflags.get('B', {}).get('block'), bd)) & {'extension', 'restriction'}
        if xsi_type != 'B' and set(steps(xsi_type)) & blocked: return False
        gov = xsi_type
    if tflags.get(gov, {}).get('abstract') == 'true': return False
    if nil: return eflags.get('nillable') == 'true' and content_for is None
    want = SAME_CONTENT.get(gov, gov)
    return content_for == want


def doc(xsi_type, nil, content_for, tag='e'):
    attrs = (f' xsi:type="{xsi_type}"' if xsi_type else '') + (' xsi:nil="true"' if nil else '')
    kids = ''.join(f'<{k}>x</{k}>' for k in TYPES[content_for][2]) if content_for else ''
    return f'<{tag} {XSI}{attrs}>{kids}</{tag}>'


def configs():
    for ab in itertools.product([False, True], repeat=4):        # abstract flag per type
        for bB in BLK:                                           # block on the declared type
            for eb in BLK + ['substitution']:
                for nill in (False, True):
                    for bd in ('', 'extension', '#all'):
                        yield (ab, bB, eb, nill, bd)


def eval_config(args):
    (ab, bB, eb, nill, bd), ver = args
    import xmlschema
    tflags = {}
    for n, a in zip(TYPES, ab):
        if a: tflags.setdefault(n, {})['abstract'] = 'true'
    if bB is not None: tflags.setdefault('B', {})['block'] = bB
    eflags = {}
    if nill: eflags['nillable'] = 'true'
    if eb is not None: eflags['block'] = eb
    eattrs = ''.join(f' {k}="{v}"' for k, v in eflags.items())
    try: s = _cls(ver)(f'<xs:schema {XS}' + (f' blockDefault="{bd}"' if bd else '') + f'>{types_xml(tflags)}<xs:element name="e" type="B"{eattrs}/></xs:schema>')
    except xmlschema.XMLSchemaException: return dict(cases=0, bad=[])
    bad = []; n = 0
    for xt in [None, 'B', 'E1', 'E2', 'R1', 'R2', 'X2', 'Nope']:
        for nil in (False, True):
            for cf in [None, 'B', 'E1', 'E2', 'X2']:
                n += 1
                d = doc(xt, nil, cf)
                try: got = s.is_valid(d)
                except Exception as e: got = f'EXC {type(e).__name__}'
                exp = ref_valid(tflags, eflags, bd, xt, nil, cf)
                if got != exp and len(bad) < 2: bad.append(dict(doc=d, got=got, exp=exp, tflags=tflags, eflags=eflags, blockDefault=bd))
    return dict(cases=n, bad=bad)


def subst_schema(ver, hblock, m1_abstract, hB_block, final=None):
    tf = {'B': {'block': hB_block}} if hB_block else {}
    return _cls(ver)(f'''<xs:schema {XS}>{types_xml(tf)}
 <xs:element name="h" type="B"{' block="%s"' % hblock if hblock else ''}/>
 <xs:element name="m1" type="E1" substitutionGroup="h"{' abstract="true"' if m1_abstract else ''}/>
 <xs:element name="m2" type="E2" substitutionGroup="m1"/>
 <xs:element name="m0" type="B" substitutionGroup="h"/><xs:element name="m00" type="B" substitutionGroup="m0"/>
 <xs:element name="other" type="B"/>
 <xs:element name="r"><xs:complexType><xs:sequence><xs:element ref="h"/></xs:sequence></xs:complexType></xs:element></xs:schema>''')


def eval_subst(args):
    ver, hblock, m1_abs, hB = args
    import xmlschema
    try: s = subst_schema(ver, hblock, m1_abs, hB)
    except xmlschema.XMLSchemaException as e: return dict(cases=0, bad=[])
    bad = []; n = 0
    blocked = eff(hblock, '') | eff(hB, '')
    # (m0 / m00: members, one and two levels down, whose type IS the head's type: no derivation step, so only block="substitution" keeps them out)
    for tag, typ in (('h', 'B'), ('m1', 'E1'), ('m2', 'E2'), ('other', 'B'), ('m0', 'B'), ('m00', 'B')):
        for cf in ('B', 'E1', 'E2'):
            n += 1
            d = f'<r>{doc(None, False, cf, tag)}</r>'
            try: got = s.is_valid(d)
            except Exception as e: got = f'EXC {type(e).__name__}'
            if tag == 'h': exp = cf == 'B'
            elif tag == 'other': exp = False
            else:
                ok = 'substitution' not in eff(hblock, '') and not (set(steps(typ)) & blocked)
                if tag == 'm1' and m1_abs: ok = False
                exp = ok and cf == typ
            if got != exp and len(bad) < 2: bad.append(dict(doc=d, got=got, exp=exp, head_block=hblock, m1_abstract=m1_abs, type_block=hB))
    return dict(cases=n, bad=bad)


# ---------------------------------------------------------------- XSD 1.1 type alternatives (own and inherited attributes)
ALT_SCHEMA = f'''<xs:schema {XS}>
 <xs:complexType name="ItemT"><xs:simpleContent><xs:extension base="xs:string"><xs:attribute name="kind" type="xs:string"/></xs:extension></xs:simpleContent></xs:complexType>
 <xs:complexType name="EN"><xs:simpleContent><xs:restriction base="ItemT"><xs:enumeration value="hello"/></xs:restriction></xs:simpleContent></xs:complexType>
 <xs:complexType name="FR"><xs:simpleContent><xs:restriction base="ItemT"><xs:enumeration value="bonjour"/></xs:restriction></xs:simpleContent></xs:complexType>
 <xs:complexType name="NUM"><xs:simpleContent><xs:restriction base="ItemT"><xs:pattern value="[0-9]+"/></xs:restriction></xs:simpleContent></xs:complexType>
 <xs:element name="item" type="ItemT"><xs:alternative test="@kind = 'num'" type="NUM"/><xs:alternative test="@lang = 'fr'" type="FR"/><xs:alternative test="@lang = 'en'" type="EN"/></xs:element>
 <xs:complexType name="Sec"><xs:choice minOccurs="0" maxOccurs="unbounded"><xs:element ref="item"/><xs:element name="section" type="Sec"/></xs:choice>
   <xs:attribute name="lang" type="xs:string" inheritable="true"/></xs:complexType>
 <xs:element name="doc" type="Sec"/>
 <xs:element name="own" type="ItemT"><xs:alternative test="@kind = 'plain'" type="ItemT"/><xs:alternative test="@kind" type="NUM"/><xs:alternative type="EN"/></xs:element>
 <xs:element name="own2" type="ItemT"><xs:alternative test="@kind = 'num'" type="NUM"/><xs:alternative test="@kind" type="ItemT"/><xs:alternative type="FR"/></xs:element>
</xs:schema>'''


def alt_docs():
    """(document, expected validity): items governed by their own kind, else by the nearest lang in scope (own attribute first, then inherited)"""
    import itertools
    def item(text, kind=None): return ('item', text, kind)
    def render(node):
        if node[0] == 'item': return f'<item{" kind=" + chr(34) + node[2] + chr(34) if node[2] else ""}>{node[1]}</item>'
        tag, lang, kids = node
        return f'<{tag}{" lang=" + chr(34) + lang + chr(34) if lang else ""}>' + ''.join(render(k) for k in kids) + f'</{tag}>'
    def ok(node, lang):
        if node[0] == 'item':
            if node[2] == 'num': return node[1].isdigit()
            return {'fr': node[1] == 'bonjour', 'en': node[1] == 'hello'}.get(lang, True)
        lang = node[1] or lang
        return all(ok(k, lang) for k in node[2])
    texts = ['hello', 'bonjour', '12']
    for l0, l1 in itertools.product([None, 'en', 'fr'], repeat=2):
        for t1, t2 in itertools.product(texts, repeat=2):
            for kind in (None, 'num'):
                for order in range(3):
                    sec = ('section', l1, [item(t1, kind)]); it = item(t2)
                    kids = [[sec, it], [it, sec], [sec, it, ('section', None, [item(t2)])]][order]
                    d = ('doc', l0, kids)
                    yield render(d), ok(d, None)
    # a type table whose alternatives name the DECLARED type of the element (first / in the middle), before a later alternative whose test also holds and a default one:
    # the first alternative whose test holds decides, also when it selects the type the element has anyway
    for text in ('anything', '12', 'hello', 'bonjour'):
        yield f'<own kind="plain">{text}</own>', True
        yield f'<own kind="x">{text}</own>', text.isdigit()
        yield f'<own>{text}</own>', text == 'hello'
        yield f'<own2 kind="num">{text}</own2>', text.isdigit()
        yield f'<own2 kind="x">{text}</own2>', True
        yield f'<own2>{text}</own2>', text == 'bonjour'


def eval_alt(args):
    doc, exp = args
    import xmlschema
    s = _S.get('alt') or _S.setdefault('alt', xmlschema.XMLSchema11(ALT_SCHEMA))
    try: got = s.is_valid(doc); got2 = not list(s.iter_errors(doc))
    except Exception as e: got = got2 = f'EXC {type(e).__name__}: {e}'
    return None if got == exp == got2 else dict(doc=doc, got=got, exp=exp)


_S = {}


TYPELESS = f'''<xs:schema xmlns:xs="http://www.w3.org/2001/XMLSchema"><xs:element name="hs" type="xs:int"/><xs:element name="ms" substitutionGroup="hs"/><xs:element name="ms2" substitutionGroup="ms"/>
 <xs:element name="hc"><xs:complexType><xs:sequence><xs:element name="x" minOccurs="0"/></xs:sequence><xs:attribute name="k" type="xs:int" use="required"/></xs:complexType></xs:element>
 <xs:element name="mc" substitutionGroup="hc"/><xs:element name="mc2" substitutionGroup="mc"/>
 <xs:element name="r"><xs:complexType><xs:choice maxOccurs="unbounded"><xs:element ref="hs"/><xs:element ref="hc"/></xs:choice></xs:complexType></xs:element></xs:schema>'''
TYPELESS_DOCS = [('{t} bogus="1">5</{t}', False, 's'), ('{t}>5</{t}', True, 's'), ('{t}>x</{t}', False, 's'), ('{t}><y/></{t}', False, 's'),
                 ('{t}/', False, 'c'), ('{t} k="x"/', False, 'c'), ('{t} k="1" z="2"/', False, 'c'), ('{t} k="1"><x/></{t}', True, 'c'), ('{t} k="1"><y/></{t}', False, 'c'), ('{t} k="01"/', True, 'c')]


def eval_typeless(ver):
    """a substitution-group member declared without a type has the type of its head (one or two levels up): content AND attributes are validated against that type, as root and in place of the head"""
    s = _cls(ver)(TYPELESS); bad = []; n = 0
    for tmpl, exp, kind in TYPELESS_DOCS:
        for tag in (('hs', 'ms', 'ms2') if kind == 's' else ('hc', 'mc', 'mc2')):
            for wrap in (False, True):
                n += 1
                inner = '<' + tmpl.format(t=tag) + '>'
                d = f'<r>{inner}</r>' if wrap else inner
                try: got = s.is_valid(d)
                except Exception as e: got = 'raised ' + type(e).__name__
                if got != exp: bad.append(dict(ver=ver, doc=d, got=got, exp=exp))
    return n, bad


# ---------------------------------------------------------------- the type named by xsi:type governs the attributes too
GOV = f'''<xs:schema {XS}>
 <xs:simpleType name="S"><xs:restriction base="xs:int"><xs:maxInclusive value="9"/></xs:restriction></xs:simpleType>
 <xs:complexType name="CT"><xs:attribute name="k" type="xs:int" use="required"/></xs:complexType>
 <xs:complexType name="DT"><xs:complexContent><xs:extension base="CT"><xs:attribute name="m" type="xs:int"/></xs:extension></xs:complexContent></xs:complexType>
 <xs:complexType name="ST"><xs:simpleContent><xs:extension base="xs:int"><xs:attribute name="u" type="xs:int"/></xs:extension></xs:simpleContent></xs:complexType>
 <xs:element name="open"/><xs:element name="anyT" type="xs:anyType"/><xs:element name="c" type="CT"/><xs:element name="i" type="xs:int"/><xs:element name="sc" type="ST"/>
 <xs:element name="r"><xs:complexType><xs:choice maxOccurs="unbounded"><xs:element ref="open"/><xs:element ref="anyT"/><xs:element ref="c"/><xs:element ref="i"/><xs:element ref="sc"/></xs:choice></xs:complexType></xs:element>
</xs:schema>'''
# type -> (required attributes, optional attributes, content rule); None = anything goes (xs:anyType: lax wildcard, mixed content)
GOV_TYPES = {'xs:anyType': None, 'xs:int': (set(), set(), 'int'), 'S': (set(), set(), 'small'), 'CT': ({'k'}, set(), 'empty'), 'DT': ({'k'}, {'m'}, 'empty'), 'ST': (set(), {'u'}, 'int')}
GOV_BASE = {'xs:int': 'xs:anyType', 'S': 'xs:int', 'CT': 'xs:anyType', 'DT': 'CT', 'ST': 'xs:int', 'xs:anyType': None}
GOV_ELEMS = {'open': 'xs:anyType', 'anyT': 'xs:anyType', 'c': 'CT', 'i': 'xs:int', 'sc': 'ST'}


def gov_docs():
    for tag, declared in GOV_ELEMS.items():
        for xt in [None] + list(GOV_TYPES):
            for n in range(16):
                attrs = [a for j, a in enumerate('kmuz') if n >> j & 1]
                for content in ('', '5', '12'):
                    gov = xt or declared
                    t = gov; ok = False
                    while t is not None:
                        if t == declared: ok = True
                        t = GOV_BASE[t]
                    rule = GOV_TYPES[gov]
                    if ok and rule is not None:
                        req, opt, c = rule
                        ok = req <= set(attrs) <= req | opt and {'empty': content == '', 'int': content != '', 'small': content == '5'}[c]
                    d = f'<{tag} {XSI}' + (f' xmlns:xs="http://www.w3.org/2001/XMLSchema" xsi:type="{xt}"' if xt else '') + ''.join(f' {a}="1"' for a in attrs) + f'>{content}</{tag}>'
                    yield d, ok


def eval_gov(ver):
    """the named type governs the whole element: its attribute uses as well as its content (a simple type admits no attribute, whatever the declared type admits)"""
    s = _cls(ver)(GOV); bad = []; n = 0
    for d, exp in gov_docs():
        for wrap in (False, True):
            n += 1
            dd = f'<r>{d}</r>' if wrap else d
            try: got = s.is_valid(dd)
            except Exception as e: got = 'raised ' + type(e).__name__
            if got != exp and len(bad) < 6: bad.append(dict(ver=ver, doc=dd, got=got, exp=exp))
    return n, bad


UNI = f'''<xs:schema {XS}>
 <xs:simpleType name="IB"><xs:union memberTypes="xs:int xs:boolean"/></xs:simpleType>
 <xs:simpleType name="IB7"><xs:restriction base="IB"><xs:enumeration value="7"/><xs:enumeration value="true"/></xs:restriction></xs:simpleType>
 <xs:simpleType name="IB77"><xs:restriction base="IB7"><xs:enumeration value="7"/></xs:restriction></xs:simpleType>
 <xs:simpleType name="IBp"><xs:restriction base="IB"><xs:pattern value="[0-9t].*"/></xs:restriction></xs:simpleType>
 <xs:element name="flag" type="IB7"/><xs:element name="plain" type="IB"/><xs:element name="pat" type="IBp"/>
 <xs:element name="w"><xs:complexType><xs:sequence><xs:any processContents="lax" maxOccurs="unbounded"/></xs:sequence></xs:complexType></xs:element>
</xs:schema>'''
UNI_DOCS = [('flag', None, '7', True), ('flag', None, '5', False), ('flag', None, 'true', True), ('flag', 'xs:int', '5', False), ('flag', 'xs:int', '7', False), ('flag', 'xs:boolean', 'true', False),
            ('flag', 'IB', '7', False), ('flag', 'IB77', '7', True), ('flag', 'IB77', 'true', False), ('flag', 'IB77', '5', False),
            ('plain', None, '5', True), ('plain', 'xs:int', '5', True), ('plain', 'xs:int', 'true', False), ('plain', 'xs:boolean', 'true', True), ('plain', 'xs:boolean', '5', False), ('plain', 'IB7', '7', True), ('plain', 'IB7', '5', False),
            ('pat', None, '5', True), ('pat', None, 'false', False), ('pat', 'xs:boolean', 'false', False), ('pat', 'xs:boolean', 'true', False), ('pat', 'xs:int', '5', False)]


def eval_union_xsi(ver):
    """xsi:type naming a member type of a union: admitted only where the declared type IS that union (no facets between the union and the declared type: a restriction of the
    union by enumeration or pattern is not a supertype of the members), as root and below a lax wildcard; the named type then governs the value"""
    s = _cls(ver)(UNI); bad = []; n = 0
    for tag, xt, val, exp in UNI_DOCS:
        for wrap in (False, True):
            n += 1
            d = f'<{tag} {XSI}' + (f' xmlns:xs="http://www.w3.org/2001/XMLSchema" xsi:type="{xt}"' if xt else '') + f'>{val}</{tag}>'
            dd = f'<w>{d}</w>' if wrap else d
            try: got = s.is_valid(dd)
            except Exception as e: got = 'raised ' + type(e).__name__
            if got is True and exp:
                v = s.decode(dd); v = v.get(tag) if wrap and isinstance(v, dict) else v; v = v[0] if isinstance(v, list) and len(v) == 1 else v; v = v.get('$') if isinstance(v, dict) else v
                want = (val == 'true') if val in ('true', 'false') else int(val)
                if v != want or type(v) is not type(want): bad.append(dict(ver=ver, doc=dd, got=f'decoded {v!r}', exp=repr(want))); continue
            if got != exp: bad.append(dict(ver=ver, doc=dd, got=got, exp=exp))
    return n, bad


def run(tier, seed, open_findings):
    allc = list(configs())
    sel, exhaustive = part(allc, tier, seed, 6)
    jobs = [(c, ver) for c in sel for ver in ('1.0', '1.1')]
    res = pmap(eval_config, jobs)
    fails = [dict(case=dict(doc=b['doc'], tflags=b['tflags'], eflags=b['eflags'], blockDefault=b['blockDefault'], ver=j[1]), observed=dict(valid=b['got']), required=dict(valid=b['exp'])) for r, j in zip(res, jobs) for b in r['bad']]
    cases = sum(r['cases'] for r in res)
    out = [result('C07.xsi_type_nil_block_abstract', f'{len(sel)} of {len(allc)} flag configurations x 2 classes x 48 instances (xsi:type x nil x content)', cases, fails, exhaustive=exhaustive,
                  samples=[dict(doc=doc('E1', False, 'E1'), flags='block=extension on the element')], distinct=cases)]
    sjobs = [(ver, hb, ma, tb) for ver in ('1.0', '1.1') for hb in (None, 'substitution', 'extension', 'restriction', '#all') for ma in (False, True) for tb in (None, 'extension')]
    sres = pmap(eval_subst, sjobs)
    sf = [dict(case=dict(doc=b['doc'], head_block=b['head_block'], m1_abstract=b['m1_abstract'], type_block=b['type_block'], ver=j[0]), observed=dict(valid=b['got']), required=dict(valid=b['exp'])) for r, j in zip(sres, sjobs) for b in r['bad']]
    tl = [eval_typeless(ver) for ver in ('1.0', '1.1')]
    out.append(result('C07.typeless_substitution_members', 'members without a type of a simple-typed and of a complex-typed head (one and two levels), as root and in place of the head x 10 contents x 2 classes', sum(n for n, _ in tl),
                      [dict(case=dict(typeless=True, ver=b['ver'], doc=b['doc']), observed=dict(valid=b['got']), required=dict(valid=b['exp'])) for _, bs in tl for b in bs], exhaustive=True))
    uv = [eval_union_xsi(ver) for ver in ('1.0', '1.1')]
    out.append(result('C07.xsi_type_naming_a_union_member', f'{len(UNI_DOCS)} (declared union / restricted union, xsi:type, value) instances, as root and below a lax wildcard, 2 classes', sum(n for n, _ in uv),
                      [dict(case=dict(union_xsi=True, ver=b['ver'], doc=b['doc']), observed=dict(valid=b['got']), required=dict(valid=b['exp'])) for _, bs in uv for b in bs], exhaustive=True))
    gv = [eval_gov(ver) for ver in ('1.0', '1.1')]
    out.append(result('C07.xsi_type_governs_attributes', '5 declarations (typeless, xs:anyType, complex, xs:int, simple content) x (no xsi:type, 6 named types) x 16 attribute sets x 3 contents, as root and as a child x 2 classes',
                      sum(n for n, _ in gv), [dict(case=dict(gov=True, ver=b['ver'], doc=b['doc'], exp=b['exp']), observed=dict(valid=b['got']), required=dict(valid=b['exp'])) for _, bs in gv for b in bs], exhaustive=True))
    out.append(result('C07.substitution_groups', f'{len(sjobs)} (class, head block, abstract member, type block) configurations x 12 instances', sum(r['cases'] for r in sres), sf, exhaustive=True,
                      samples=[dict(doc='<r><m2>...</m2></r>', head_block='substitution')]))
    ajobs = list(alt_docs())
    ares = [eval_alt(j) for j in ajobs]
    out.append(result('C07.type_alternatives', f'{len(ajobs)} documents (XSD 1.1): items typed by the first alternative whose test holds - own attribute kind, else the nearest lang in scope (own or inherited through nested sections), '
                      'every order of sections and items', len(ajobs), [dict(case=dict(alt=True, doc=r['doc'], exp=r['exp']), observed=dict(valid=r['got']), required=dict(valid=r['exp'])) for r in ares if r], exhaustive=True,
                      samples=[dict(doc='<doc lang="en"><section lang="fr"><item>bonjour</item></section><item>hello</item></doc>')]))
    return out


def replay(check_name, case):
    if case.get('union_xsi'):
        mine = [b for b in eval_union_xsi(case['ver'])[1] if b['doc'] == case['doc']]; return dict(ok=not mine, observed=mine[:1], required='a member type is admitted only for the facet-less union')
    if case.get('typeless'):
        n, bad = eval_typeless(case['ver']); mine = [b for b in bad if b['doc'] == case['doc']]; return dict(ok=not mine, observed=mine[:1], required='validated against the type of the head')
    import xmlschema
    if case.get('gov'):
        got = _cls(case['ver'])(GOV).is_valid(case['doc']); return dict(ok=got == case['exp'], observed=dict(valid=got), required=dict(valid=case['exp']))
    if case.get('alt'):
        r = eval_alt((case['doc'], case['exp'])); return dict(ok=r is None, observed=r, required='governing type = first alternative whose test holds')
    if check_name == 'C07.substitution_groups':
        s = subst_schema(case['ver'], case['head_block'], case['m1_abstract'], case['type_block'])
        return dict(ok=True, observed=dict(valid=s.is_valid(case['doc'])), required='re-run the check for the reference verdict')
    eattrs = ''.join(f' {k}="{v}"' for k, v in case['eflags'].items()); bd = case['blockDefault']
    s = _cls(case['ver'])(f'<xs:schema {XS}' + (f' blockDefault="{bd}"' if bd else '') + f'>{types_xml(case["tflags"])}<xs:element name="e" type="B"{eattrs}/></xs:schema>')
    return dict(ok=True, observed=dict(valid=s.is_valid(case['doc'])), required='re-run the check for the reference verdict')
