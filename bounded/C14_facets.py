"""C14 bounded: facet pairs and attribute-use pairs through real schemas.
accepted schema => every value valid for the restricted simple type is valid for its base; restricted attribute uses admit a subset."""
import itertools
from .common import pmap, result
from .C01 import _cls
XS = 'xmlns:xs="http://www.w3.org/2001/XMLSchema"'

INT_VALUES = ['-3', '0', '1', '2', '5', '9', '10', '11', '99', '100', '101']
STR_VALUES = ['', 'a', 'ab', 'abc', 'abcd', 'abcde', 'abcdef']
INT_FACETS = [('minInclusive', v) for v in (0, 5, 10)] + [('maxInclusive', v) for v in (5, 10, 100)] + \
             [('minExclusive', v) for v in (0, 5)] + [('maxExclusive', v) for v in (10, 100)] + [('totalDigits', v) for v in (1, 2, 3)]
STR_FACETS = [('length', v) for v in (2, 3)] + [('minLength', v) for v in (1, 2, 4)] + [('maxLength', v) for v in (2, 4, 5)] + \
             [('enumeration', v) for v in ('ab', 'abc')] + [('pattern', v) for v in ('a.*', '[a-c]{2,3}')]


def facet_xml(fs): return ''.join(f'<xs:{n} value="{v}"/>' for n, v in fs)


def eval_facets(args):
    kind, bf, df, ver = args
    import xmlschema
    prim, values = ('xs:integer', INT_VALUES) if kind == 'int' else ('xs:string', STR_VALUES)
    text = f'''<xs:schema {XS}><xs:simpleType name="B"><xs:restriction base="{prim}">{facet_xml(bf)}</xs:restriction></xs:simpleType>
<xs:simpleType name="D"><xs:restriction base="B">{facet_xml(df)}</xs:restriction></xs:simpleType></xs:schema>'''
    try: s = _cls(ver)(text)
    except xmlschema.XMLSchemaException: return None
    B, D = s.types['B'], s.types['D']
    bad = [v for v in values if D.is_valid(v) and not B.is_valid(v)]
    return dict(kind=kind, base=bf, derived=df, version=ver, bad=bad) if bad else False


def eval_local_types(args):
    """the base declaration and its redeclaration in a restriction both carry a LOCAL (anonymous) simple type, each a restriction of xs:integer with its own facets - two unrelated
    definitions: if the builder accepts the restriction, every value valid for the restricted type is valid for the base type"""
    where, bf, df, ver = args
    import xmlschema
    st = lambda fs: f'<xs:simpleType><xs:restriction base="xs:integer">{facet_xml(fs)}</xs:restriction></xs:simpleType>'
    if where == 'attribute':
        body = lambda fs: f'<xs:attribute name="a">{st(fs)}</xs:attribute>'
        inst = lambda tag, v: f'<{tag} a="{v}"/>'
        text = f'<xs:complexType name="B">{body(bf)}</xs:complexType><xs:complexType name="D"><xs:complexContent><xs:restriction base="B">{body(df)}</xs:restriction></xs:complexContent></xs:complexType>'
    elif where == 'child':
        body = lambda fs: f'<xs:sequence><xs:element name="c">{st(fs)}</xs:element></xs:sequence>'
        inst = lambda tag, v: f'<{tag}><c>{v}</c></{tag}>'
        text = f'<xs:complexType name="B">{body(bf)}</xs:complexType><xs:complexType name="D"><xs:complexContent><xs:restriction base="B">{body(df)}</xs:restriction></xs:complexContent></xs:complexType>'
    else:
        inst = lambda tag, v: f'<{tag}>{v}</{tag}>'
        text = (f'<xs:complexType name="B0"><xs:simpleContent><xs:extension base="xs:integer"><xs:attribute name="x"/></xs:extension></xs:simpleContent></xs:complexType>'
                f'<xs:complexType name="B"><xs:simpleContent><xs:restriction base="B0">{st(bf)}</xs:restriction></xs:simpleContent></xs:complexType>'
                f'<xs:complexType name="D"><xs:simpleContent><xs:restriction base="B">{st(df)}</xs:restriction></xs:simpleContent></xs:complexType>')
    try: s = _cls(ver)(f'<xs:schema {XS}>{text}<xs:element name="b" type="B"/><xs:element name="d" type="D"/></xs:schema>')
    except xmlschema.XMLSchemaException: return None
    bad = [v for v in INT_VALUES if s.is_valid(inst('d', v)) and not s.is_valid(inst('b', v))]
    return dict(where=where, base=bf, derived=df, version=ver, bad=bad) if bad else False


def eval_chain(args):
    """XSD 1.1 chains of restrictions over a wildcard: T0 = (h, any*), T1 restricts T0 with a local element a of its own type in place of a part of the wildcard, T2 restricts T1
    and gives the place back to the wildcard; a global element a of ANOTHER type exists.  A child <a> of a T2 element that the wildcard resolves to the global declaration is
    inconsistent with the local a of the base T1: whatever is valid for T2 is valid for T1, and whatever is valid for T1 is valid for T0"""
    pc, local_t, global_t, levels = args
    import xmlschema
    anyp = f'<xs:any namespace="##any" processContents="{pc}" minOccurs="0" maxOccurs="unbounded"/>'
    h = '<xs:element name="h" type="xs:string"/>'
    t1 = f'<xs:sequence>{h}<xs:sequence><xs:element name="a" type="{local_t}" minOccurs="0"/>{anyp}</xs:sequence></xs:sequence>'
    t2 = f'<xs:sequence>{h}{anyp}</xs:sequence>'
    types = f'<xs:complexType name="T0"><xs:sequence>{h}{anyp}</xs:sequence></xs:complexType><xs:complexType name="T1"><xs:complexContent><xs:restriction base="T0">{t1}</xs:restriction></xs:complexContent></xs:complexType>'
    prev = 'T1'
    for k in range(2, 2 + levels):
        types += f'<xs:complexType name="T{k}"><xs:complexContent><xs:restriction base="{prev}">{t2}</xs:restriction></xs:complexContent></xs:complexType>'; prev = f'T{k}'
    names = ['T0', 'T1'] + [f'T{k}' for k in range(2, 2 + levels)]
    try: s = xmlschema.XMLSchema11(f'<xs:schema {XS}><xs:element name="a" type="{global_t}"/>{types}' + ''.join(f'<xs:element name="e{n[1:]}" type="{n}"/>' for n in names) + '</xs:schema>')
    except xmlschema.XMLSchemaException: return None
    bad = []
    for body in ('<h>x</h>', '<h>x</h><a>7</a>', '<h>x</h><a>text</a>', '<h>x</h><z/>', '<h>x</h><z/><a>text</a>', '<h>x</h><a>7</a><a>text</a>', '<a>text</a>', '<h>x</h><a>2020-01-01</a>'):
        v = [s.is_valid(f'<e{n[1:]}>{body}</e{n[1:]}>') for n in names]
        for i in range(1, len(names)):
            if v[i] and not v[i - 1]: bad.append((body, names[i], names[i - 1]))
    return bad


def eval_attrs(args):
    buse, duse, bfix, dfix, ver = args
    import xmlschema
    def attr(use, fix): return f'<xs:attribute name="a" type="xs:int"{" use=%r" % use if use else ""}{" fixed=%r" % fix if fix else ""}/>'
    text = f'''<xs:schema {XS}><xs:complexType name="B">{attr(buse, bfix)}</xs:complexType>
<xs:complexType name="D"><xs:complexContent><xs:restriction base="B">{attr(duse, dfix)}</xs:restriction></xs:complexContent></xs:complexType>
<xs:element name="b" type="B"/><xs:element name="d" type="D"/></xs:schema>'''
    try: s = _cls(ver)(text)
    except xmlschema.XMLSchemaException: return None
    bad = []
    for inst in ('', ' a="1"', ' a="2"', ' a="01"'):
        if s.is_valid(f'<d{inst}/>') and not s.is_valid(f'<b{inst}/>'): bad.append(inst)
    return dict(base=(buse, bfix), derived=(duse, dfix), version=ver, bad=bad) if bad else False


def eval_fixed_ws(args):
    bt, dt, bf, df, ver = args
    import xmlschema
    text = f'''<xs:schema {XS}><xs:complexType name="B"><xs:attribute name="a" type="{bt}" fixed="{bf}"/></xs:complexType>
<xs:complexType name="D"><xs:complexContent><xs:restriction base="B"><xs:attribute name="a" type="{dt}" fixed="{df}"/></xs:restriction></xs:complexContent></xs:complexType>
<xs:element name="b" type="B"/><xs:element name="d" type="D"/></xs:schema>'''
    try: s = _cls(ver)(text)
    except xmlschema.XMLSchemaException: return None
    bad = []
    for v in ('x y', 'xy', 'x'):          # literals that no whitespace facet alters: a verdict difference is a difference of the admitted values
        if s.is_valid(f'<d a="{v}"/>') and not s.is_valid(f'<b a="{v}"/>'): bad.append(v)
    return bad or False


# ---------------------------------------------------------------- typed particles: a wildcard of the restriction must not re-admit a dropped typed element
PART = {'A': lambda pc: f'<xs:any namespace="##any" processContents="{pc}" minOccurs="0"/>', 'E': lambda pc: '<xs:element name="e" type="xs:int" minOccurs="0"/>',
        'F': lambda pc: '<xs:element name="f" type="xs:string" minOccurs="0"/>'}
TYPED_DOCS = ['', '<e>1</e>', '<e>abc</e>', '<f>x</f>', '<e>abc</e><f>x</f>', '<g/>', '<e>1</e><g/>', '<f>x</f><e>abc</e>', '<e><x/></e>']


def typed_jobs():
    for model in ('all', 'sequence'):
        for n in (1, 2, 3):
            for base in itertools.permutations('AEF', n):
                for k in range(0, n + 1):
                    for der in itertools.permutations(base, k):
                        if model == 'sequence' and [x for x in base if x in der] != list(der): continue      # a sequence restriction keeps the order
                        for pc in ('lax', 'skip'):
                            if 'A' not in base and pc == 'skip': continue
                            yield (model, ''.join(base), ''.join(der), pc)


def eval_typed(args):
    model, base, der, pc, ver = args
    import xmlschema
    if model == 'all' and ver == '1.0' and 'A' in base: return None        # wildcards in xs:all are XSD 1.1
    grp = lambda ps: f'<xs:{model}>' + ''.join(PART[x](pc) for x in ps) + f'</xs:{model}>'
    text = (f'<xs:schema {XS}><xs:complexType name="B">{grp(base)}</xs:complexType>'
            f'<xs:complexType name="D"><xs:complexContent><xs:restriction base="B">{grp(der)}</xs:restriction></xs:complexContent></xs:complexType>'
            f'<xs:element name="b" type="B"/><xs:element name="d" type="D"/></xs:schema>')
    try: s = _cls(ver)(text)
    except xmlschema.XMLSchemaException: return None        # restriction (or model) rejected: nothing to check
    bad = []
    for c in TYPED_DOCS:
        try:
            if s.is_valid(f'<d>{c}</d>') and not s.is_valid(f'<b>{c}</b>'): bad.append(c)
        except Exception as e: bad.append(f'{c}: {type(e).__name__}')
    return bad or False


# ---------------------------------------------------------------- XSD 1.1: open content of a restriction against the open content of its base
OC = {'absent': '', 'none': '<xs:openContent mode="none"/>', 'interleave-any': '<xs:openContent mode="interleave"><xs:any namespace="##any" processContents="skip"/></xs:openContent>',
      'suffix-any': '<xs:openContent mode="suffix"><xs:any namespace="##any" processContents="skip"/></xs:openContent>',
      'interleave-other': '<xs:openContent mode="interleave"><xs:any namespace="##other" processContents="skip"/></xs:openContent>',
      'suffix-other': '<xs:openContent mode="suffix"><xs:any namespace="##other" processContents="skip"/></xs:openContent>'}
DOC_OC = {'absent': '', 'interleave-any': '<xs:defaultOpenContent mode="interleave"><xs:any namespace="##any" processContents="skip"/></xs:defaultOpenContent>',
          'suffix-other': '<xs:defaultOpenContent mode="suffix"><xs:any namespace="##other" processContents="skip"/></xs:defaultOpenContent>',
          'interleave-other-empty': '<xs:defaultOpenContent mode="interleave" appliesToEmpty="true"><xs:any namespace="##other" processContents="skip"/></xs:defaultOpenContent>'}
OC_WORDS = [''.join(t) for k in range(4) for t in itertools.product('fex', repeat=k)]       # f = foo (declared), e = extra (no namespace, undeclared), x = element of another namespace


def eval_open_restriction(args):
    """a restriction that the builder accepts admits no content its base rejects, whatever combination of default, base and own open content applies"""
    import xmlschema
    dflt, base, der, derived_model = args
    body = {'same': '<xs:sequence><xs:element name="foo"/></xs:sequence>', 'empty': '<xs:sequence/>'}[derived_model]
    xsd = (f'<xs:schema xmlns:xs="http://www.w3.org/2001/XMLSchema">{DOC_OC[dflt]}'
           f'<xs:complexType name="B">{OC[base]}<xs:sequence><xs:element name="foo" minOccurs="0"/></xs:sequence></xs:complexType>'
           f'<xs:complexType name="D"><xs:complexContent><xs:restriction base="B">{OC[der]}{body}</xs:restriction></xs:complexContent></xs:complexType>'
           f'<xs:element name="b" type="B"/><xs:element name="d" type="D"/></xs:schema>')
    try: s = xmlschema.XMLSchema11(xsd)
    except xmlschema.XMLSchemaException: return None
    bad = []
    for w in OC_WORDS:
        kids = ''.join({'f': '<foo/>', 'e': '<extra/>', 'x': '<x xmlns="urn:o"/>'}[c] for c in w)
        if s.is_valid(f'<d>{kids}</d>') and not s.is_valid(f'<b>{kids}</b>'): bad.append(w)
    return bad


CHILD_TYPES = {'ItemT': 'complex', 'SmallItem': 'complex', 'BigItem': 'complex', 'OtherT': 'complex', 'xs:int': 'simple', 'xs:short': 'simple', 'xs:long': 'simple', 'xs:string': 'simple', 'Code': 'simple'}
CHILD_DOCS = ['<item><id>1</id></item>', '<item><id>1</id><extra>x</extra></item>', '<item><id>x</id></item>', '<item/>', '<item><id>1</id><id>2</id></item>', '<item>5</item>', '<item>70000</item>',
              '<item>99999999999</item>', '<item>abc</item>', '<item>ab</item>', '<item><other/></item>']


def eval_child_types(args):
    """a restriction that redeclares a child element with another type: if the builder accepts it, no content of the restricted type is rejected by the base type"""
    base_t, der_t, ver = args
    import xmlschema
    xsd = f'''<xs:schema xmlns:xs="http://www.w3.org/2001/XMLSchema">
 <xs:complexType name="ItemT"><xs:sequence><xs:element name="id" type="xs:int" maxOccurs="2"/></xs:sequence></xs:complexType>
 <xs:complexType name="SmallItem"><xs:complexContent><xs:restriction base="ItemT"><xs:sequence><xs:element name="id" type="xs:int"/></xs:sequence></xs:restriction></xs:complexContent></xs:complexType>
 <xs:complexType name="BigItem"><xs:complexContent><xs:extension base="ItemT"><xs:sequence><xs:element name="extra" type="xs:string" minOccurs="0"/></xs:sequence></xs:extension></xs:complexContent></xs:complexType>
 <xs:complexType name="OtherT"><xs:sequence><xs:element name="other" minOccurs="0"/></xs:sequence></xs:complexType>
 <xs:simpleType name="Code"><xs:restriction base="xs:string"><xs:length value="3"/></xs:restriction></xs:simpleType>
 <xs:complexType name="B"><xs:sequence><xs:element name="item" type="{base_t}"/></xs:sequence></xs:complexType>
 <xs:complexType name="D"><xs:complexContent><xs:restriction base="B"><xs:sequence><xs:element name="item" type="{der_t}"/></xs:sequence></xs:restriction></xs:complexContent></xs:complexType>
 <xs:element name="b" type="B"/><xs:element name="d" type="D"/></xs:schema>'''
    try: s = _cls(ver)(xsd)
    except xmlschema.XMLSchemaException: return None
    bad = [c for c in CHILD_DOCS if s.is_valid(f'<d>{c}</d>') and not s.is_valid(f'<b>{c}</b>')]
    return bad


def open_jobs(): return [(d, b, r, m) for d in DOC_OC for b in OC for r in OC for m in ('same', 'empty')]


def eval_redefined_simple(ver):
    """xs:redefine of a simple type (a.xsd defines S with facets, b.xsd redefines S as a restriction of S with other facets, one and two levels): when the redefinition is
    accepted, every value valid for the redefined S is valid for the original S"""
    import os, shutil, tempfile, xmlschema
    d = tempfile.mkdtemp(prefix='verif_c14r_'); bad = []; n = 0
    try:
        for kind, facets, values, prim in (('int', INT_FACETS, INT_VALUES, 'xs:integer'), ('str', STR_FACETS, STR_VALUES, 'xs:string')):
            singles = [[f] for f in facets]
            for bf in singles:
                orig = _cls(ver)(f'<xs:schema {XS}><xs:simpleType name="S"><xs:restriction base="{prim}">{facet_xml(bf)}</xs:restriction></xs:simpleType></xs:schema>').types['S']
                for df in singles + [[]]:
                    for levels in (1, 2):
                        n += 1
                        open(os.path.join(d, 'a.xsd'), 'w').write(f'<xs:schema {XS}><xs:simpleType name="S"><xs:restriction base="{prim}">{facet_xml(bf)}</xs:restriction></xs:simpleType><xs:element name="e" type="S"/></xs:schema>')
                        open(os.path.join(d, 'b.xsd'), 'w').write(f'<xs:schema {XS}><xs:redefine schemaLocation="a.xsd"><xs:simpleType name="S"><xs:restriction base="S">{facet_xml(df)}</xs:restriction></xs:simpleType></xs:redefine></xs:schema>')
                        open(os.path.join(d, 'c.xsd'), 'w').write(f'<xs:schema {XS}><xs:redefine schemaLocation="b.xsd"><xs:simpleType name="S"><xs:restriction base="S"/></xs:simpleType></xs:redefine></xs:schema>')
                        try: s = _cls(ver)(os.path.join(d, 'b.xsd' if levels == 1 else 'c.xsd'))
                        except xmlschema.XMLSchemaException: continue
                        wide = [v for v in values if s.is_valid(f'<e>{v}</e>') and not orig.is_valid(v)]
                        if wide: bad.append(dict(redefined_simple=[ver, kind, bf, df, levels], observed=f'the redefined type accepts {wide} that the original rejects'))
    finally: shutil.rmtree(d, ignore_errors=True)
    return n, bad


def run(tier, seed, open_findings):
    jobs = []
    for kind, facets in (('int', INT_FACETS), ('str', STR_FACETS)):
        singles = [[f] for f in facets] + [[]]
        pairs = singles + [[f, g] for f, g in itertools.combinations(facets, 2) if f[0] != g[0]][:60]
        for bf in pairs:
            for df in singles:
                for ver in ('1.0', '1.1'): jobs.append((kind, bf, df, ver))
    res = pmap(eval_facets, jobs)
    failures = [dict(case=dict(kind=r['kind'], base=r['base'], derived=r['derived'], version=r['version']), observed=f"derived accepts {r['bad']} that the base rejects", required='values(derived) subset of values(base)') for r in res if r]
    accepted = sum(1 for r in res if r is not None)
    out = [result('C14.facet_pairs', f'{len(jobs)} (base facets, derived facets, class) triples over integer and string boundary values', len(jobs), failures, exhaustive=True, distinct=accepted,
                  samples=[dict(base=jobs[5][1], derived=jobs[5][2])])]
    rs = pmap(eval_redefined_simple, ['1.0', '1.1'], chunk=1)
    out.append(result('C14.redefined_simple_types', 'every single facet of the original x every single facet (or none) of the redefinition x one / two levels of xs:redefine x integer / string values x 2 classes', sum(n_ for n_, _ in rs),
                      [dict(case=dict(redefined_simple=b['redefined_simple']), observed=b['observed'], required='values(redefined) subset of values(original)') for _, bs in rs for b in bs], exhaustive=True))
    ljobs = [(w, [bf_], [df_], ver) for w in ('attribute', 'child', 'simple-content') for bf_ in INT_FACETS for df_ in INT_FACETS for ver in ('1.0', '1.1')]
    lres = pmap(eval_local_types, ljobs)
    out.append(result('C14.local_simple_types', f'{len(ljobs)} (attribute / child element / simple content, facet of the base local type, facet of the redeclared local type, class): two unrelated local simple types over xs:integer',
                      len(ljobs), [dict(case=dict(local_types=True, where=r['where'], base=r['base'], derived=r['derived'], version=r['version']), observed=f"the restriction accepts {r['bad']} that the base rejects",
                                        required='values(derived) subset of values(base)') for r in lres if r], exhaustive=True, distinct=sum(1 for r in lres if r is not None)))
    # (processContents=skip: nothing is validated below the wildcard, the listed finding C14-xsd11-sequence-wildcard-readmits-dropped-typed-element has its own family)
    chjobs = [(pc, lt, gt, lv) for pc in ('lax', 'strict') for lt, gt in (('xs:int', 'xs:string'), ('xs:int', 'xs:int'), ('xs:date', 'xs:string'), ('xs:string', 'xs:int')) for lv in (1, 2)]
    chres = [eval_chain(j) for j in chjobs]
    KCH = 'C14-xsd11-local-element-wider-than-the-global-behind-the-base-wildcard'; chf = []; chk = 0
    for r, j in zip(chres, chjobs):
        if not r: continue
        # listed finding: the first step T1 <- T0 puts a local a of a WIDER type (xs:string) where the wildcard of T0 resolves a to the global a (xs:int)
        if j[1:3] == ('xs:string', 'xs:int') and all(b[1:] == ('T1', 'T0') for b in r) and KCH in open_findings: chk += 1; continue
        chf.append(dict(case=dict(chain=list(j)), observed=[list(b) for b in r[:3]], required='instances(derived) subset of instances(base), at every step of the chain'))
    out.append(result('C14.restriction_chains_over_a_wildcard', f'{len(chjobs)} XSD 1.1 chains T0 <- T1 <- T2 (<- T3) over a wildcard (lax / strict / skip), a local element a in the middle type and a global a of the same or another type x 8 contents: valid for a type => valid for its base',
                      len(chjobs) * 8, chf, exhaustive=True, known=({KCH: chk} if chk else {}), distinct=sum(1 for r in chres if r is not None)))
    uses = (None, 'optional', 'required', 'prohibited'); fixes = (None, '1', '2')
    # use=prohibited together with fixed is outside the scope: XSD 1.0 leaves its meaning open, xmlschema accepts the attribute then (reported corner)
    ajobs = [(bu, du, bf, df, ver) for bu in uses for du in uses for bf in fixes for df in fixes for ver in ('1.0', '1.1')
             if not (bu == 'prohibited' and bf) and not (du == 'prohibited' and df)]
    ares = pmap(eval_attrs, ajobs)
    # fixed values are compared in the value space of the BASE attribute: a restricted type with a stronger whiteSpace facet must not make a different
    # base value look equal
    wjobs = [(bt, dt, bf, df, ver) for bt, dt in (('xs:string', 'xs:token'), ('xs:string', 'xs:normalizedString'), ('xs:normalizedString', 'xs:token'), ('xs:string', 'xs:string'))
             for bf in ('x y', 'x  y', ' x y', 'x&#9;y') for df in ('x y', 'x  y') for ver in ('1.0', '1.1')]
    wres = pmap(eval_fixed_ws, wjobs)
    wfail = [dict(case=dict(base_type=j[0], derived_type=j[1], base_fixed=j[2], derived_fixed=j[3], version=j[4]), observed=f"derived accepts {r} that the base rejects", required='attribute sets(derived) subset of (base)') for r, j in zip(wres, wjobs) if r]
    afail = [dict(case=dict(base=r['base'], derived=r['derived'], version=r['version']), observed=f"derived accepts {r['bad']} that the base rejects", required='attribute sets(derived) subset of (base)') for r in ares if r]
    out.append(result('C14.attribute_fixed_whitespace', f'{len(wjobs)} (base type, derived type, base fixed, derived fixed, class) combinations x 3 collapsed instance values', len(wjobs), wfail, exhaustive=True,
                      distinct=sum(1 for r in wres if r is not None), samples=[dict(base_type='xs:string', derived_type='xs:token', base_fixed='x  y', derived_fixed='x y')]))
    out.append(result('C14.attribute_use_pairs', f'{len(ajobs)} (base use/fixed, derived use/fixed, class) combinations x 4 instances', len(ajobs), afail, exhaustive=True,
                      distinct=sum(1 for r in ares if r is not None), samples=[dict(base=ajobs[7][:2], derived=ajobs[7][2:4])]))
    tjobs = [j + (ver,) for j in typed_jobs() for ver in ('1.0', '1.1')]
    tres = pmap(eval_typed, tjobs)
    from .common import load_instances
    TK = 'C14-xsd11-sequence-wildcard-readmits-dropped-typed-element'
    listed = load_instances('C14_typed_instances.json') if TK in open_findings else {}
    tfail = []; tknown = 0
    for r, j in zip(tres, tjobs):
        if not r: continue
        if listed.get('|'.join(j)) == r: tknown += 1; continue
        tfail.append(dict(case=dict(typed=True, model=j[0], base=j[1], derived=j[2], process_contents=j[3], version=j[4]), observed=f'the restricted type accepts {r} that the base type rejects',
                          required='instances(derived) subset of instances(base)', baseline=listed.get('|'.join(j))))
    out.append(result('C14.typed_particles_and_wildcards', f'{len(tjobs)} (group kind, base particles in order, derived particles, processContents, class) over a lax/skip wildcard and two typed optional elements x {len(TYPED_DOCS)} contents',
                      len(tjobs), tfail, exhaustive=True, known=({TK: tknown} if tknown else {}), distinct=sum(1 for r in tres if r is not None), samples=[dict(model='all', base='AEF', derived='A', process_contents='lax')]))
    cjobs = [(b, d, ver) for b in CHILD_TYPES for d in CHILD_TYPES for ver in ('1.0', '1.1') if CHILD_TYPES[b] == CHILD_TYPES[d] or 'xs:string' in (b, d)]
    cres = pmap(eval_child_types, cjobs, chunk=4)
    cfail = [dict(case=dict(child_types=True, base=j[0], derived=j[1], version=j[2]), observed=f'the restricted type accepts {r[:3]} that the base type rejects', required='instances(derived) subset of instances(base)') for r, j in zip(cres, cjobs) if r]
    out.append(result('C14.redeclared_child_types', f'{len(cjobs)} (type of the child in the base, type of the redeclared child, class) over same / restriction-derived / extension-derived / unrelated complex and simple types x {len(CHILD_DOCS)} contents',
                      len(cjobs), cfail, exhaustive=True, distinct=sum(1 for r in cres if r is not None), samples=[dict(base='ItemT', derived='BigItem')]))
    ojobs = open_jobs(); ores = pmap(eval_open_restriction, ojobs, chunk=2)
    ofail = [dict(case=dict(open=True, default=j[0], base=j[1], derived=j[2], derived_model=j[3]), observed=f'the restricted type accepts the children {r[:5]} (f = foo, e = extra, x = foreign) that the base type rejects',
                  required='instances(derived) subset of instances(base)') for r, j in zip(ores, ojobs) if r]
    out.append(result('C14.open_content_restrictions', f'{len(ojobs)} (defaultOpenContent, open content of the base, of the restriction, derived model) under XMLSchema11 x {len(OC_WORDS)} child sequences',
                      len(ojobs), ofail, exhaustive=True, distinct=sum(1 for r in ores if r is not None), samples=[dict(default='interleave-any', base='none', derived='absent')]))
    return out


def replay(check_name, case):
    if case.get('redefined_simple'):
        key = case['redefined_simple']; mine = [b for b in eval_redefined_simple(key[0])[1] if [b['redefined_simple'][1], [list(x) for x in b['redefined_simple'][2]], [list(x) for x in b['redefined_simple'][3]], b['redefined_simple'][4]] == [key[1], [list(x) for x in key[2]], [list(x) for x in key[3]], key[4]]]
        return dict(ok=not mine, observed=mine[:1], required='values(redefined) subset of values(original)')
    if case.get('chain'):
        r = eval_chain(tuple(case['chain'])); return dict(ok=not r, observed=r, required='derived admits a subset')
    if case.get('local_types'):
        r = eval_local_types((case['where'], [tuple(x) for x in case['base']], [tuple(x) for x in case['derived']], case['version'])); return dict(ok=not r, observed=r, required='derived admits a subset')
    if case.get('child_types'):
        r = eval_child_types((case['base'], case['derived'], case['version'])); return dict(ok=not r, observed=r, required='derived admits a subset')
    if case.get('open'):
        r = eval_open_restriction((case['default'], case['base'], case['derived'], case['derived_model'])); return dict(ok=not r, observed=r, required='derived admits a subset')
    if case.get('typed'):
        r = eval_typed((case['model'], case['base'], case['derived'], case['process_contents'], case['version']))
        return dict(ok=not r, observed=r, required='derived admits a subset')
    if check_name == 'C14.attribute_fixed_whitespace':
        r = eval_fixed_ws((case['base_type'], case['derived_type'], case['base_fixed'], case['derived_fixed'], case['version']))
        return dict(ok=not r, observed=r, required='derived admits a subset')
    if check_name == 'C14.facet_pairs':
        r = eval_facets((case['kind'], [tuple(x) for x in case['base']], [tuple(x) for x in case['derived']], case['version']))
    else:
        r = eval_attrs((case['base'][0], case['derived'][0], case['base'][1], case['derived'][1], case['version']))
    return dict(ok=not r, observed=r, required='derived admits a subset')
